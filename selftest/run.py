#!/usr/bin/env python3
"""Self-validation of the checker: firing and silent variants.

Each variant is a textual edit of one file of the package, applied to a scratch
copy outside /repo and /verif (removed immediately).  A *firing* variant must
make the named property's check exit 1 and name the expected rule instance; a
*silent* variant (behaviour-preserving edit) must leave it at exit 0.

usage: selftest/run.py [--prop C04] [--jobs 16] [--only id-substring] [-v]
"""
from __future__ import annotations

import argparse
import contextlib
import io
import os
import shutil
import sys
import tempfile
from concurrent.futures import ProcessPoolExecutor

HERE = os.path.dirname(os.path.abspath(__file__))
sys.path.insert(0, os.path.dirname(HERE))

from selftest.variants import VARIANTS  # noqa: E402


def apply_variant(root, v):
    path = os.path.join(root, v["file"])
    with open(path) as f:
        src = f.read()
    edits = v["edits"] if "edits" in v else [(v["old"], v["new"])]
    for old, new in edits:
        if src.count(old) < 1:
            return False
        src = src.replace(old, new, 1)
    with open(path, "w") as f:
        f.write(src)
    # must still compile
    compile(src, path, "exec")
    return True


def run_one(v):
    from pv.cli import run_property
    repo = os.environ.get("PV_REPO", "/repo")
    root = tempfile.mkdtemp(prefix="pv-variant-")
    try:
        shutil.copytree(os.path.join(repo, "pymbolic"),
                        os.path.join(root, "pymbolic"),
                        ignore=shutil.ignore_patterns("__pycache__"))
        try:
            if not apply_variant(root, v):
                return (v["id"], "inapplicable", "", "")
        except SyntaxError as e:
            return (v["id"], "inapplicable", f"does not compile: {e}", "")
        results = []
        for prop in v["props"]:
            buf = io.StringIO()
            with contextlib.redirect_stdout(buf):
                rc = run_property(prop, v.get("tier", "quick"), None, False, root)
            results.append((prop, rc, buf.getvalue()))
        return (v["id"], "ran", results, v)
    finally:
        shutil.rmtree(root, ignore_errors=True)


def judge(v, results):
    """-> (ok, message)"""
    msgs = []
    ok = True
    for prop, rc, out in results:
        if v["kind"] == "fire":
            if rc != 1:
                ok = False
                msgs.append(f"{prop}: expected exit 1, got {rc}")
            elif v.get("expect") and v["expect"] not in out:
                ok = False
                msgs.append(f"{prop}: fired but did not name '{v['expect']}'")
        else:
            if rc != 0:
                ok = False
                msgs.append(f"{prop}: silent variant raised exit {rc}")
        if not ok:
            tail = "\n".join(out.strip().splitlines()[-8:])
            msgs.append(tail)
    return ok, "\n".join(msgs)


def main(argv=None):
    ap = argparse.ArgumentParser()
    ap.add_argument("--prop")
    ap.add_argument("--jobs", type=int, default=min(16, os.cpu_count() or 4))
    ap.add_argument("--only")
    ap.add_argument("-v", action="store_true")
    args = ap.parse_args(argv)
    todo = [v for v in VARIANTS
            if (not args.prop or args.prop in v["props"])
            and (not args.only or args.only in v["id"])]
    if args.prop:
        todo = [dict(v, props=[args.prop]) for v in todo]
    bad = 0
    skipped = 0
    with ProcessPoolExecutor(max_workers=args.jobs) as ex:
        for vid, status, results, v in ex.map(run_one, todo):
            if status == "inapplicable":
                skipped += 1
                print(f"SKIP  {vid}: edit no longer applies {results}")
                continue
            ok, msg = judge(v, results)
            if not ok:
                bad += 1
                print(f"FAIL  {vid} ({v['kind']}): {msg}")
            elif args.v:
                print(f"ok    {vid} ({v['kind']})")
    print(f"selftest: {len(todo)} variants, {bad} failed, {skipped} inapplicable")
    return 1 if bad else 0


if __name__ == "__main__":
    sys.exit(main())
