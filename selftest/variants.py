"""Firing and silent variants for the checker's self-validation.

kind "fire": the edit breaks the property; the check must exit 1 and its
output must contain `expect`.  kind "silent": behaviour-preserving edit; the
check must stay at exit 0.
"""

MI = "pymbolic/mapper/__init__.py"
PR = "pymbolic/primitives.py"
SU = "pymbolic/mapper/substitutor.py"

VARIANTS = []


def fire(id, props, file, old, new, expect=""):
    VARIANTS.append(dict(id=id, kind="fire", props=props, file=file, old=old,
                         new=new, expect=expect))


def silent(id, props, file, old, new):
    VARIANTS.append(dict(id=id, kind="silent", props=props, file=file, old=old,
                         new=new))


def fire_multi(id, props, file, edits, expect=""):
    VARIANTS.append(dict(id=id, kind="fire", props=props, file=file, edits=edits,
                         expect=expect))


def silent_multi(id, props, file, edits):
    VARIANTS.append(dict(id=id, kind="silent", props=props, file=file,
                         edits=edits))


# ---------------------------------------------------------------------------
# C04
# ---------------------------------------------------------------------------

fire("c04-ident-subscript-drop-args", ["C04"], MI,
     "        index = self.rec(expr.index, *args, **kwargs)\n"
     "        if aggregate is expr.aggregate and index is expr.index:",
     "        index = self.rec(expr.index)\n"
     "        if aggregate is expr.aggregate and index is expr.index:",
     "A/IdentityMapper/map_subscript")
fire("c04-walk-if-forget-else", ["C04"], MI,
     "        self.rec(expr.condition, *args, **kwargs)\n"
     "        self.rec(expr.then, *args, **kwargs)\n"
     "        self.rec(expr.else_, *args, **kwargs)\n\n"
     "        self.post_visit(expr, *args, **kwargs)\n\n"
     "    def map_if_positive",
     "        self.rec(expr.condition, *args, **kwargs)\n"
     "        self.rec(expr.then, *args, **kwargs)\n\n"
     "        self.post_visit(expr, *args, **kwargs)\n\n"
     "    def map_if_positive",
     "W/WalkMapper/map_if/If")
fire("c04-ident-if-guard-misses-else", ["C04", "C08"], MI,
     "        if condition is expr.condition \\\n"
     "                and then is expr.then \\\n"
     "                and else_ is expr.else_:\n",
     "        if condition is expr.condition \\\n"
     "                and then is expr.then:\n",
     "F/")
fire("c04-ident-comparison-swap", ["C04", "C08"], MI,
     "return type(expr)(left, expr.operator, right)",
     "return type(expr)(right, expr.operator, left)",
     "map_comparison/Comparison/rebuild")
fire("c04-ident-lookup-name-lost", ["C04", "C08"], MI,
     "return type(expr)(aggregate, expr.name)",
     "return type(expr)(aggregate, str(expr.name).strip())",
     "map_lookup/Lookup/rebuild")
fire("c04-combine-if-forget-else", ["C04"], MI,
     "            self.rec(expr.then, *args, **kwargs),\n"
     "            self.rec(expr.else_, *args, **kwargs)])\n\n\n"
     "class CachedCombineMapper",
     "            self.rec(expr.then, *args, **kwargs)])\n\n\n"
     "class CachedCombineMapper",
     "K/CombineMapper/map_if/If/combine")
fire("c04-combine-kwargs-dropped", ["C04"], MI,
     "            *[self.rec(child, *args, **kwargs) for child in expr.parameters],\n"
     "            *[self.rec(child, *args, **kwargs)\n"
     "              for child in expr.kw_parameters.values()]\n",
     "            *[self.rec(child, *args, **kwargs) for child in expr.parameters],\n",
     "K/CombineMapper/map_call_with_kwargs")
fire("c04-walk-call-postvisit-early", ["C04"], MI,
     "        self.rec(expr.function, *args, **kwargs)\n"
     "        for child in expr.parameters:\n"
     "            self.rec(child, *args, **kwargs)\n\n"
     "        self.post_visit(expr, *args, **kwargs)\n\n"
     "    def map_call_with_kwargs",
     "        self.rec(expr.function, *args, **kwargs)\n"
     "        self.post_visit(expr, *args, **kwargs)\n"
     "        for child in expr.parameters:\n"
     "            self.rec(child, *args, **kwargs)\n\n"
     "    def map_call_with_kwargs",
     "W/WalkMapper/map_call/Call/protocol")
fire("c04-walk-sum-ignores-visit-result", ["C04"], MI,
     "    def map_sum(self, expr, *args, **kwargs):\n"
     "        if not self.visit(expr, *args, **kwargs):\n"
     "            return\n\n"
     "        for child in expr.children:",
     "    def map_sum(self, expr, *args, **kwargs):\n"
     "        self.visit(expr, *args, **kwargs)\n\n"
     "        for child in expr.children:",
     "W/WalkMapper/map_sum")
fire("c04-dispatch-mro-skips-parent", ["C04"], MI,
     "            for cls in type(expr).__mro__[1:]:\n"
     "                method_name = getattr(cls, \"mapper_method\", None)\n"
     "                if method_name:\n"
     "                    method = getattr(self, method_name, None)\n"
     "                    if method:\n"
     "                        return method(expr, *args, **kwargs)\n"
     "            else:\n"
     "                return self.handle_unsupported_expression(expr, *args, **kwargs)\n"
     "        else:\n"
     "            return self.map_foreign(expr, *args, **kwargs)\n\n"
     "    rec = __call__",
     "            for cls in type(expr).__mro__[2:]:\n"
     "                method_name = getattr(cls, \"mapper_method\", None)\n"
     "                if method_name:\n"
     "                    method = getattr(self, method_name, None)\n"
     "                    if method:\n"
     "                        return method(expr, *args, **kwargs)\n"
     "            else:\n"
     "                return self.handle_unsupported_expression(expr, *args, **kwargs)\n"
     "        else:\n"
     "            return self.map_foreign(expr, *args, **kwargs)\n\n"
     "    rec = __call__",
     "D")
fire("c04-dispatch-unsupported-silent", ["C04"], MI,
     "        raise UnsupportedExpressionError(\n"
     "                \"{} cannot handle expressions of type {}\".format(\n"
     "                    type(self), type(expr)))",
     "        return None",
     "unsupported")
fire("c04-foreign-list-as-tuple", ["C04"], MI,
     "        elif isinstance(expr, list):\n"
     "            return self.map_list(expr, *args, **kwargs)",
     "        elif isinstance(expr, list):\n"
     "            return self.map_tuple(expr, *args, **kwargs)",
     "D3/map_foreign")
fire("c04-foreign-no-reject", ["C04"], MI,
     "        else:\n"
     "            raise ValueError(\n"
     "                    \"{} encountered invalid foreign object: {}\".format(\n"
     "                        self.__class__, repr(expr)))",
     "        else:\n"
     "            return expr",
     "D3/map_foreign")
fire("c04-revert-walk-substitution", ["C04"], MI,
     "    def map_substitution(self, expr, *args, **kwargs):\n"
     "        if not self.visit(expr, *args, **kwargs):",
     "    def map_substitution(self, expr, *args, **kwargs):\n"
     "        if not self.visit(expr):",
     "A/WalkMapper/map_substitution")
fire("c04-revert-walk-slice", ["C04"], MI,
     "        for child in expr.children:\n"
     "            if child is not None:\n"
     "                self.rec(child, *args, **kwargs)\n",
     "        if expr.start is not None:\n"
     "            self.rec(expr.start, *args, **kwargs)\n"
     "        if expr.stop is not None:\n"
     "            self.rec(expr.stop, *args, **kwargs)\n"
     "        if expr.step is not None:\n"
     "            self.rec(expr.step, *args, **kwargs)\n",
     "W/WalkMapper/map_slice/Slice/len=1")
fire("c04-revert-ident-polynomial", ["C04", "C19"], MI,
     "        data = tuple([(exp, self.rec(coeff, *args, **kwargs))\n"
     "                                  for exp, coeff in expr.data])",
     "        data = ((exp, self.rec(coeff, *args, **kwargs))\n"
     "                                  for exp, coeff in expr.data)",
     "generator-reuse")
fire("c04-ident-sum-filters-children", ["C04", "C08"], MI,
     "    def map_sum(self, expr, *args, **kwargs):\n"
     "        children = [self.rec(child, *args, **kwargs) for child in expr.children]\n",
     "    def map_sum(self, expr, *args, **kwargs):\n"
     "        children = [self.rec(child, *args, **kwargs) for child in expr.children\n"
     "                    if child]\n",
     "F/")
fire("c04-callback-drops-mapper", ["C04"], MI,
     "        return self.function(expr, self, *args, **kwargs)",
     "        return self.function(expr, *args, **kwargs)",
     "CB/")
fire("c04-camel-rule-broken", ["C04"], PR,
     'snake_clsname = _CAMEL_TO_SNAKE_RE.sub("_", cls.__name__).lower()',
     'snake_clsname = _CAMEL_TO_SNAKE_RE.sub("", cls.__name__).lower()',
     "N1/")
fire("c04-ident-kwargs-values-not-mapped", ["C04", "C08"], MI,
     "                key: self.rec(val, *args, **kwargs)\n"
     "                for key, val in expr.kw_parameters.items()})",
     "                key: val\n"
     "                for key, val in expr.kw_parameters.items()})",
     "map_call_with_kwargs")
fire("c04-cached-rec-not-call", ["C04"], MI,
     "        self._cache[cache_key] = result\n"
     "        return result\n\n"
     "    rec = __call__",
     "        self._cache[cache_key] = result\n"
     "        return result\n\n"
     "    rec = Mapper.__call__",
     "D1/CachedMapper.rec")
fire("c04-ident-cse-drops-scope", ["C04", "C08"], MI,
     "                result,\n"
     "                expr.prefix,\n"
     "                expr.scope,\n",
     "                result,\n"
     "                expr.prefix,\n",
     "map_common_subexpression")
fire("c04-walk-shift-visits-shiftee-twice", ["C04"], MI,
     "        self.rec(expr.shift, *args, **kwargs)\n"
     "        self.rec(expr.shiftee, *args, **kwargs)\n",
     "        self.rec(expr.shiftee, *args, **kwargs)\n"
     "        self.rec(expr.shiftee, *args, **kwargs)\n",
     "W/WalkMapper/map_left_shift")
fire("c04-ident-reads-missing-attr", ["C04"], MI,
     "    def map_derivative(self, expr, *args, **kwargs):\n"
     "        child = self.rec(expr.child, *args, **kwargs)\n"
     "        if child is expr.child:\n"
     "            return expr\n\n"
     "        return type(expr)(child, expr.variables)",
     "    def map_derivative(self, expr, *args, **kwargs):\n"
     "        child = self.rec(expr.child, *args, **kwargs)\n"
     "        if child is expr.child:\n"
     "            return expr\n\n"
     "        return type(expr)(child, expr.variable)",
     "map_derivative")

silent("c04-silent-rename-locals", ["C04", "C08"], MI,
       "        aggregate = self.rec(expr.aggregate, *args, **kwargs)\n"
       "        index = self.rec(expr.index, *args, **kwargs)\n"
       "        if aggregate is expr.aggregate and index is expr.index:\n"
       "            return expr\n"
       "        return type(expr)(aggregate, index)",
       "        new_agg = self.rec(expr.aggregate, *args, **kwargs)\n"
       "        new_idx = self.rec(expr.index, *args, **kwargs)\n"
       "        if new_idx is expr.index and new_agg is expr.aggregate:\n"
       "            return expr\n"
       "        return expr.__class__(new_agg, new_idx)")
silent("c04-silent-walk-comprehension", ["C04"], MI,
       "    def map_sum(self, expr, *args, **kwargs):\n"
       "        if not self.visit(expr, *args, **kwargs):\n"
       "            return\n\n"
       "        for child in expr.children:\n"
       "            self.rec(child, *args, **kwargs)\n",
       "    def map_sum(self, expr, *args, **kwargs):\n"
       "        if not self.visit(expr, *args, **kwargs):\n"
       "            return\n\n"
       "        [self.rec(ch, *args, **kwargs) for ch in expr.children]\n")
silent("c04-silent-reorder-quotient", ["C04", "C08"], MI,
       "        numerator = self.rec(expr.numerator, *args, **kwargs)\n"
       "        denominator = self.rec(expr.denominator, *args, **kwargs)\n"
       "        if numerator is expr.numerator and denominator is expr.denominator:",
       "        denominator = self.rec(expr.denominator, *args, **kwargs)\n"
       "        numerator = self.rec(expr.numerator, *args, **kwargs)\n"
       "        if denominator is expr.denominator and numerator is expr.numerator:")
silent("c04-silent-extra-handler", ["C04", "C08"], MI,
       "    def map_nan(self, expr, *args, **kwargs):\n"
       "        # Leaf node -- don't recurse\n"
       "        return expr\n",
       "    def map_nan(self, expr, *args, **kwargs):\n"
       "        # Leaf node -- don't recurse\n"
       "        return expr\n\n"
       "    def map_user_defined_thing(self, expr, *args, **kwargs):\n"
       "        return expr\n")
silent("c04-silent-dispatch-locals", ["C04"], MI,
       "        method_name = getattr(expr, \"mapper_method\", None)\n"
       "        if method_name is not None:\n"
       "            method = getattr(self, method_name, None)\n"
       "            if method is not None:\n"
       "                result = method(expr, *args, **kwargs)\n"
       "                return result\n\n"
       "        if isinstance(expr, primitives.Expression):",
       "        mname = getattr(expr, \"mapper_method\", None)\n"
       "        if mname is not None:\n"
       "            handler = getattr(self, mname, None)\n"
       "            if handler is not None:\n"
       "                return handler(expr, *args, **kwargs)\n\n"
       "        if isinstance(expr, primitives.Expression):")
silent("c04-silent-combine-list-literal", ["C04"], MI,
       "        return self.combine((\n"
       "                self.rec(expr.base, *args, **kwargs),\n"
       "                self.rec(expr.exponent, *args, **kwargs)))",
       "        parts = [self.rec(expr.exponent, *args, **kwargs),\n"
       "                 self.rec(expr.base, *args, **kwargs)]\n"
       "        return self.combine(parts)")

# ---------------------------------------------------------------------------
# C08
# ---------------------------------------------------------------------------

fire("c08-resubstitute", ["C08"], SU,
     "    def map_subscript(self, expr):\n"
     "        result = self.subst_func(expr)\n"
     "        if result is not None:\n"
     "            return result",
     "    def map_subscript(self, expr):\n"
     "        result = self.subst_func(expr)\n"
     "        if result is not None:\n"
     "            return self.rec(result)",
     "F/SubstitutionMapper/map_subscript/replacement")
fire("c08-variable-fallback-none", ["C08"], SU,
     "        if result is not None:\n"
     "            return result\n"
     "        else:\n"
     "            return expr\n",
     "        if result is not None:\n"
     "            return result\n",
     "F/SubstitutionMapper/map_variable")
fire("c08-name-lookup-for-any-node", ["C08"], SU,
     "            if isinstance(var, primitives.Variable):\n"
     "                try:\n"
     "                    return variable_assignments[var.name]\n"
     "                except KeyError:\n"
     "                    return None\n"
     "            else:\n"
     "                return None",
     "            try:\n"
     "                return variable_assignments[var.name]\n"
     "            except (KeyError, AttributeError):\n"
     "                return None",
     "P/make_subst_func")
fire("c08-mutates-callers-dict", ["C08"], SU,
     "    variable_assignments = dict(variable_assignments)\n",
     "",
     "P/substitute/copy-before-mutation")
fire("c08-lookup-falls-to-subscript-handler", ["C08"], SU,
     "            return IdentityMapper.map_lookup(self, expr)",
     "            return IdentityMapper.map_subscript(self, expr)",
     "F/SubstitutionMapper/map_lookup")
fire("c08-extra-interceptor", ["C08"], SU,
     "class CachedSubstitutionMapper(CachedIdentityMapper,",
     "    def map_call(self, expr):\n"
     "        return expr\n\n\n"
     "class CachedSubstitutionMapper(CachedIdentityMapper,",
     "F/SubstitutionMapper/map_call")
fire("c08-cached-mro-loses-interceptors", ["C08"], SU,
     "class CachedSubstitutionMapper(CachedIdentityMapper,\n"
     "                               SubstitutionMapper):",
     "class CachedSubstitutionMapper(CachedIdentityMapper, IdentityMapper):\n"
     "    subst_base = SubstitutionMapper\n",
     "S/CachedSubstitutionMapper")
silent("c08-silent-is-none-form", ["C08"], SU,
       "    def map_variable(self, expr):\n"
       "        result = self.subst_func(expr)\n"
       "        if result is not None:\n"
       "            return result\n"
       "        else:\n"
       "            return expr\n",
       "    def map_variable(self, expr):\n"
       "        replacement = self.subst_func(expr)\n"
       "        if replacement is None:\n"
       "            return expr\n"
       "        return replacement\n")

# ---------------------------------------------------------------------------
# C09
# ---------------------------------------------------------------------------
DE = "pymbolic/mapper/dependency.py"
FL = "pymbolic/mapper/flop_counter.py"
AN = "pymbolic/mapper/analysis.py"

fire("c09-lookup-flag-inverted", ["C09"], DE,
     "        if self.include_lookups:\n            return {expr}",
     "        if not self.include_lookups:\n            return {expr}",
     "T/DependencyMapper/map_lookup")
fire("c09-subscript-uses-lookup-flag", ["C09"], DE,
     "        if self.include_subscripts:\n            return {expr}",
     "        if self.include_lookups:\n            return {expr}",
     "T/DependencyMapper/map_subscript")
fire("c09-descend-forgets-kwargs", ["C09"], DE,
     "                    + [self.rec(child, *args, **kwargs) for child in expr.parameters]\n"
     "                    + [self.rec(val, *args, **kwargs) for name, val in\n"
     "                    expr.kw_parameters.items()]\n",
     "                    + [self.rec(child, *args, **kwargs) for child in expr.parameters]\n",
     "T/DependencyMapper/map_call_with_kwargs/descend-args")
fire("c09-composite-false-keeps-calls", ["C09"], DE,
     "            include_lookups = False\n            include_calls = False\n",
     "            include_lookups = False\n",
     "composite=False/include_calls")
fire("c09-slice-filter-truthy", ["C09"], DE,
     "                    if child is not None])",
     "                    if child])",
     "map_slice")
fire("c09-variable-empty", ["C09"], DE,
     "    def map_variable(self, expr, *args, **kwargs):\n        return {expr}",
     "    def map_variable(self, expr, *args, **kwargs):\n        return set()",
     "T/DependencyMapper/map_variable")
fire("c09-cse-mixin-order", ["C09"], DE,
     "class DependencyMapper(CSECachingMapperMixin, Collector):",
     "class DependencyMapper(Collector, CSECachingMapperMixin):",
     "cse-mixin-first")
fire("c09-cached-dep-drops-flag", ["C09"], DE,
     "                                  include_cses=include_cses,\n"
     "                                  composite_leaves=composite_leaves)",
     "                                  composite_leaves=composite_leaves)",
     "S/CachedDependencyMapper/init-passes-flags")
fire("c09-nodecount-uncached", ["C09"], AN,
     "from pymbolic.mapper import CachedWalkMapper",
     "from pymbolic.mapper import WalkMapper as CachedWalkMapper",
     "S/NodeCountMapper/base")
fire("c09-nodecount-visit", ["C09"], AN,
     "    def post_visit(self, expr) -> None:\n        self.count += 1",
     "    def post_visit(self, expr) -> None:\n        self.count += 2",
     "P/NodeCountMapper/post_visit")
fire("c09-flop-sum-off-by-one", ["C09"], FL,
     "return len(expr.children) - 1 + sum(self.rec(ch) for ch in expr.children)",
     "return len(expr.children) + sum(self.rec(ch) for ch in expr.children)",
     "E/FlopCounterBase/map_sum/formula")
fire("c09-flop-power-free", ["C09"], FL,
     "return 1 + self.rec(expr.base) + self.rec(expr.exponent)",
     "return self.rec(expr.base) + self.rec(expr.exponent)",
     "E/FlopCounterBase/map_power/formula")
fire("c09-flop-quotient-forgets-den", ["C09"], FL,
     "return 1 + self.rec(expr.numerator) + self.rec(expr.denominator)",
     "return 1 + self.rec(expr.numerator) + self.rec(expr.numerator)",
     "E/FlopCounterBase/map_quotient/formula")
fire("c09-cse-flop-counts-twice", ["C09"], FL,
     "        if expr in self.cse_seen_set:\n            return 0\n        else:\n"
     "            self.cse_seen_set.add(expr)\n",
     "        if expr in self.cse_seen_set:\n            return 0\n        else:\n",
     "P/CSEAwareFlopCounter/new")
fire("c09-combine-walk-shared-with-c04", ["C09"], MI,
     "    def map_comparison(self, expr, *args, **kwargs):\n"
     "        return self.combine((\n"
     "            self.rec(expr.left, *args, **kwargs),\n"
     "            self.rec(expr.right, *args, **kwargs)))",
     "    def map_comparison(self, expr, *args, **kwargs):\n"
     "        return self.combine((\n"
     "            self.rec(expr.left, *args, **kwargs),))",
     "map_comparison")
silent("c09-silent-flag-else-form", ["C09"], DE,
       "        if self.include_lookups:\n            return {expr}\n        else:\n"
       "            return super().map_lookup(expr, *args, **kwargs)",
       "        if not self.include_lookups:\n"
       "            return super().map_lookup(expr, *args, **kwargs)\n"
       "        return {expr}")
silent("c09-silent-flop-reorder", ["C09"], FL,
       "return 1 + self.rec(expr.base) + self.rec(expr.exponent)",
       "return self.rec(expr.exponent) + 1 + self.rec(expr.base)")

# ---------------------------------------------------------------------------
# C20
# ---------------------------------------------------------------------------
STF = "pymbolic/imperative/statement.py"
TRF = "pymbolic/imperative/transform.py"
ANF = "pymbolic/imperative/analysis.py"

fire("c20-revert-get-vars", ["C20"], STF,
     "return frozenset(dep.name for dep in get_deps(expr))",
     "return frozenset(dep.name for dep in get_deps(self.rhs))",
     "S/Assignment")
fire("c20-reads-forget-lhs", ["C20"], STF,
     "result = get_vars(self.rhs) | get_vars(self.lhs)",
     "result = get_vars(self.rhs)",
     "get_read_variables/attrs")
fire("c20-cond-reads-drop-super", ["C20"], STF,
     "        return (\n                super().get_read_variables()\n                | frozenset(\n"
     "                    dep.name for dep in dep_mapper(self.condition)))",
     "        super().get_read_variables()\n        return (\n                frozenset(\n"
     "                    dep.name for dep in dep_mapper(self.condition)))",
     "super-dropped")
fire("c20-map-expr-forgets-condition", ["C20"], STF,
     "                .copy(condition=mapper(self.condition)))",
     "                .copy())",
     "ConditionalAssignment/map_expressions/attrs")
fire("c20-map-expr-rhs-unmapped", ["C20"], STF,
     "                    rhs=mapper(self.rhs)))",
     "                    rhs=self.rhs))",
     "map_expressions/attrs")
fire("c20-written-subscript-index", ["C20"], STF,
     "            return frozenset([self.lhs.aggregate.name])",
     "            return frozenset([self.lhs.index.name])",
     "P/Assignment.get_written_variables")
fire("c20-written-no-raise", ["C20"], STF,
     "            raise TypeError(\"unexpected type of LHS\")",
     "            return frozenset()",
     "P/Assignment.get_written_variables")
fire("c20-depmapper-includes-subscripts", ["C20"], STF,
     "            include_subscripts=False,\n            include_lookups=False,",
     "            include_subscripts=True,\n            include_lookups=False,",
     "T/Statement.get_dependency_mapper")
fire("c20-fuse-seed-misses-first-stream", ["C20"], TRF,
     "            {stmta.id for stmta in new_statements})",
     "            {stmta.id for stmta in new_statements[1:]})",
     "P/fuse/generator-seeded-with-first-stream")
fire("c20-fuse-mapping-keyed-by-new", ["C20"], TRF,
     "        old_b_id_to_new_b_id[old_id] = new_id",
     "        old_b_id_to_new_b_id[new_id] = new_id",
     "P/fuse/mapping-domain")
fire("c20-fuse-deps-not-remapped", ["C20"], TRF,
     "                    depends_on=frozenset(\n"
     "                        old_b_id_to_new_b_id[dep_id]\n"
     "                        for dep_id in stmtb.depends_on)))",
     "                    depends_on=frozenset(\n"
     "                        dep_id\n"
     "                        for dep_id in stmtb.depends_on)))",
     "P/fuse/depends-on-remapped")
fire("c20-fuse-id-not-from-generator", ["C20"], TRF,
     "        new_id = stmt_id_gen(old_id)",
     "        new_id = old_id if old_id not in old_b_id_to_new_b_id else stmt_id_gen(old_id)",
     "P/fuse")
fire("c20-disamb-union-for-clash", ["C20"], TRF,
     "    for clash in id_a & id_b:",
     "    for clash in id_a | id_b:",
     "P/disambiguate/clash-set")
fire("c20-disamb-generator-seed-only-b", ["C20"], TRF,
     "    vng = UniqueNameGenerator(id_a | id_b)",
     "    vng = UniqueNameGenerator(id_b)",
     "P/disambiguate/fresh-names")
fire("c20-disamb-skip-lhs", ["C20"], TRF,
     "            stmt.map_expressions(subst_map) for stmt in statements_b]",
     "            stmt.map_expressions(subst_map, include_lhs=False) for stmt in statements_b]",
     "P/disambiguate/applied-everywhere")
fire("c20-disamb-ignores-filter", ["C20"], TRF,
     "        if should_disambiguate_name(clash):\n            unclash = vng(clash)\n"
     "            subst_b[clash] = var(unclash)",
     "        unclash = vng(clash)\n        subst_b[clash] = var(unclash)",
     "P/disambiguate/filter")
fire("c20-used-identifiers-reads-only", ["C20"], ANF,
     "        result |= insn.get_written_variables()\n",
     "",
     "P/get_all_used_identifiers")
fire("c20-daf-fuses-undisambiguated", ["C20"], TRF,
     "    statements_b, subst_b = disambiguate_identifiers(",
     "    _statements_b, subst_b = disambiguate_identifiers(",
     "P/disambiguate_and_fuse/wiring")
silent("c20-silent-rename-fuse-locals", ["C20"], TRF,
       "        old_id = stmtb.id\n        new_id = stmt_id_gen(old_id)\n"
       "        old_b_id_to_new_b_id[old_id] = new_id\n",
       "        fresh = stmt_id_gen(stmtb.id)\n"
       "        old_b_id_to_new_b_id[stmtb.id] = fresh\n        new_id = fresh\n")
silent("c20-silent-reads-order", ["C20"], STF,
       "result = get_vars(self.rhs) | get_vars(self.lhs)",
       "result = get_vars(self.lhs) | get_vars(self.rhs)")

# ---------------------------------------------------------------------------
# C06 / C07
# ---------------------------------------------------------------------------
SF = "pymbolic/mapper/stringifier.py"
PF = "pymbolic/parser.py"
IA = "pymbolic/interop/ast.py"

fire("c06-printer-sum-product-swapped", ["C06"], SF,
     "PREC_PRODUCT = 12\nPREC_SUM = 11\n", "PREC_PRODUCT = 11\nPREC_SUM = 12\n",
     "T/roundtrip/")
fire("c06-quotient-no-forced-parens", ["C06"], SF,
     "    def map_quotient(self, expr, enclosing_prec, *args, **kwargs):\n"
     "        kwargs[\"force_parens_around\"] = self.multiplicative_primitives\n",
     "    def map_quotient(self, expr, enclosing_prec, *args, **kwargs):\n",
     "T/roundtrip/Quotient")
fire("c06-shift-no-plus-one", ["C06"], SF,
     "                self.format(\"%s << %s\",\n"
     "                    self.rec(expr.shiftee, PREC_SHIFT+1, *args, **kwargs),\n"
     "                    self.rec(expr.shift, PREC_SHIFT+1, *args, **kwargs)),",
     "                self.format(\"%s << %s\",\n"
     "                    self.rec(expr.shiftee, PREC_SHIFT, *args, **kwargs),\n"
     "                    self.rec(expr.shift, PREC_SHIFT, *args, **kwargs)),",
     "T/roundtrip/LeftShift")
fire("c06-negative-constant-threshold", ["C06"], SF,
     "                and (enclosing_prec > PREC_SUM):",
     "                and (enclosing_prec > PREC_CALL):",
     "NegInt")
fire("c05-revert-cached-stringifier-receiver", ["C05"], SF,
     "        return CachedMapper.__call__(self, expr, prec, *args, **kwargs)",
     "        return CachedMapper.__call__(expr, prec, *args, **kwargs)",
     "S/explicit-base-call/CachedStringifyMapper.__call__/receiver")
fire("c06-revert-power-base", ["C06"], SF,
     "self.rec(expr.base, PREC_POWER+1, *args, **kwargs),",
     "self.rec(expr.base, PREC_POWER, *args, **kwargs),",
     "T/roundtrip/Power.base<-Power")
fire("c06-if-children-at-none", ["C06"], SF,
     "                    self.rec(expr.then, PREC_LOGICAL_OR, *args, **kwargs),\n"
     "                    self.rec(expr.condition, PREC_LOGICAL_OR, *args, **kwargs),\n"
     "                    self.rec(expr.else_, PREC_LOGICAL_OR, *args, **kwargs)),\n"
     "                enclosing_prec, PREC_IF)\n\n    def map_if_positive",
     "                    self.rec(expr.then, PREC_NONE, *args, **kwargs),\n"
     "                    self.rec(expr.condition, PREC_NONE, *args, **kwargs),\n"
     "                    self.rec(expr.else_, PREC_NONE, *args, **kwargs)),\n"
     "                enclosing_prec, PREC_IF)\n\n    def map_if_positive",
     "T/roundtrip/If")
fire("c06-comparison-operator-dropped", ["C06"], SF,
     "                    expr.operator,\n"
     "                    self.rec(expr.right, PREC_COMPARISON+1, *args, **kwargs)),\n"
     "                enclosing_prec, PREC_COMPARISON)\n\n    def map_logical_not",
     "                    \"==\",\n"
     "                    self.rec(expr.right, PREC_COMPARISON+1, *args, **kwargs)),\n"
     "                enclosing_prec, PREC_COMPARISON)\n\n    def map_logical_not",
     "T/")
fire("c06-xor-printed-as-or", ["C06"], SF,
     "                    \" ^ \", expr.children, PREC_BITWISE_XOR, *args, **kwargs),\n"
     "                enclosing_prec, PREC_BITWISE_XOR)\n\n    def map_bitwise_and",
     "                    \" | \", expr.children, PREC_BITWISE_XOR, *args, **kwargs),\n"
     "                enclosing_prec, PREC_BITWISE_XOR)\n\n    def map_bitwise_and",
     "T/")
fire("c0607-parser-shift-above-plus", ["C06", "C07"], PF,
     "_PREC_SHIFT = 205", "_PREC_SHIFT = 215", "T/")
fire("c0607-parser-power-left-assoc", ["C06", "C07"], PF,
     "            left_exp = primitives.Power(\n"
     "                    left_exp, self.parse_expression(pstate, _PREC_TIMES))",
     "            left_exp = primitives.Power(\n"
     "                    left_exp, self.parse_expression(pstate, _PREC_POWER))",
     "T/")
fire("c07-parser-minus-not-negated", ["C07"], PF,
     "                left_exp = primitives.Sum((left_exp, -right_exp))  # pylint:disable=invalid-unary-operand-type",
     "                left_exp = primitives.Sum((left_exp, right_exp))",
     "T/pygrammar/")
fire("c0607-parser-comparison-swapped", ["C06", "C07"], PF,
     "                links.append(Comparison(left_exp, comp, right_exp))\n",
     "                links.append(Comparison(right_exp, comp, left_exp))\n",
     "T/parser/comparison-chain/operand-order")
fire("c07-lexer-less-before-lessequal", ["C07"], PF,
     "            (_lessequal, pytools.lex.RE(r\"\\<=\")),\n"
     "            (_greaterequal, pytools.lex.RE(r\"\\>=\")),\n"
     "            # must be before\n"
     "            (_less, pytools.lex.RE(r\"\\<\")),\n",
     "            (_less, pytools.lex.RE(r\"\\<\")),\n"
     "            (_lessequal, pytools.lex.RE(r\"\\<=\")),\n"
     "            (_greaterequal, pytools.lex.RE(r\"\\>=\")),\n",
     "T/lexer/")
fire("c07-lexer-keyword-no-boundary", ["C07"], PF,
     "            (_or, pytools.lex.RE(r\"or\\b\")),",
     "            (_or, pytools.lex.RE(r\"or\")),",
     "T/lexer/literal:order")
fire("c07-comp-table-wrong", ["C06", "C07"], PF,
     "            _lessequal: \"<=\",", "            _lessequal: \"<\",", "T/")
fire("c07-revert-xor-level", ["C07"], PF,
     "_PREC_BITWISE_XOR = 120", "_PREC_BITWISE_XOR = 110", "T/pygrammar/a | b ^ c")
fire("c07-revert-else-operand", ["C06", "C07"], PF,
     "else_expr = self.parse_expression(pstate, _PREC_IF_ELSE)",
     "else_expr = self.parse_expression(pstate)", "T/")
fire("c07-leftover-input-accepted", ["C07"], PF,
     "        if not pstate.is_at_end():\n"
     "            pstate.raise_parse_error(\"leftover input after completed parse\")\n",
     "", "P/Parser.__call__/whole-input")
fire("c07-positional-after-keyword", ["C07"], PF,
     "                if kwargs:\n"
     "                    pstate.raise_parse_error(\n"
     "                            \"positional argument after keyword \"\n"
     "                            \"argument not allowed\")\n\n", "",
     "P/parse_arglist/positional-after-keyword")
fire("c07-importer-add-swapped", ["C07"], IA,
     "def _add(x, y):\n    return p.Sum((x, y))", "def _add(x, y):\n    return p.Sum((y, x))",
     "T/importer/bin_op_map/Add")
fire("c07-importer-div-is-floordiv", ["C07"], IA,
     "            ast.Div: p.Quotient,", "            ast.Div: p.FloorDiv,",
     "T/importer/bin_op_map/Div")
fire("c07-importer-lt-as-le", ["C07"], IA,
     "            ast.Lt: \"<\",", "            ast.Lt: \"<=\",",
     "T/importer/comparison_op_map/Lt")
fire("c07-importer-ifexp-swapped", ["C07"], IA,
     "return p.If(self.rec(expr.test), self.rec(expr.body), self.rec(expr.orelse))",
     "return p.If(self.rec(expr.test), self.rec(expr.orelse), self.rec(expr.body))",
     "T/importer/map_IfExp")
fire("c07-revert-importer-invert", ["C07"], IA,
     "            ast.Invert: p.BitwiseNot,", "            ast.Invert: _neg,",
     "T/importer/unary_op_map/Invert")
fire("c07-revert-importer-bitor", ["C07"], IA,
     "            ast.BitOr: _bitwise_or,", "            ast.BitOr: p.BitwiseOr,",
     "T/importer/bin_op_map/BitOr")
# not behaviour-preserving: '(c + d) + b' reparses to a flat sum that prints
# differently, which the property's last sentence forbids
fire("c06-paren-if-ge", ["C06"], SF,
     "        if enclosing_prec > my_prec:\n            return f\"({s})\"",
     "        if enclosing_prec >= my_prec:\n            return f\"({s})\"",
     "T/roundtrip/Sum.children[0]<-Sum")
silent_multi("c07-silent-parser-renumber", ["C06", "C07"], PF,
             [("_PREC_COMMA = 5 ", "_PREC_COMMA = 50 "), ("_PREC_SLICE = 10", "_PREC_SLICE = 100"),
              ("_PREC_IF_ELSE = 70 ", "_PREC_IF_ELSE = 700 "), ("_PREC_IF = 75", "_PREC_IF = 750"),
              ("_PREC_LOGICAL_OR = 80", "_PREC_LOGICAL_OR = 800"),
              ("_PREC_LOGICAL_AND = 90", "_PREC_LOGICAL_AND = 900"),
              ("_PREC_LOGICAL_NOT = 95", "_PREC_LOGICAL_NOT = 950"),
              ("_PREC_COMPARISON = 100", "_PREC_COMPARISON = 1000"),
              ("_PREC_BITWISE_OR = 110", "_PREC_BITWISE_OR = 1100"),
              ("_PREC_BITWISE_XOR = 120", "_PREC_BITWISE_XOR = 1200"),
              ("_PREC_BITWISE_AND = 130", "_PREC_BITWISE_AND = 1300"),
              ("_PREC_SHIFT = 205", "_PREC_SHIFT = 2050"), ("_PREC_PLUS = 210", "_PREC_PLUS = 2100"),
              ("_PREC_TIMES = 220", "_PREC_TIMES = 2200"), ("_PREC_UNARY = 225", "_PREC_UNARY = 2250"),
              ("_PREC_POWER = 230", "_PREC_POWER = 2300"), ("_PREC_CALL = 250", "_PREC_CALL = 2500")])
silent("c07-silent-flatten-spelling", ["C06", "C07"], PF,
       "            if isinstance(left_exp, primitives.Product):\n"
       "                left_exp = primitives.Product((*left_exp.children, right_exp))",
       "            if isinstance(left_exp, primitives.Product):\n"
       "                left_exp = primitives.Product(left_exp.children + (right_exp,))")
silent("c06-silent-format-spelling", ["C06"], SF,
       "                self.format(\"%s**%s\",",
       "                \"{}**{}\".format(")

# ---------------------------------------------------------------------------
# C14
# ---------------------------------------------------------------------------
CF = "pymbolic/mapper/c_code.py"

fire("c14-revert-product-remainder", ["C14"], CF,
     "                self.join_rec(\" * \", expr.children, PREC_PRODUCT,\n"
     "                    force_parens_around=(Remainder,)),",
     "                self.join_rec(\" * \", expr.children, PREC_PRODUCT),",
     "T/c-grammar/Product.children[1]<-Remainder")
fire("c14-revert-square-parens", ["C14"], CF,
     "            elif is_zero(expr.exponent - 2):\n"
     "                if enclosing_prec >= PREC_PRODUCT:\n",
     "            elif is_zero(expr.exponent - 2):\n"
     "                if enclosing_prec > PREC_PRODUCT:\n",
     "T/c-grammar/Power-exp-2")
fire("c14-revert-comparison-bitwise", ["C14"], CF,
     "                    self.rec_with_force_parens_around(\n"
     "                        expr.left, PREC_COMPARISON+1,\n"
     "                        force_parens_around=bitwise),",
     "                    self.rec(expr.left, PREC_COMPARISON+1),",
     "T/c-grammar/Comparison.left<-BitwiseOr")
fire("c14-revert-cse-names", ["C14"], CF,
     "        self.cse_names = {name for name, _cse_str in cse_name_list}",
     "        self.cse_names = {_cse_str for name, _cse_str in cse_name_list}",
     "S/c-cse/init/cse_names-role")
fire("c14-revert-copy-map", ["C14"], CF,
     "        result.cse_to_name = {\n"
     "                cse: name for cse, name in self.cse_to_name.items()\n"
     "                if name in result.cse_names}\n", "",
     "S/c-cse/copy/carries-expression-map")
fire("c14-floordiv-unparenthesised", ["C14"], CF,
     "        return self.format(\"(%s/%s)\",", "        return self.format(\"%s/%s\",",
     "T/c-floordiv/parenthesised")
fire("c14-floordiv-numerator-prec", ["C14"], CF,
     "                    self.rec(expr.numerator, PREC_PRODUCT),\n"
     "                    self.rec(expr.denominator, PREC_POWER))",
     "                    self.rec(expr.numerator, PREC_NONE),\n"
     "                    self.rec(expr.denominator, PREC_POWER))",
     "T/c-grammar/FloorDiv")
fire("c14-if-argument-order", ["C14"], CF,
     "        return self.format(\"(%s ? %s : %s)\",\n"
     "                self.rec(expr.condition, PREC_NONE),\n"
     "                self.rec(expr.then, PREC_NONE),\n"
     "                self.rec(expr.else_, PREC_NONE),",
     "        return self.format(\"(%s ? %s : %s)\",\n"
     "                self.rec(expr.condition, PREC_NONE),\n"
     "                self.rec(expr.else_, PREC_NONE),\n"
     "                self.rec(expr.then, PREC_NONE),",
     "T/c-grammar/If")
fire("c14-pow-args-swapped", ["C14"], CF,
     "        return self.format(\"pow(%s, %s)\",\n"
     "                self.rec(expr.base, PREC_NONE),\n"
     "                self.rec(expr.exponent, PREC_NONE))",
     "        return self.format(\"pow(%s, %s)\",\n"
     "                self.rec(expr.exponent, PREC_NONE),\n"
     "                self.rec(expr.base, PREC_NONE))",
     "T/c-grammar/Power")
fire("c14-logical-and-as-bitand", ["C14"], CF,
     "self.join_rec(\" && \", expr.children, PREC_LOGICAL_AND),",
     "self.join_rec(\" & \", expr.children, PREC_LOGICAL_AND),",
     "T/c-")
fire("c14-subtraction-loses-parens", ["C14"], SF,
     "                negatives.append(self.rec(neg_prod, PREC_PRODUCT, *args, **kwargs))",
     "                negatives.append(self.rec(neg_prod, PREC_SUM, *args, **kwargs))",
     "T/c-grammar/Sum-with-negated-sum")
fire("c14-cse-name-not-tested", ["C14"], CF,
     "            for cse_name in generate_cse_names():\n"
     "                if cse_name not in self.cse_names:\n                    break\n\n"
     "            self.cse_name_list.append((cse_name, cse_str))",
     "            for cse_name in generate_cse_names():\n"
     "                break\n\n"
     "            self.cse_name_list.append((cse_name, cse_str))",
     "P/c-cse/fresh-name-tested")
fire("c14-cse-append-before-child", ["C14"], CF,
     "            cse_str = self.rec(expr.child, PREC_NONE)\n",
     "            self.cse_name_list.append((\"tmp\", \"\"))\n"
     "            cse_str = self.rec(expr.child, PREC_NONE)\n",
     "c-cse")
fire("c14-cse-set-not-updated", ["C14"], CF,
     "            self.cse_names.add(cse_name)\n", "",
     "S/c-cse/miss-roles")
silent("c14-silent-product-force-more", ["C14"], CF,
       "                    force_parens_around=(Remainder,)),",
       "                    force_parens_around=(Remainder, Remainder)),")

# ---------------------------------------------------------------------------
# C13
# ---------------------------------------------------------------------------
CO = "pymbolic/compiler.py"

fire("c13-revert-right-shift", ["C13"], IA,
     "        return self._map_multi_children_op((expr.shiftee,\n"
     "                                            expr.shift),\n"
     "                                           ast.RShift())",
     "        return self._map_multi_children_op((expr.numerator,\n"
     "                                            expr.denominator),\n"
     "                                           ast.RShift())",
     "X1/PymbolicToASTMapper/map_right_shift")
fire("c13-revert-sort-key", ["C13"], CO,
     "used_variables.sort(key=lambda var: var.name)", "used_variables.sort()",
     "P/compile/sorted-by-name")
fire("c13-revert-composite-leaves", ["C13"], IA,
     "dep_mapper = CachedDependencyMapper(composite_leaves=False)",
     "dep_mapper = CachedDependencyMapper(composite_leaves=True)",
     "T/to_function/parameters-are-variables")
fire("c13-revert-negative-constant", ["C13"], CO,
     "            return self.parenthesize(result)\n        else:\n            return result\n\n    def map_polynomial",
     "            return result\n        else:\n            return result\n\n    def map_polynomial",
     "T/py-source/")
fire("c13-exporter-floordiv-as-div", ["C13"], IA,
     "                                            expr.denominator),\n"
     "                                           ast.FloorDiv())",
     "                                            expr.denominator),\n"
     "                                           ast.Div())",
     "E/exporter/FloorDiv")
fire("c13-exporter-power-swapped", ["C13"], IA,
     "        return self._map_multi_children_op((expr.base,\n"
     "                                            expr.exponent),",
     "        return self._map_multi_children_op((expr.exponent,\n"
     "                                            expr.base),",
     "E/exporter/Power")
fire("c13-exporter-fold-reversed", ["C13"], IA,
     "            result = ast.BinOp(child, op_type, result)",
     "            result = ast.BinOp(result, op_type, child)",
     "E/exporter/_map_multi_children_op/order")
fire("c13-exporter-xor-as-or", ["C13"], IA,
     "        return self._map_multi_children_op(expr.children,\n"
     "                                           ast.BitXor())",
     "        return self._map_multi_children_op(expr.children,\n"
     "                                           ast.BitOr())",
     "E/exporter/BitwiseXor")
fire("c13-exporter-if-swapped", ["C13"], IA,
     "                         body=self.rec(expr.then),\n"
     "                         orelse=self.rec(expr.else_))",
     "                         body=self.rec(expr.else_),\n"
     "                         orelse=self.rec(expr.then))",
     "E/exporter/If")
fire("c13-exporter-kwargs-dropped", ["C13"], IA,
     "            keywords=[\n                ast.keyword(\n                    arg=kw,\n"
     "                    value=self.rec(param))\n"
     "                for kw, param in sorted(expr.kw_parameters.items())])",
     "            keywords=[])",
     "E/exporter/CallWithKwargs")
fire("c13-compile-listed-last", ["C13"], CO,
     "        all_variables = self._Variables + used_variables",
     "        all_variables = used_variables + self._Variables",
     "P/compile/listed-variables-first")
fire("c13-compile-composite-leaves", ["C13"], CO,
     "                composite_leaves=False)(self._Expression)",
     "                composite_leaves=True)(self._Expression)",
     "T/compile/free-variables-are-variables")
fire("c13-compile-constants-str", ["C13"], CO,
     "        result = repr(expr)\n", "        result = str(expr)\n",
     "P/compile/constants-by-repr")
fire("c13-pickle-state-swapped", ["C13"], CO,
     "        return self._Expression, self._Variables",
     "        return self._Variables, self._Expression",
     "S/compile/pickle-state")
fire("c13-logical-not-exported-as-invert", ["C13"], IA,
     "        return ast.UnaryOp(ast.Not(), self.rec(expr.child))",
     "        return ast.UnaryOp(ast.Invert(), self.rec(expr.child))",
     "E/exporter/LogicalNot")
silent("c13-silent-sorted-form", ["C13"], CO,
       "        used_variables = list(used_variables)\n"
       "        used_variables.sort(key=lambda var: var.name)",
       "        used_variables = sorted(used_variables, key=lambda v: v.name)")

# ---------------------------------------------------------------------------
# C01 / C17
# ---------------------------------------------------------------------------
PHF = "pymbolic/mapper/persistent_hash.py"
RAT = "pymbolic/rational.py"
POL = "pymbolic/polynomial.py"

fire("c01-eq-skips-last-field", ["C01"], PR,
     "    comparison = \" and \".join(\n            f\"self.{fld.name} == other.{fld.name}\"\n"
     "            for fld in fields(cls))",
     "    comparison = \" and \".join(\n            f\"self.{fld.name} == other.{fld.name}\"\n"
     "            for fld in fields(cls)[:-1])",
     "T/template/")
fire("c01-hash-first-field-only", ["C01", "C17"], PR,
     "    attr_tuple = \", \".join(f\"self.{fld.name}\" for fld in fields(cls))",
     "    attr_tuple = \", \".join(f\"self.{fld.name}\" for fld in fields(cls)[:1])",
     "T/template/")
# behaviour-preserving: the final conjunction still tests the class
silent("c01-silent-eq-no-early-class-test", ["C01"], PR,
       "            if self.__class__ is not other.__class__:\n                return False\n",
       "")
fire("c17-setstate-restores-nothing", ["C17"], PR,
     "            for name, value in zip({fld_name_tuple}, state):\n"
     "                object.__setattr__(self, name, value)\n\n        cls.__setstate__",
     "            pass\n\n        cls.__setstate__",
     "setstate/fields-only")
fire("c01-eq-class-test-dropped-from-result", ["C01"], PR,
     "            if self.__class__ is not other.__class__:\n                return False\n"
     "            if hash(self) != hash(other):\n                return False\n",
     "            if hash(self) == hash(other) and self.__class__ is other.__class__:\n"
     "                return True\n",
     "T/template/")
fire("c01-hash-not-cached-name", ["C01"], PR,
     "            object.__setattr__(self, \"_hash_value\", hash_val)\n            return hash_val",
     "            object.__setattr__(self, \"_hash\", hash_val)\n            return hash_val",
     "hash/only-hash-value-written")
fire("c01-hash-of-id", ["C01"], PR,
     "                hash_val = hash({attr_tuple})",
     "                hash_val = hash(({attr_tuple}, id(cls)))",
     "hash/fields-value")
fire("c01-not-frozen", ["C01"], PR,
     "dc_cls = dataclass(init=init, eq=False, frozen=__debug__, repr=False)(cls)",
     "dc_cls = dataclass(init=init, eq=False, frozen=False, repr=False)(cls)",
     "T/expr_dataclass/frozen")
fire("c01-dataclass-eq", ["C01"], PR,
     "dc_cls = dataclass(init=init, eq=False, frozen=__debug__, repr=False)(cls)",
     "dc_cls = dataclass(init=init, eq=True, frozen=__debug__, repr=False)(cls)",
     "T/expr_dataclass/eq-false")
fire("c01-node-without-hash", ["C01"], PR,
     "@expr_dataclass()\nclass Power(Expression):",
     "@expr_dataclass(hash=False)\nclass Power(Expression):",
     "S/census/Power/hash-enabled")
fire("c01-node-defines-eq", ["C01"], PR,
     "    base: ExpressionT\n    exponent: ExpressionT\n",
     "    base: ExpressionT\n    exponent: ExpressionT\n\n"
     "    def __eq__(self, other):\n        return self.base == other.base\n",
     "S/census/Power")
fire("c01-mapper-mutates-node", ["C01"], MI,
     "    def map_lookup(self, expr, *args, **kwargs):\n"
     "        aggregate = self.rec(expr.aggregate, *args, **kwargs)\n"
     "        if aggregate is expr.aggregate:\n            return expr\n",
     "    def map_lookup(self, expr, *args, **kwargs):\n"
     "        aggregate = self.rec(expr.aggregate, *args, **kwargs)\n"
     "        if aggregate is expr.aggregate:\n            return expr\n"
     "        object.__setattr__(expr, \"aggregate\", aggregate)\n",
     "O/setattr/IdentityMapper.map_lookup")
fire("c01-post-init-hashes-self", ["C01"], PR,
     "    def __post_init__(self):\n        if self.scope is None:",
     "    def __post_init__(self):\n        hash(self)\n        if self.scope is None:",
     "P/post_init/CommonSubexpression")
fire("c01-revert-rational-hash", ["C01"], RAT,
     "    def __hash__(self):\n        # Defining __eq__ resets the inherited __hash__. Must agree\n"
     "        # with __eq__, which considers Rational(n, 1) equal to n.\n"
     "        if not (self.Denominator - 1):\n            return hash(self.Numerator)\n"
     "        return hash((type(self).__name__, self.Numerator, self.Denominator))\n",
     "", "S/census/Rational/eq-without-hash")
fire("c01-legacy-is-equal-ignores-type", ["C01"], PR,
     "        return (type(other) is type(self)\n"
     "                and self.__getinitargs__() == other.__getinitargs__())",
     "        return self.__getinitargs__() == other.__getinitargs__()",
     "S/legacy/is_equal")
fire("c01-mutable-default", ["C01"], PR,
     "    prefix: str | None = None\n    scope: str = cse_scope.EVALUATION",
     "    prefix: str | None = None\n    scope: str = cse_scope.EVALUATION\n    tags: list = []",
     "immutable-default")
fire("c17-getstate-includes-hash", ["C17"], PR,
     "                return Expression.__getstate__(self)\n\n            return {attr_tuple}\n",
     "                return Expression.__getstate__(self)\n\n"
     "            return {attr_tuple} + (getattr(self, \"_hash_value\", None),)\n",
     "getstate/fields-only")
silent("c17-silent-setstate-dict-update", ["C17"], PR,
     "            for name, value in zip({fld_name_tuple}, state):\n"
     "                object.__setattr__(self, name, value)\n\n        cls.__setstate__",
     "            self.__dict__.update(zip({fld_name_tuple}, state))\n\n        cls.__setstate__")
fire("c17-node-with-reduce", ["C17"], PR,
     "    base: ExpressionT\n    exponent: ExpressionT\n",
     "    base: ExpressionT\n    exponent: ExpressionT\n\n"
     "    def __reduce__(self):\n        return (Power, (self.base, self.exponent), self.__dict__)\n",
     "S/state/Power/no-pickle-bypass")
fire("c17-digest-uses-hash", ["C17"], PHF,
     "        self.key_hash.update(expr.name.encode(\"utf8\"))",
     "        self.key_hash.update(str(hash(expr.name)).encode(\"utf8\"))",
     "T/digest/")
fire("c17-digest-object-repr", ["C17"], PHF,
     "        self.key_hash.update(type(expr).__name__.encode(\"utf8\"))",
     "        self.key_hash.update(repr(type(expr)).encode(\"utf8\"))",
     "T/digest/visit")
fire("c17-revert-kwargs-order", ["C17"], PHF,
     "            for name, child in sorted(expr.kw_parameters.items()):",
     "            for name, child in expr.kw_parameters.items():",
     "S/digest/CallWithKwargs.kw_parameters/canonical-order")
fire("c17-compiled-state-incomplete", ["C17", "C13"], CO,
     "        return self._Expression, self._Variables",
     "        return (self._Expression,)",
     "pickle-state")
silent("c01-silent-template-spelling", ["C01", "C17"], PR,
       "            if self is other:\n                return True\n"
       "            if self.__class__ is not other.__class__:\n                return False\n",
       "            if self is other:\n                return True\n"
       "            if self.__class__ != other.__class__:\n                return False\n")

# ---------------------------------------------------------------------------
# C05
# ---------------------------------------------------------------------------
OPF = "pymbolic/mapper/optimize.py"
EVF = "pymbolic/mapper/evaluator.py"

fire("c05-key-drops-type", ["C05"], MI,
     "        return (type(expr), expr, args, immutabledict(kwargs))",
     "        return (expr, args, immutabledict(kwargs))",
     "T/get_cache_key/covers-call")
fire("c05-key-drops-args", ["C05"], MI,
     "        return (type(expr), expr, args, immutabledict(kwargs))",
     "        return (type(expr), expr, immutabledict(kwargs))",
     "T/get_cache_key/covers-call")
fire("c05-key-kwargs-ordered", ["C05"], MI,
     "        return (type(expr), expr, args, immutabledict(kwargs))",
     "        return (type(expr), expr, args, tuple(kwargs.items()))",
     "T/get_cache_key/kwargs-order-insensitive")
fire("c05-store-missing-on-fallback", ["C05"], MI,
     "        result = self.rec_fallback(expr, *args, **kwargs)\n"
     "        self._cache[cache_key] = result\n        return result",
     "        result = self.rec_fallback(expr, *args, **kwargs)\n        return result",
     "P/CachedMapper.__call__/miss-stores-result")
fire("c05-store-under-other-key", ["C05"], MI,
     "                result = method(expr, *args, **kwargs)\n"
     "                self._cache[cache_key] = result\n                return result",
     "                result = method(expr, *args, **kwargs)\n"
     "                self._cache[expr] = result\n                return result",
     "P/CachedMapper.__call__/miss-stores-result")
fire("c05-lookup-key-without-args", ["C05"], MI,
     "                (cache_key := self.get_cache_key(expr, *args, **kwargs)),",
     "                (cache_key := self.get_cache_key(expr)),",
     "P/CachedMapper.__call__/key-from-all-inputs")
fire("c05-cse-key-drops-args", ["C05"], MI,
     "        key = (expr, *args)\n", "        key = (expr,)\n", "T/cse-mixin/key")
fire("c05-cse-miss-not-stored", ["C05"], MI,
     "            result = self.map_common_subexpression_uncached(expr, *args)\n"
     "            ccd[key] = result\n            return result",
     "            result = self.map_common_subexpression_uncached(expr, *args)\n"
     "            return result",
     "P/cse-mixin/miss")
fire("c05-cached-variant-overrides", ["C05"], MI,
     "class CachedIdentityMapper(CachedMapper, IdentityMapper):\n    pass",
     "class CachedIdentityMapper(CachedMapper, IdentityMapper):\n"
     "    def map_variable(self, expr, *args, **kwargs):\n        return expr",
     "S/cached-variant/CachedIdentityMapper")
fire("c05-cached-variant-mro", ["C05"], MI,
     "class CachedWalkMapper(CachedMapper, WalkMapper):",
     "class CachedWalkMapper(WalkMapper):",
     "S/cached-variant/CachedWalkMapper")
fire("c05-handler-hidden-state", ["C05"], MI,
     "    def map_variable(self, expr, *args, **kwargs):\n"
     "        # leaf -- no need to rebuild\n        return expr",
     "    def map_variable(self, expr, *args, **kwargs):\n"
     "        # leaf -- no need to rebuild\n        self.last_variable = expr\n        return expr",
     "O/purity/")
fire("c05-float-sibling-drift", ["C05"], EVF,
     "class CachedFloatEvaluationMapper(CachedEvaluationMapper):\n"
     "    def map_constant(self, expr):\n        return float(expr)",
     "class CachedFloatEvaluationMapper(CachedEvaluationMapper):\n"
     "    def map_constant(self, expr):\n        return expr",
     "S/cached-variant/CachedFloatEvaluationMapper/map_constant")
fire("c05-revert-inline-cache-guard", ["C05"], OPF,
     "    if inline_cache and not (drop_args and drop_kwargs):\n",
     "    if False:\n",
     "T/optimizer/inlined-key/covers-remaining-args")
fire("c05-revert-inline-rec-guard", ["C05"], OPF,
     "        if inline_rec and not inline_cache and issubclass(cls, CachedMapper):\n",
     "        if False:\n",
     "T/optimizer/inline_rec/keeps-cache")
fire("c05-varargs-removed-always", ["C05"], OPF,
     "                          if not (self.drop_args\n"
     "                              and isinstance(arg, ast.Starred)\n",
     "                          if not (True\n"
     "                              and isinstance(arg, ast.Starred)\n",
     "T/optimizer/_VarArgsRemover/*args")
fire("c05-kwargs-flag-crossed", ["C05"], OPF,
     "                          if not (self.drop_kwargs\n"
     "                              and kw.arg is None\n",
     "                          if not (self.drop_args\n"
     "                              and kw.arg is None\n",
     "T/optimizer/_VarArgsRemover/**kwargs")
fire("c05-optimizer-every-starred-argument-removed", ["C05"], OPF,
     "                              and self._is_dropped(arg.value, self.vararg_name))],",
     "                              )],",
     "T/optimizer/only-dropped-splats-removed:args")
fire("c05-optimizer-every-mapping-splat-removed", ["C05"], OPF,
     "                              and self._is_dropped(kw.value, self.kwarg_name))])",
     "                              )])",
     "T/optimizer/only-dropped-splats-removed:keywords")
fire("c05-signature-flag-crossed", ["C05"], OPF,
     "                        kwarg=None if drop_kwargs else mdef.args.kwarg))",
     "                        kwarg=None if drop_args else mdef.args.kwarg))",
     "T/optimizer/signature-matches-call-sites")
fire("c05-inlined-key-without-type", ["C05"], OPF,
     "                cache_key_expr = ast.Tuple([expr_type, expr], ctx=Load())",
     "                cache_key_expr = ast.Tuple([expr], ctx=Load())",
     "T/optimizer/inlined-key/type-and-expr")
silent("c05-silent-hit-test-inverted", ["C05", "C04"], MI,
       "        if result is not _NOT_IN_CACHE:\n            return result\n\n"
       "        method_name = getattr(expr, \"mapper_method\", None)\n"
       "        if method_name is not None:\n"
       "            method = getattr(self, method_name, None)\n"
       "            if method is not None:\n"
       "                result = method(expr, *args, **kwargs)\n"
       "                self._cache[cache_key] = result\n                return result\n\n"
       "        result = self.rec_fallback(expr, *args, **kwargs)\n"
       "        self._cache[cache_key] = result\n        return result",
       "        if result is _NOT_IN_CACHE:\n"
       "            method_name = getattr(expr, \"mapper_method\", None)\n"
       "            if method_name is not None:\n"
       "                method = getattr(self, method_name, None)\n"
       "                if method is not None:\n"
       "                    result = method(expr, *args, **kwargs)\n"
       "                    self._cache[cache_key] = result\n                    return result\n\n"
       "            result = self.rec_fallback(expr, *args, **kwargs)\n"
       "            self._cache[cache_key] = result\n        return result")

# ---------------------------------------------------------------------------
# C11
# ---------------------------------------------------------------------------
CFO = "pymbolic/mapper/constant_folder.py"
FLT = "pymbolic/mapper/flattener.py"

fire("c11-flatsum-keeps-zero", ["C11"], PR,
     "        item = queue.pop(0)\n\n        if is_zero(item):\n            continue\n\n"
     "        if isinstance(item, Sum):",
     "        item = queue.pop(0)\n\n        if isinstance(item, Sum):",
     "P/flattened_sum/append-only-proper-items")
fire("c11-flatprod-keeps-one", ["C11"], PR,
     "        if is_zero(item - 1):\n            continue\n\n", "",
     "P/flattened_product/append-only-proper-items")
fire("c11-flatprod-zero-not-annihilating", ["C11"], PR,
     "        if is_zero(item):\n            return 0\n        if is_zero(item - 1):",
     "        if is_zero(item):\n            continue\n        if is_zero(item - 1):",
     "P/flattened_product/")
fire("c11-flatprod-nested-kept", ["C11"], PR,
     "        if isinstance(item, Product):\n            queue += item.children\n"
     "        else:\n            done.append(item)",
     "        done.append(item)",
     "P/flattened_product/")
fire("c11-flatsum-empty-is-one", ["C11"], PR,
     "    if len(done) == 0:\n        return 0\n    elif len(done) == 1:\n"
     "        return done[0]\n    else:\n        return Sum(tuple(done))",
     "    if len(done) == 0:\n        return 1\n    elif len(done) == 1:\n"
     "        return done[0]\n    else:\n        return Sum(tuple(done))",
     "P/flattened_sum/empty-result")
fire("c11-flatsum-builds-product", ["C11"], PR,
     "        return done[0]\n    else:\n        return Sum(tuple(done))",
     "        return done[0]\n    else:\n        return Product(tuple(done))",
     "P/flattened_sum/nary-result")
fire("c11-flattenmapper-no-rec", ["C11"], FLT,
     "        return flattened_sum([self.rec(ch) for ch in expr.children])",
     "        return flattened_sum(list(expr.children))",
     "F/FlattenMapper/map_sum")
fire("c11-fold-constants-unevaluated", ["C11"], CFO,
     "                    if value is None:\n"
     "                        # couldn't evaluate\n"
     "                        nonconstants.append(child)\n"
     "                    else:\n                        constants.append(value)",
     "                    constants.append(value)",
     "P/fold/")
fire("c11-fold-drops-nonconstant", ["C11"], CFO,
     "                else:\n                    nonconstants.append(child)\n\n"
     "        if constants:",
     "                else:\n                    pass\n\n        if constants:",
     "P/fold/nonconstants-kept")
fire("c11-fold-splice-at-end", ["C11"], CFO,
     "                queue = list(child.children) + queue",
     "                queue = queue + list(child.children)",
     "P/fold/splice-in-front")
fire("c11-fold-sum-with-mul", ["C11"], CFO,
     "        return self.fold(expr, Sum, operator.add, flattened_sum)",
     "        return self.fold(expr, Sum, operator.mul, flattened_sum)",
     "S/folder/ConstantFoldingMapperBase.map_sum")
fire("c11-plain-folder-folds-products", ["C11"], CFO,
     "class ConstantFoldingMapper(\n        CSECachingMapperMixin,\n"
     "        ConstantFoldingMapperBase,\n        IdentityMapper):",
     "class ConstantFoldingMapper(\n        CSECachingMapperMixin,\n"
     "        CommutativeConstantFoldingMapperBase,\n        IdentityMapper):",
     "S/folder/ConstantFoldingMapper/map_product-is-identity")
fire("c11-folder-mro-identity-first", ["C11"], CFO,
     "class CommutativeConstantFoldingMapper(    # type: ignore[misc]\n"
     "        CSECachingMapperMixin,\n"
     "        CommutativeConstantFoldingMapperBase,\n        IdentityMapper):",
     "class CommutativeConstantFoldingMapper(    # type: ignore[misc]\n"
     "        CSECachingMapperMixin,\n        IdentityMapper,\n"
     "        CommutativeConstantFoldingMapperBase):",
     "S/folder/CommutativeConstantFoldingMapper")
fire("c11-evaluate-swallows-everything", ["C11"], CFO,
     "        except ValueError:\n            return None",
     "        except Exception:\n            return None",
     "P/fold/evaluate-catches-only-valueerror")
silent("c11-silent-extend", ["C11"], PR,
       "        if isinstance(item, Sum):\n            queue += item.children\n",
       "        if isinstance(item, Sum):\n            queue += list(item.children)\n")

# ---------------------------------------------------------------------------
# C12
# ---------------------------------------------------------------------------
CSF = "pymbolic/cse.py"
TGF = "pymbolic/mapper/cse_tagger.py"
DIF = "pymbolic/mapper/differentiator.py"

fire("c12-wrap-in-cse-wraps-wrappers", ["C12"], PR,
     "        # existing prefix wins\n        return expr\n\n    else:\n"
     "        return CommonSubexpression(expr, prefix)",
     "        # existing prefix wins\n        return CommonSubexpression(expr, prefix)\n\n    else:\n"
     "        return CommonSubexpression(expr, prefix)",
     "O/wrap_in_cse/")
fire("c12-wrap-in-cse-wraps-variables", ["C12"], PR,
     "    if isinstance(expr, (Variable, Subscript)) or is_constant(expr):\n"
     "        return expr\n\n"
     "    # containers are not wrapped whole, their entries are",
     "    # containers are not wrapped whole, their entries are",
     "O/wrap_in_cse/")
fire("c12-wrap-in-cse-wraps-constants", ["C12"], PR,
     "    if isinstance(expr, (Variable, Subscript)) or is_constant(expr):\n",
     "    if isinstance(expr, (Variable, Subscript)):\n",
     "O/wrap_in_cse/constants-left-unwrapped")
fire("c12-make-cse-wraps-variables", ["C12"], PR,
     "        if is_constant(field) or isinstance(field, (Variable, Subscript)):\n",
     "        if is_constant(field):\n",
     "O/make_common_subexpression/variables-left-unwrapped")
fire("c12-commutative-classes-grow", ["C12"], CSF,
     "COMMUTATIVE_CLASSES = (prim.Sum, prim.Product)",
     "COMMUTATIVE_CLASSES = (prim.Sum, prim.Product, prim.BitwiseOr, prim.Min)",
     "T/NormalizedKeyGetter/commutative-classes")
fire("c12-key-is-set-not-multiset", ["C12"], CSF,
     "            return type(expr), frozenset(kid_count.items())",
     "            return type(expr), frozenset(kid_count)",
     "T/NormalizedKeyGetter/multiset-key")
fire("c12-visit-retraverses", ["C12"], CSF,
     "            # do not re-traverse (and thus re-count subexpressions)\n"
     "            return False",
     "            return True",
     "P/UseCountMapper.visit/repeat-stops")
fire("c12-different-key-getters", ["C12"], CSF,
     "    cse_mapper = CSEMapper(to_eliminate, get_key)",
     "    cse_mapper = CSEMapper(to_eliminate, lambda e: e)",
     "S/tag_common_subexpressions/shared-key-getter")
fire("c12-threshold-ge-one", ["C12"], CSF,
     "        if count > 1}", "        if count >= 1}",
     "P/tag_common_subexpressions/threshold")
fire("c12-csemapper-direct-wrap", ["C12"], CSF,
     "            new_expr = prim.wrap_in_cse(\n"
     "                    getattr(IdentityMapper, expr.mapper_method)(self, expr))",
     "            new_expr = prim.CommonSubexpression(\n"
     "                    getattr(IdentityMapper, expr.mapper_method)(self, expr))",
     "P/CSEMapper.get_cse/miss")
fire("c12-csemapper-double-wrap", ["C12"], CSF,
     "            result = prim.wrap_in_cse(self.rec(expr.child), expr.prefix)\n",
     "            result = prim.CommonSubexpression(self.rec(expr.child), expr.prefix)\n",
     "O/CSEMapper/map_common_subexpression")
fire("c12-csemapper-not-canonical", ["C12"], CSF,
     "            self.canonical_subexprs[key] = new_expr\n            return new_expr",
     "            return new_expr",
     "P/CSEMapper.get_cse/miss")
fire("c12-csemapper-power-not-intercepted", ["C12"], CSF,
     "    map_power = map_sum\n", "",
     "O/CSEMapper/interceptors")
fire("c12-revert-tagger-fix", ["C12"], TGF,
     "        if type(result) is CommonSubexpression:\n            result = result.child\n", "",
     "O/CSETagMapper/map_common_subexpression/no-double-wrap")
fire("c12-mixin-loses-mro", ["C12", "C02"], EVF,
     "class EvaluationMapper(RecursiveMapper, CSECachingMapperMixin):",
     "class EvaluationMapper(RecursiveMapper, CSECachingMapperMixin):\n"
     "    def map_common_subexpression(self, expr):\n        return self.rec(expr.child)\n",
     "cse-mixin")
fire("c12-make-cse-wraps-constants", ["C12"], PR,
     "        if is_constant(field) or isinstance(field, (Variable, Subscript)):\n"
     "            # nothing to share\n"
     "            return field\n        else:\n"
     "            return CommonSubexpression(field, prefix, scope)",
     "        return CommonSubexpression(field, prefix, scope)",
     "O/make_common_subexpression")
fire("c12-make-cse-array-entries-not-wrapped", ["C12"], PR,
     "                result[i] = make_common_subexpression(\n"
     "                        field[i], component_prefix, scope)",
     "                result[i] = field[i]",
     "K/make_common_subexpression/componentwise")
fire("c12-make-cse-multivector-coeffs-not-wrapped", ["C12"], PR,
     "            new_data[bits] = make_common_subexpression(\n"
     "                    coeff, component_prefix, scope)",
     "            new_data[bits] = coeff",
     "K/make_common_subexpression/componentwise")
silent_multi("c12-make-cse-loops-renamed", ["C12"], PR, [
    ("        for bits, coeff in field.data.items():",
     "        coefficients = field.data\n"
     "        for bits, coeff in coefficients.items():"),
    ("        for i in numpy.ndindex(logical_shape):",
     "        for idx in numpy.ndindex(field.shape):\n"
     "            i = idx"),
])
silent("c12-silent-visit-form", ["C12"], CSF,
       "        if key in self.subexpr_counts:\n            self.subexpr_counts[key] += 1\n\n"
       "            # do not re-traverse (and thus re-count subexpressions)\n"
       "            return False\n        else:\n            self.subexpr_counts[key] = 1\n\n"
       "            # continue traversing\n            return True",
       "        if key not in self.subexpr_counts:\n            self.subexpr_counts[key] = 1\n"
       "            return True\n        self.subexpr_counts[key] += 1\n        return False")

# ---------------------------------------------------------------------------
# C15
# ---------------------------------------------------------------------------
COE = "pymbolic/mapper/coefficient.py"
ALG = "pymbolic/algorithm.py"

fire("c15-product-nonlinear-accepted", ["C15"], COE,
     "                    if (idx_of_child_with_vars is not None\n"
     "                            and idx_of_child_with_vars != i):\n"
     "                        raise RuntimeError(\n"
     "                                \"nonlinear expression\")\n", "",
     "P/CoefficientCollector/map_product/nonlinear-raises")
fire("c15-quotient-by-variable-accepted", ["C15"], COE,
     "        # d_den should look like {1: k}\n"
     "        if len(d_den) > 1 or 1 not in d_den:\n"
     "            raise RuntimeError(\"nonlinear expression\")\n", "",
     "P/CoefficientCollector/map_quotient/nonlinear-raises")
fire("c15-power-base-unchecked", ["C15"], COE,
     "        # d_base should look like {1: k}\n"
     "        if len(d_base) > 1 or 1 not in d_base:\n"
     "            raise RuntimeError(\"nonlinear expression\")\n", "",
     "P/CoefficientCollector/map_power/nonlinear-raises")
fire("c15-sum-overwrites", ["C15"], COE,
     "                if var in result:\n                    result[var] += stride\n"
     "                else:\n                    result[var] = stride",
     "                result[var] = stride",
     "K/CoefficientCollector/map_sum")
fire("c15-new-handler-reads-missing-attr", ["C15"], COE,
     "    def map_constant(self, expr):\n        return {1: expr}",
     "    def map_constant(self, expr):\n        return {1: expr}\n\n"
     "    def map_floor_div(self, expr):\n        return {1: expr.numerator // expr.denom}",
     "X1/CoefficientCollector/map_floor_div")
fire("c15-solver-divides-before-check", ["C15"], ALG,
     "        if abs(mat[nonz_row, j]) != 1:\n            raise RuntimeError(\n"
     "                    f\"division with remainder in linear solve for '{unknown}'\")\n"
     "        div = mat[nonz_row, j]\n",
     "        div = mat[nonz_row, j]\n",
     "P/solve_affine/refusals-dominate-division")
fire("c15-solver-nonunique-accepted", ["C15"], ALG,
     "        if len(nonz_row) != 1:\n"
     "            raise RuntimeError(f\"cannot uniquely solve for '{unknown}'\")\n\n", "",
     "P/solve_affine/")

# ---------------------------------------------------------------------------
# C19
# ---------------------------------------------------------------------------
fire("c19-integer-power-accepts-negative", ["C19"], ALG,
     "    if n < 0:\n        raise RuntimeError(\"the integer power algorithm does not \"\n"
     "                \"work for negative numbers\")\n\n", "",
     "P/integer_power/negative-refused")
fire("c19-integer-power-check-after-loop", ["C19"], ALG,
     "    if n < 0:\n        raise RuntimeError(\"the integer power algorithm does not \"\n"
     "                \"work for negative numbers\")\n\n    aux = one\n",
     "    aux = one\n",
     "P/integer_power/negative-refused")
fire("c19-quotient-always-rational", ["C19"], PR,
     "        if isinstance(c_traits, traits.EuclideanRingTraits):\n"
     "            return rat.Rational(numerator, denominator)",
     "        return rat.Rational(numerator, denominator)",
     "P/quotient/rational-only-for-euclidean-rings")
fire("c19-quotient-swapped", ["C19"], PR,
     "    return Quotient(numerator, denominator)\n",
     "    return Quotient(denominator, numerator)\n",
     "P/quotient/node-operand-order")
fire("c19-combine-polynomial-skips-coeffs", ["C19", "C04"], MI,
     "            self.rec(expr.base, *args, **kwargs),\n"
     "            *[self.rec(coeff, *args, **kwargs) for exp, coeff in expr.data]\n",
     "            self.rec(expr.base, *args, **kwargs),\n",
     "K/CombineMapper/map_polynomial")
fire("c19-ident-polynomial-guard-ignores-coeffs", ["C19", "C04"], MI,
     "        if base is expr.base and all(\n"
     "                t[1] is orig_t[1] for t, orig_t in zip(data, expr.data)):\n"
     "            return expr",
     "        if base is expr.base:\n            return expr",
     "F/IdentityMapper/map_polynomial")
fire("c19-revert-polynomial-hash", ["C19", "C01"], POL,
     "    def __hash__(self):\n        # Defining __eq__ resets the inherited __hash__. Must agree\n"
     "        # with __eq__, which compares base and data.\n"
     "        return hash((type(self).__name__, self.Base, self.Data))\n\n", "",
     "Polynomial")
fire("c19-evaluate-rational-inverted", ["C19"], MI,
     "    def map_rational(self, expr, *args, **kwargs):\n"
     "        return self.map_quotient(expr, *args, **kwargs)",
     "    def map_rational(self, expr, *args, **kwargs):\n"
     "        return self.map_algebraic_leaf(expr, *args, **kwargs)",
     "E/EvaluationMapper/Rational")

# ---------------------------------------------------------------------------
# C16
# ---------------------------------------------------------------------------
UNF = "pymbolic/mapper/unifier.py"
TFF = "pymbolic/interop/matchpy/tofrom.py"
MPF = "pymbolic/interop/matchpy/__init__.py"

fire("c16-power-crossed-fields", ["C16"], UNF,
     "        return self.rec(expr.base, other.base,\n"
     "                self.rec(expr.exponent, other.exponent, urecs))",
     "        return self.rec(expr.base, other.exponent,\n"
     "                self.rec(expr.exponent, other.base, urecs))",
     "F/UnifierBase/map_power")
fire("c16-if-forgets-else", ["C16"], UNF,
     "        return self.rec(expr.condition, other.condition,\n"
     "                self.rec(expr.then, other.then,\n"
     "                    self.rec(expr.else_, other.else_, urecs)))",
     "        return self.rec(expr.condition, other.condition,\n"
     "                self.rec(expr.then, other.then, urecs))",
     "F/UnifierBase/map_if/If")
fire("c16-quotient-no-class-test", ["C16"], UNF,
     "    def map_quotient(self, expr, other, urecs):\n"
     "        if not isinstance(other, type(expr)):\n"
     "            return self.treat_mismatch(expr, other, urecs)\n\n",
     "    def map_quotient(self, expr, other, urecs):\n",
     "class-tested-first")
fire("c16-comparison-operator-ignored", ["C16"], UNF,
     "        if (not isinstance(other, type(expr))\n"
     "                or expr.operator != other.operator):\n"
     "            return self.treat_mismatch(expr, other, urecs)\n\n"
     "        return self.rec(expr.left, other.left,",
     "        if not isinstance(other, type(expr)):\n"
     "            return self.treat_mismatch(expr, other, urecs)\n\n"
     "        return self.rec(expr.left, other.left,",
     "data-field-compared:operator")
fire("c16-lookup-name-ignored", ["C16"], UNF,
     "        if expr.name != other.name:\n            return []\n\n"
     "        return self.rec(expr.aggregate, other.aggregate, urecs)",
     "        return self.rec(expr.aggregate, other.aggregate, urecs)",
     "data-field-compared:name")
fire("c16-records-not-threaded", ["C16"], UNF,
     "        return self.rec(expr.shiftee, other.shiftee,\n"
     "                self.rec(expr.shift, other.shift, urecs))",
     "        self.rec(expr.shift, other.shift, urecs)\n"
     "        return self.rec(expr.shiftee, other.shiftee, urecs)",
     "records-threaded")
fire("c16-candidate-filter-dropped", ["C16"], UNF,
     "        if (self.lhs_mapping_candidates is not None\n"
     "                and lhs_is_var\n"
     "                and lhs.name not in self.lhs_mapping_candidates):\n"
     "            return None\n", "",
     "P/unification_record_from_equation")
fire("c16-direct-record", ["C16"], UNF,
     "        new_uni_record = self.unification_record_from_equation(\n"
     "                expr, other)\n",
     "        new_uni_record = UnificationRecord([(expr, other)])\n",
     "O/UnificationRecord/site:UnifierBase.map_variable")
fire("c16-unify-map-overwrites", ["C16"], UNF,
     "        if name in map1:\n            if map1[name] != value:\n"
     "                return None\n        else:\n            result[name] = value",
     "        result[name] = value",
     "P/unify_map")
fire("c16-constants-always-match", ["C16"], UNF,
     "        if expr == other:\n            return urecs\n        else:\n            return []",
     "        return urecs",
     "P/UnifierBase/map_constant")
fire("c16-matchpy-quotient-swapped", ["C16"], TFF,
     "        return m.TrueDiv(self.rec(expr.numerator), self.rec(expr.denominator))",
     "        return m.TrueDiv(self.rec(expr.denominator), self.rec(expr.numerator))",
     "T/matchpy/roundtrip/Quotient")
fire("c16-matchpy-from-power-swapped", ["C16"], TFF,
     "        return p.Power(self.rec(expr.x1), self.rec(expr.x2))",
     "        return p.Power(self.rec(expr.x2), self.rec(expr.x1))",
     "T/matchpy/roundtrip/Power")
fire("c16-matchpy-modulo-as-floordiv", ["C16"], TFF,
     "        return p.Remainder(self.rec(expr.x1), self.rec(expr.x2))",
     "        return p.FloorDiv(self.rec(expr.x1), self.rec(expr.x2))",
     "T/matchpy/roundtrip/Remainder")
fire("c16-matchpy-if-swapped", ["C16"], TFF,
     "        return m.If(self.rec(expr.condition),\n"
     "                    self.rec(expr.then),\n                    self.rec(expr.else_))",
     "        return m.If(self.rec(expr.condition),\n"
     "                    self.rec(expr.else_),\n                    self.rec(expr.then))",
     "T/matchpy/roundtrip/If")
fire("c16-matchpy-handler-name", ["C16"], MPF,
     "    _mapper_method: ClassVar[str] = \"map_modulo\"",
     "    _mapper_method: ClassVar[str] = \"map_mod\"",
     "T/matchpy/Modulo/from-handler")
silent("c16-silent-guard-form", ["C16"], UNF,
       "    def map_power(self, expr, other, urecs):\n"
       "        if not isinstance(other, type(expr)):\n"
       "            return self.treat_mismatch(expr, other, urecs)\n\n"
       "        return self.rec(expr.base, other.base,\n"
       "                self.rec(expr.exponent, other.exponent, urecs))",
       "    def map_power(self, expr, other, urecs):\n"
       "        if isinstance(other, type(expr)):\n"
       "            urecs = self.rec(expr.exponent, other.exponent, urecs)\n"
       "            return self.rec(expr.base, other.base, urecs)\n"
       "        return self.treat_mismatch(expr, other, urecs)")

# ---------------------------------------------------------------------------
# C02
# ---------------------------------------------------------------------------
fire("c02-quotient-swapped", ["C02"], EVF,
     "        return self.rec(expr.numerator) / self.rec(expr.denominator)\n\n"
     "    def map_floor_div",
     "        return self.rec(expr.denominator) / self.rec(expr.numerator)\n\n"
     "    def map_floor_div",
     "E/EvaluationMapper/Quotient")
fire("c02-floordiv-is-truediv", ["C02"], EVF,
     "        return self.rec(expr.numerator) // self.rec(expr.denominator)",
     "        return self.rec(expr.numerator) / self.rec(expr.denominator)",
     "E/EvaluationMapper/FloorDiv")
fire("c02-xor-is-or", ["C02"], EVF,
     "        return reduce(op.xor, (self.rec(ch) for ch in expr.children))",
     "        return reduce(op.or_, (self.rec(ch) for ch in expr.children))",
     "E/EvaluationMapper/BitwiseXor")
fire("c02-shift-swapped", ["C02"], EVF,
     "        return self.rec(expr.shiftee) << self.rec(expr.shift)",
     "        return self.rec(expr.shift) << self.rec(expr.shiftee)",
     "E/EvaluationMapper/LeftShift")
fire("c02-power-swapped", ["C02"], EVF,
     "        return self.rec(expr.base) ** self.rec(expr.exponent)",
     "        return self.rec(expr.exponent) ** self.rec(expr.base)",
     "E/EvaluationMapper/Power")
fire("c02-if-eager", ["C02"], EVF,
     "    def map_if(self, expr):\n        if self.rec(expr.condition):\n"
     "            return self.rec(expr.then)\n        else:\n"
     "            return self.rec(expr.else_)",
     "    def map_if(self, expr):\n        then = self.rec(expr.then)\n"
     "        else_ = self.rec(expr.else_)\n        if self.rec(expr.condition):\n"
     "            return then\n        else:\n            return else_",
     "E/EvaluationMapper/If")
fire("c02-if-branches-swapped", ["C02"], EVF,
     "    def map_if(self, expr):\n        if self.rec(expr.condition):\n"
     "            return self.rec(expr.then)\n        else:\n"
     "            return self.rec(expr.else_)",
     "    def map_if(self, expr):\n        if self.rec(expr.condition):\n"
     "            return self.rec(expr.else_)\n        else:\n"
     "            return self.rec(expr.then)",
     "E/EvaluationMapper/If")
fire("c02-logical-and-is-any", ["C02"], EVF,
     "            result = self.rec(ch)\n            if not result:\n"
     "                return result",
     "            result = self.rec(ch)\n            if result:\n"
     "                return result",
     "E/EvaluationMapper/LogicalAnd")
fire("c02-logical-or-is-any-again", ["C02"], EVF,
     "        result = False\n        for ch in expr.children:\n"
     "            result = self.rec(ch)\n            if result:\n"
     "                return result\n        return result",
     "        return any(self.rec(ch) for ch in expr.children)",
     "E/EvaluationMapper/LogicalOr")
fire("c02-logical-or-empty-is-true", ["C02"], EVF,
     "        result = False\n        for ch in expr.children:",
     "        result = True\n        for ch in expr.children:",
     "E/EvaluationMapper/LogicalOr")
fire("c02-min-is-max", ["C02"], EVF,
     "    def map_min(self, expr):\n        return min(self.rec(child) for child in expr.children)",
     "    def map_min(self, expr):\n        return max(self.rec(child) for child in expr.children)",
     "E/EvaluationMapper/Min")
fire("c02-call-drops-kwargs", ["C02"], EVF,
     "        return self.rec(expr.function)(*args, **kwargs)",
     "        return self.rec(expr.function)(*args)",
     "CallWithKwargs")
fire("c02-call-args-reversed", ["C02"], EVF,
     "        return self.rec(expr.function)(*[self.rec(par) for par in expr.parameters])",
     "        return self.rec(expr.function)(*[self.rec(par) for par in reversed(expr.parameters)])",
     "E/EvaluationMapper/Call")
fire("c02-comparison-table-swapped", ["C02"], PR,
     "            \">=\": \"ge\",\n            \">\": \"gt\",",
     "            \">=\": \"gt\",\n            \">\": \"ge\",",
     "T/operator_to_name/")
fire("c02-comparison-operands-swapped", ["C02"], EVF,
     "            self.rec(expr.left), self.rec(expr.right))",
     "            self.rec(expr.right), self.rec(expr.left))",
     "E/EvaluationMapper/Comparison")
fire("c02-unknown-variable-is-none", ["C02"], EVF,
     "        except KeyError:\n            raise UnknownVariableError(expr.name) from None",
     "        except KeyError:\n            return None",
     "P/EvaluationMapper/map_variable")
fire("c02-division-error-swallowed", ["C02"], EVF,
     "    def map_quotient(self, expr):\n"
     "        return self.rec(expr.numerator) / self.rec(expr.denominator)\n\n    def map_floor_div",
     "    def map_quotient(self, expr):\n        try:\n"
     "            return self.rec(expr.numerator) / self.rec(expr.denominator)\n"
     "        except ZeroDivisionError:\n            return float(\"inf\")\n\n    def map_floor_div",
     "except:ZeroDivisionError")
fire("c02-subscript-swapped", ["C02"], EVF,
     "            return rec_result[self.rec(expr.index)]",
     "            return self.rec(expr.index)[rec_result]",
     "E/EvaluationMapper/Subscript")
fire("c02-cse-not-child", ["C02"], EVF,
     "    def map_common_subexpression_uncached(self, expr):\n"
     "        return self.rec(expr.child)",
     "    def map_common_subexpression_uncached(self, expr):\n"
     "        return expr.child",
     "CommonSubexpression")
fire("c02-sum-skips-first", ["C02"], EVF,
     "        return sum(self.rec(child) for child in expr.children)",
     "        return sum(self.rec(child) for child in expr.children[1:])",
     "E/EvaluationMapper/Sum")
silent("c02-silent-product-spelling", ["C02"], EVF,
       "        from pytools import product\n"
       "        return product(self.rec(child) for child in expr.children)",
       "        import math\n"
       "        return math.prod(self.rec(child) for child in expr.children)")

# ---------------------------------------------------------------------------
# C03
# ---------------------------------------------------------------------------
fire("c03-revert-rpow-zero", ["C03"], PR,
     "        # 0**x is not folded: it is 1 for x == 0.\n        if is_zero(other-1):  # base one",
     "        if is_zero(other):  # base zero\n            return 0\n        elif is_zero(other-1):  # base one",
     "I/Expression.__rpow__/other==0->0")
fire("c03-rsub-operand-order", ["C03"], PR,
     "            return Sum((other, -self))", "            return Sum((-self, other))",
     "E/Expression.__rsub__/general")
fire("c03-rsub-forgets-negation", ["C03"], PR,
     "        else:\n            return -self\n\n    def __mul__",
     "        else:\n            return self\n\n    def __mul__",
     "I/Expression.__rsub__")
fire("c03-mul-zero-returns-self", ["C03"], PR,
     "        elif is_zero(other):\n            return 0\n        else:\n"
     "            return Product((self, other))",
     "        elif is_zero(other):\n            return self\n        else:\n"
     "            return Product((self, other))",
     "I/Expression.__mul__")
fire("c03-rdiv-swapped", ["C03"], PR,
     "        return quotient(other, self)", "        return quotient(self, other)",
     "E/Expression.__rtruediv__/general")
fire("c03-mod-builds-floordiv", ["C03"], PR,
     "        return Remainder(self, other)", "        return FloorDiv(self, other)",
     "E/Expression.__mod__/general")
fire("c03-pow-one-returns-one", ["C03"], PR,
     "        elif is_zero(other-1):  # exponent one\n            return self",
     "        elif is_zero(other-1):  # exponent one\n            return 1",
     "I/Expression.__pow__")
fire("c03-rshift-reflected-order", ["C03"], PR,
     "        return RightShift(other, self)", "        return RightShift(self, other)",
     "E/Expression.__rrshift__/general")
fire("c03-xor-builds-or", ["C03"], PR,
     "        return BitwiseXor((self, other))", "        return BitwiseOr((self, other))",
     "E/Expression.__xor__/general")
fire("c03-sum-radd-order", ["C03"], PR,
     "        return Sum((other, *self.children))", "        return Sum((*self.children, other))",
     "E/Sum.__radd__/general")
# (the branch is dead code: __rmul__ returns NotImplemented for anything that
# is not a constant before it gets there -- the operator judge of round 4
# showed that the structural rule had been reporting a change no caller can
# observe; re-filed as a silent variant)
silent("c03-product-splice-order-in-dead-branch", ["C03"], PR,
       "            return Product(other.children + self.children)",
       "            return Product(self.children + other.children)")
fire("c03-lt-returns-comparison", ["C03"], PR,
     "    def __lt__(self, other) -> NoReturn:\n"
     "        raise TypeError(\"expressions don't have an order\")",
     "    def __lt__(self, other):\n        return Comparison(self, \"<\", other)",
     "P/Expression.__lt__/raises-typeerror")
fire("c03-node-overrides-ordering", ["C03"], PR,
     "    name: str\n\n\n@expr_dataclass()\nclass Wildcard(Leaf):",
     "    name: str\n\n    def __lt__(self, other):\n        return self.name < other.name\n\n\n"
     "@expr_dataclass()\nclass Wildcard(Leaf):",
     "S/no-ordering-override/Variable")
fire("c03-gate-missing", ["C03"], PR,
     "    def __lshift__(self, other: object) -> LeftShift:\n"
     "        if not is_valid_operand(other):\n            return NotImplemented\n\n",
     "    def __lshift__(self, other: object) -> LeftShift:\n",
     "E/Expression.__lshift__")
fire("c03-neg-is-identity", ["C03"], PR,
     "        return -1*self", "        return 1*self", "E/Expression.__neg__")
fire("c03-ge-constructor-wrong-op", ["C03"], PR,
     "        return Comparison(self, \">=\", other)", "        return Comparison(self, \">\", other)",
     "E/Expression.ge")
fire("c03-add-drops-self-when-other-sum", ["C03"], PR,
     "                    return Sum((self, *other.children))",
     "                    return Sum((*other.children, self))",
     "E/Expression.__add__/general:splice")
silent("c03-silent-guard-spelling", ["C03"], PR,
       "        if is_zero(other):  # exponent zero\n            return 1",
       "        if not is_nonzero(other):  # exponent zero\n            return 1")

# ---------------------------------------------------------------------------
# C10
# ---------------------------------------------------------------------------
fire("c10-cos-sign", ["C10"], DIF,
     "        return -make_f(\"sin\")(*pars)", "        return make_f(\"sin\")(*pars)",
     "E/table/cos")
fire("c10-tan-formula", ["C10"], DIF,
     "        return make_f(\"tan\")(*pars)**2+1", "        return make_f(\"tan\")(*pars)**2-1",
     "E/table/tan")
fire("c10-tanh-formula", ["C10"], DIF,
     "        return 1-make_f(\"tanh\")(*pars)**2", "        return 1+make_f(\"tanh\")(*pars)**2",
     "E/table/tanh")
fire("c10-log-inverted", ["C10"], DIF,
     "        return primitives.quotient(1, pars[0])", "        return primitives.quotient(pars[0], 1)",
     "E/table/log")
fire("c10-sinh-is-sinh", ["C10"], DIF,
     "    elif func == make_f(\"sinh\") and len(pars) == 1:\n        return make_f(\"cosh\")(*pars)",
     "    elif func == make_f(\"sinh\") and len(pars) == 1:\n        return make_f(\"sinh\")(*pars)",
     "E/table/sinh")
fire("c10-fabs-ungated", ["C10"], DIF,
     "        if allowed_nonsmoothness in [\"continuous\", \"discontinuous\"]:\n"
     "            from pymbolic.functions import sign\n            return sign(*pars)\n"
     "        else:\n            raise ValueError(\"fabs is not smooth\"\n"
     "                             \", pass allowed_nonsmoothness='continuous' \"\n"
     "                             \"to return sign\")",
     "        from pymbolic.functions import sign\n        return sign(*pars)",
     "P/table/fabs/gated")
fire("c10-copysign-gate-too-wide", ["C10"], DIF,
     "        if allowed_nonsmoothness == \"discontinuous\":\n            if i == 0:",
     "        if allowed_nonsmoothness in [\"continuous\", \"discontinuous\"]:\n            if i == 0:",
     "P/table/copysign/gated")
fire("c10-unknown-function-zero", ["C10"], DIF,
     "        raise RuntimeError(\"unrecognized function, cannot differentiate\")",
     "        return 0",
     "P/table/")
fire("c10-quotient-sign", ["C10"], DIF,
     "            return (df*g-dg*f)/g**2", "            return (df*g+dg*f)/g**2",
     "E/map_quotient/general")
fire("c10-quotient-df0-sign", ["C10"], DIF,
     "            return -f*dg/g**2", "            return f*dg/g**2",
     "E/map_quotient/df")
fire("c10-quotient-denominator", ["C10"], DIF,
     "            return (df*g-dg*f)/g**2", "            return (df*g-dg*f)/g",
     "E/map_quotient/general")
fire("c10-power-exponent", ["C10"], DIF,
     "            return g * f**(g-1) * df\n        else:",
     "            return g * f**g * df\n        else:",
     "E/map_power/dg")
fire("c10-power-missing-log-term", ["C10"], DIF,
     "            return log(f) * f**g * dg + \\\n                    g * f**(g-1) * df",
     "            return g * f**(g-1) * df",
     "E/map_power/general")
fire("c10-product-rule-misses-tail", ["C10"], DIF,
     "                + [self.rec_undiff(ch, *args) for ch in expr.children[i+1:]]\n", "",
     "E/map_product")
fire("c10-sum-undifferentiated", ["C10"], DIF,
     "                self.rec(child, *args) for child in expr.children)",
     "                self.rec_undiff(child, *args) for child in expr.children)",
     "E/map_sum")
fire("c10-call-first-parameter-only", ["C10"], DIF,
     "            for i, par in enumerate(expr.parameters)\n            )",
     "            for i, par in enumerate(expr.parameters[:1])\n            )",
     "E/map_call")
fire("c10-if-ungated", ["C10"], DIF,
     "        if self.allowed_nonsmoothness != \"discontinuous\":\n"
     "            raise ValueError(\"cannot differentiate 'If' nodes unless \"\n"
     "                    \"allowed_nonsmoothness is set to 'discontinuous'\")\n\n", "",
     "P/map_if/gated")
fire("c10-variable-inverted", ["C10"], DIF,
     "        if expr == self.variable:\n            return 1\n        else:\n            return 0",
     "        if expr == self.variable:\n            return 0\n        else:\n            return 1",
     "E/map_variable")
fire("c10-lookup-differentiated-as-variable", ["C10"], DIF,
     "    map_subscript = map_variable\n", "    map_subscript = map_variable\n    map_lookup = map_variable\n",
     "D4/DifferentiationMapper/Lookup")
fire("c10-floordiv-as-quotient", ["C10"], DIF,
     "    def map_power(self, expr, *args):\n        f = expr.base",
     "    map_floor_div = map_quotient\n\n    def map_power(self, expr, *args):\n        f = expr.base",
     "D4/DifferentiationMapper/FloorDiv")
fire("c10-setting-not-validated", ["C10"], DIF,
     "        if allowed_nonsmoothness not in [\"none\", \"continuous\", \"discontinuous\"]:\n"
     "            raise ValueError(f\"allowed_nonsmoothness={allowed_nonsmoothness} \"\n"
     "                    \"is not a valid option\")\n", "",
     "P/__init__/setting-validated")
silent("c10-silent-quotient-rearranged", ["C10"], DIF,
       "            return (df*g-dg*f)/g**2", "            return (g*df-f*dg)/(g*g)")
silent("c10-silent-power-rearranged", ["C10"], DIF,
       "            return g * f**(g-1) * df\n        else:",
       "            return df * (g * f**(g-1))\n        else:")

# ---------------------------------------------------------------------------
# behaviour-preserving refactorings (must stay silent)
# ---------------------------------------------------------------------------
silent("refactor-ident-sum-tuple", ["C04", "C08", "C11"], MI,
       "    def map_sum(self, expr, *args, **kwargs):\n"
       "        children = [self.rec(child, *args, **kwargs) for child in expr.children]\n"
       "        if all(child is orig_child\n"
       "                for child, orig_child in zip(children, expr.children)):\n"
       "            return expr\n\n        return type(expr)(tuple(children))\n\n    map_product = map_sum",
       "    def map_sum(self, expr, *args, **kwargs):\n"
       "        new_children = tuple(self.rec(c, *args, **kwargs) for c in expr.children)\n"
       "        unchanged = all(new is old for old, new in zip(expr.children, new_children))\n"
       "        if unchanged:\n            return expr\n\n"
       "        return expr.__class__(new_children)\n\n    map_product = map_sum")
silent("refactor-combine-call-extend", ["C04", "C09"], MI,
       "    def map_call(self, expr, *args, **kwargs):\n        return self.combine((\n"
       "            self.rec(expr.function, *args, **kwargs),\n"
       "            *[self.rec(child, *args, **kwargs) for child in expr.parameters]\n"
       "            ))",
       "    def map_call(self, expr, *args, **kwargs):\n"
       "        results = [self.rec(expr.function, *args, **kwargs)]\n"
       "        results.extend(self.rec(child, *args, **kwargs) for child in expr.parameters)\n"
       "        return self.combine(results)")
silent("refactor-walk-quotient-order", ["C04", "C09"], MI,
       "        self.rec(expr.numerator, *args, **kwargs)\n"
       "        self.rec(expr.denominator, *args, **kwargs)\n\n"
       "        self.post_visit(expr, *args, **kwargs)\n\n    map_floor_div = map_quotient",
       "        self.rec(expr.denominator, *args, **kwargs)\n"
       "        self.rec(expr.numerator, *args, **kwargs)\n\n"
       "        self.post_visit(expr, *args, **kwargs)\n\n    map_floor_div = map_quotient")
silent("refactor-cachedmapper-try", ["C04", "C05"], MI,
       "        result = self._cache.get(\n"
       "                (cache_key := self.get_cache_key(expr, *args, **kwargs)),\n"
       "                _NOT_IN_CACHE)\n"
       "        if result is not _NOT_IN_CACHE:\n            return result\n",
       "        cache_key = self.get_cache_key(expr, *args, **kwargs)\n"
       "        try:\n            return self._cache[cache_key]\n"
       "        except KeyError:\n            pass\n")
silent("refactor-evaluator-sum-loop", ["C02"], EVF,
       "        return sum(self.rec(child) for child in expr.children)",
       "        result = 0\n        for child in expr.children:\n"
       "            result = result + self.rec(child)\n        return result")
silent("refactor-evaluator-if-ternary", ["C02"], EVF,
       "    def map_if(self, expr):\n        if self.rec(expr.condition):\n"
       "            return self.rec(expr.then)\n        else:\n"
       "            return self.rec(expr.else_)",
       "    def map_if(self, expr):\n        if not self.rec(expr.condition):\n"
       "            return self.rec(expr.else_)\n        return self.rec(expr.then)")
silent("refactor-add-guard-order", ["C03"], PR,
       "        if is_nonzero(other):\n            if self:\n"
       "                if isinstance(other, Sum):\n"
       "                    return Sum((self, *other.children))\n"
       "                else:\n                    return Sum((self, other))\n"
       "            else:\n                return other\n        else:\n            return self\n\n"
       "    def __radd__",
       "        if not is_nonzero(other):\n            return self\n"
       "        if not self:\n            return other\n"
       "        if isinstance(other, Sum):\n            return Sum((self, *other.children))\n"
       "        return Sum((self, other))\n\n    def __radd__")
silent("refactor-stringify-if-fstring", ["C06", "C13"], SF,
       "                \"{} if {} else {}\".format(\n"
       "                    self.rec(expr.then, PREC_LOGICAL_OR, *args, **kwargs),\n"
       "                    self.rec(expr.condition, PREC_LOGICAL_OR, *args, **kwargs),\n"
       "                    self.rec(expr.else_, PREC_LOGICAL_OR, *args, **kwargs)),\n"
       "                enclosing_prec, PREC_IF)\n\n    def map_if_positive",
       "                self.format(\"%s if %s else %s\",\n"
       "                    self.rec(expr.then, PREC_LOGICAL_OR, *args, **kwargs),\n"
       "                    self.rec(expr.condition, PREC_LOGICAL_OR, *args, **kwargs),\n"
       "                    self.rec(expr.else_, PREC_LOGICAL_OR, *args, **kwargs)),\n"
       "                enclosing_prec, PREC_IF)\n\n    def map_if_positive")
silent_multi("refactor-printer-renumber", ["C06", "C13", "C14"], SF,
             [("PREC_CALL = 15", "PREC_CALL = 150"), ("PREC_POWER = 14", "PREC_POWER = 140"),
              ("PREC_UNARY = 13", "PREC_UNARY = 130"), ("PREC_PRODUCT = 12", "PREC_PRODUCT = 120"),
              ("PREC_SUM = 11", "PREC_SUM = 110"), ("PREC_SHIFT = 10", "PREC_SHIFT = 100"),
              ("PREC_BITWISE_AND = 9", "PREC_BITWISE_AND = 90"),
              ("PREC_BITWISE_XOR = 8", "PREC_BITWISE_XOR = 80"),
              ("PREC_BITWISE_OR = 7", "PREC_BITWISE_OR = 70"),
              ("PREC_COMPARISON = 6", "PREC_COMPARISON = 60"),
              ("PREC_LOGICAL_AND = 5", "PREC_LOGICAL_AND = 50"),
              ("PREC_LOGICAL_OR = 4", "PREC_LOGICAL_OR = 40"), ("PREC_IF = 3", "PREC_IF = 30")])
silent("refactor-depmapper-branch-order", ["C09"], DE,
       "        if self.include_calls == \"descend_args\":\n"
       "            return self.combine(\n"
       "                    self._rec_computed_head(expr, *args, **kwargs)\n"
       "                    + [self.rec(child, *args, **kwargs)\n"
       "                        for child in expr.parameters])\n"
       "        elif self.include_calls:\n            return {expr}\n        else:\n"
       "            return super().map_call(expr, *args, **kwargs)",
       "        if not self.include_calls:\n"
       "            return super().map_call(expr, *args, **kwargs)\n"
       "        if self.include_calls != \"descend_args\":\n            return {expr}\n"
       "        return self.combine(\n"
       "                self._rec_computed_head(expr, *args, **kwargs)\n"
       "                + [self.rec(child, *args, **kwargs) for child in expr.parameters])")
silent("refactor-diff-rename-locals", ["C10"], DIF,
       "        f = expr.numerator\n        g = expr.denominator\n"
       "        df = self.rec(f, *args)\n        dg = self.rec(g, *args)\n"
       "        f = self.rec_undiff(f, *args)\n        g = self.rec_undiff(g, *args)\n\n"
       "        if (not df) and (not dg):\n            return 0\n"
       "        elif (not df):\n            return -f*dg/g**2\n"
       "        elif (not dg):\n            return self.rec(f, *args)/g\n"
       "        else:\n            return (df*g-dg*f)/g**2",
       "        du = self.rec(expr.numerator, *args)\n        dv = self.rec(expr.denominator, *args)\n"
       "        u = self.rec_undiff(expr.numerator, *args)\n"
       "        v = self.rec_undiff(expr.denominator, *args)\n\n"
       "        if (not du) and (not dv):\n            return 0\n"
       "        elif (not du):\n            return -(u*dv)/(v*v)\n"
       "        elif (not dv):\n            return du/v\n"
       "        else:\n            return (du*v-dv*u)/v**2")
silent("refactor-substitutor-walrus", ["C08"], SU,
       "    def map_lookup(self, expr):\n        result = self.subst_func(expr)\n"
       "        if result is not None:\n            return result\n        else:\n"
       "            return IdentityMapper.map_lookup(self, expr)",
       "    def map_lookup(self, expr):\n"
       "        if (result := self.subst_func(expr)) is not None:\n            return result\n"
       "        return super().map_lookup(expr)")
silent("refactor-fuse-comprehension", ["C20"], TRF,
       "    for stmtb in b_unique_statements:\n        new_statements.append(\n"
       "                stmtb.copy(\n                    depends_on=frozenset(\n"
       "                        old_b_id_to_new_b_id[dep_id]\n"
       "                        for dep_id in stmtb.depends_on)))\n",
       "    for renamed in b_unique_statements:\n"
       "        new_deps = frozenset(old_b_id_to_new_b_id[d] for d in renamed.depends_on)\n"
       "        new_statements.append(renamed.copy(depends_on=new_deps))\n")
silent("refactor-compile-sorted", ["C13"], CO,
       "        used_variables = list(used_variables)\n"
       "        used_variables.sort(key=lambda var: var.name)\n"
       "        all_variables = self._Variables + used_variables\n",
       "        all_variables = self._Variables + sorted(used_variables, key=lambda v: v.name)\n")
silent("refactor-ccode-product-join", ["C14"], CF,
       "                self.join_rec(\" * \", expr.children, PREC_PRODUCT,\n"
       "                    force_parens_around=(Remainder,)),",
       "                self.join_rec(\" * \", expr.children, PREC_PRODUCT,\n"
       "                    force_parens_around=(Remainder, FloorDivMarker)\n"
       "                    if False else (Remainder,)),")


# ---------------------------------------------------------------------------
# C16: AC search
# ---------------------------------------------------------------------------

fire("c16-ac-leftovers-ignored", ["C16"], UNF,
     "            if len(plain_var_candidates) == len(other_leftovers) == 0:\n",
     "            if not plain_var_candidates:\n",
     "P/ac/free/direct-exit-needs-nothing-left")
fire("c16-ac-free-vars-ignored", ["C16"], UNF,
     "            if len(plain_var_candidates) == len(other_leftovers) == 0:\n",
     "            if not other_leftovers:\n",
     "P/ac/free/direct-exit-needs-nothing-left")
silent("c16-ac-empty-test-rewritten", ["C16"], UNF,
       "            if len(plain_var_candidates) == len(other_leftovers) == 0:\n",
       "            if not plain_var_candidates and not other_leftovers:\n")
silent("c16-ac-empty-test-len", ["C16"], UNF,
       "            if len(plain_var_candidates) == len(other_leftovers) == 0:\n",
       "            if len(plain_var_candidates) == 0 and "
       "len(other_leftovers) == 0:\n")
fire("c16-ac-index-not-removed", ["C16"], UNF,
     "                new_rhs_leftovers = other_leftovers - {other_idx}\n",
     "                new_rhs_leftovers = other_leftovers\n",
     "P/ac/children/matched-index-removed")
fire("c16-ac-rematch-allowed", ["C16"], UNF,
     "                if other_idx not in other_leftovers:\n"
     "                    # Don't re-match any elements.\n"
     "                    continue\n",
     "",
     "P/ac/children/no-rematch")
fire("c16-ac-pair-records-dropped", ["C16"], UNF,
     "                new_urecs = unify_many(pair_urecs, urec)\n",
     "                new_urecs = [urec]\n",
     "P/ac/children/records-merged")
fire("c16-ac-start-misses-first", ["C16"], UNF,
     "            set(range(len(other.children))))",
     "            set(range(1, len(other.children))))",
     "P/ac/start/all-target-children")
fire("c16-ac-candidate-wrong-index", ["C16"], UNF,
     "                    i_matches.append((j, result))",
     "                    i_matches.append((j + 1, result))",
     "P/ac/candidates/index-matches-child")
fire("c16-ac-candidate-ignores-incoming", ["C16"], UNF,
     "                result = self.rec(my_child, other_child, urecs)\n"
     "                if result:\n"
     "                    i_matches",
     "                result = self.rec(my_child, other_child,\n"
     "                        [UnificationRecord([])])\n"
     "                if result:\n"
     "                    i_matches",
     "P/ac/candidates/index-matches-child")
fire("c16-ac-partition-base-first-only", ["C16"], UNF,
     "                if k == 1:\n                    yield [s]\n",
     "                if k == 1:\n                    yield [set(list(s)[:1])]\n",
     "P/ac/partitions/base-is-whole-set")
fire("c16-ac-partition-rest-not-reduced", ["C16"], UNF,
     "                    for partition in partitions(s - subset, k - 1):",
     "                    for partition in partitions(s, k - 1):",
     "P/ac/partitions/step-splits-off-a-subset")
fire("c16-ac-empty-parts", ["C16"], UNF,
     "                for size in range(1, max_size + 1):",
     "                for size in range(0, max_size + 1):",
     "P/ac/partitions/parts-non-empty")
fire("c16-ac-binding-first-child-only", ["C16"], UNF,
     "                        var, factory(other.children[i] for i in subset))",
     "                        var, factory(other.children[i] for i in subset\n"
     "                                     if i == min(subset)))",
     "P/ac/free/variable-gets-its-part")
fire("c16-ac-incoming-records-dropped", ["C16"], UNF,
     "                    # urecs was not merged in, do it here.\n"
     "                    yield from unify_many(urecs, result)",
     "                    yield result",
     "P/ac/free/incoming-records-kept")
fire("c16-ac-conflict-ignored", ["C16"], UNF,
     "                    result = result.unify(rec)\n"
     "                    if not result:\n"
     "                        break\n",
     "                    result = result.unify(rec) or result\n"
     "                    if not result:\n"
     "                        break\n",
     "P/ac/free/bindings-merged")
fire("c16-ac-class-test-dropped", ["C16"], UNF,
     "    def map_commut_assoc(self, expr, other, urecs, factory):\n"
     "        if not isinstance(other, type(expr)):\n"
     "            return\n",
     "    def map_commut_assoc(self, expr, other, urecs, factory):\n"
     "        if not hasattr(other, 'children'):\n"
     "            return\n",
     "P/ac/class-tested-first")
silent("c16-ac-comment-and-rename-free", ["C16"], UNF,
       "                new_rhs_leftovers = other_leftovers - {other_idx}\n\n"
       "                for cand_urec in new_urecs:\n"
       "                    yield from match_children(\n"
       "                            cand_urec, next_cand_idx + 1, new_rhs_leftovers)",
       "                for cand_urec in new_urecs:\n"
       "                    yield from match_children(\n"
       "                            cand_urec, next_cand_idx + 1,\n"
       "                            other_leftovers - {other_idx})")

fire("c16-unify-map-in-place", ["C16"], UNF,
     "    result = map1.copy()\n",
     "    result = map1\n",
     "P/unify_map/copy")
silent("c16-unify-map-dict-copy", ["C16"], UNF,
       "    result = map1.copy()\n",
       "    result = dict(map1)\n")
fire("c16-unify-rmap-unchecked", ["C16"], UNF,
     "        new_rmap = unify_map(self.rmap, other.rmap)\n"
     "        if new_rmap is None:\n"
     "            return None\n",
     "        new_rmap = unify_map(self.rmap, other.rmap) or {}\n",
     "P/UnificationRecord.unify/both-maps")
fire("c16-unify-lmap-self-only", ["C16"], UNF,
     "        new_lmap = unify_map(self.lmap, other.lmap)\n",
     "        new_lmap = unify_map(self.lmap, self.lmap)\n",
     "P/UnificationRecord.unify/both-maps")
silent("c16-unify-none-test-rewritten", ["C16"], UNF,
       "        new_rmap = unify_map(self.rmap, other.rmap)\n"
       "        if new_rmap is None:\n"
       "            return None\n",
       "        new_rmap = unify_map(other.rmap, self.rmap)\n"
       "        if new_rmap is not None:\n"
       "            pass\n"
       "        else:\n"
       "            return None\n")
fire("c16-unify-many-keeps-none", ["C16"], UNF,
     "        if unif_result is not None:\n"
     "            result.append(unif_result)\n",
     "        result.append(unif_result)\n",
     "P/unify_many/filters-none")
silent("c16-unify-many-comprehension", ["C16"], UNF,
       "    result = []\n"
       "    for uni1 in unis1:\n"
       "        unif_result = uni1.unify(uni2)\n"
       "        if unif_result is not None:\n"
       "            result.append(unif_result)\n\n"
       "    return result\n",
       "    merged = [uni1.unify(uni2) for uni1 in unis1]\n"
       "    return [m for m in merged if m is not None]\n")

fire("c16-replacement-multiset-counts-lost", ["C16"], TFF,
     "        return multiset.Multiset({from_matchpy_expr(expr): count\n"
     "                                  for expr, count in arg.items()})",
     "        return multiset.Multiset({from_matchpy_expr(expr)\n"
     "                                  for expr in arg})",
     "T/matchpy/replacement/multiset/binding-converted")
silent("c16-replacement-multiset-by-iteration", ["C16"], TFF,
       "        return multiset.Multiset({from_matchpy_expr(expr): count\n"
       "                                  for expr, count in arg.items()})",
       "        return multiset.Multiset(from_matchpy_expr(expr)\n"
       "                                 for expr in arg)")
fire("c16-replacement-tuple-reversed", ["C16"], TFF,
     "        return tuple(from_matchpy_expr(el) for el in arg)",
     "        return tuple(from_matchpy_expr(el) for el in reversed(arg))",
     "T/matchpy/replacement/tuple/binding-converted")
fire("c16-replacement-expression-unconverted", ["C16"], TFF,
     "    if isinstance(arg, MatchpyExpression):\n"
     "        return from_matchpy_expr(arg)\n",
     "    if isinstance(arg, MatchpyExpression):\n"
     "        return arg\n",
     "T/matchpy/replacement/expression/binding-converted")
silent_multi("c16-replacement-inline-conversion", ["C16"], TFF, [
    ("            kwargs_to_f[kw] = from_matchpy_binding(self.from_matchpy_expr, arg)\n",
     "            kwargs_to_f[kw] = from_matchpy_binding(\n"
     "                    self.from_matchpy_expr, arg)\n")])


# ---------------------------------------------------------------------------
# rules added after the seeded changes (C11 TermCollector, C15 exact division,
# C17 numpy normalisation, C19 fft wrappers, C20 closure loop)
# ---------------------------------------------------------------------------

COL = "pymbolic/mapper/collector.py"
IUT = "pymbolic/imperative/utils.py"

fire("c11-tc-coefficient-base-only", ["C11"], COL,
     "            term = base**exp\n"
     "            if self.get_dependencies(term) <= self.parameters:\n"
     "                coefficients.append(term)",
     "            term = base**exp\n"
     "            if self.get_dependencies(term) <= self.parameters:\n"
     "                coefficients.append(base)",
     "P/TermCollector.split_term/coefficient-keeps-exponent")
fire("c11-tc-term-exponent-one", ["C11"], COL,
     "                cleaned_base2exp[base] = exp\n",
     "                cleaned_base2exp[base] = 1\n",
     "P/TermCollector.split_term/term-keeps-exponent")
fire("c11-tc-exponents-overwrite", ["C11"], COL,
     "                base2exp[mybase] += myexp\n",
     "                base2exp[mybase] = myexp\n",
     "P/TermCollector.split_term/exponents-add")
fire("c11-tc-coefficients-overwrite", ["C11"], COL,
     "            term2coeff[term] = term2coeff.get(term, 0) + coeff\n",
     "            term2coeff[term] = coeff\n",
     "P/TermCollector.map_sum/coefficients-added")
# (x**0 is 1 wherever it evaluates: dropping an entry whose exponents cancelled
# preserves the value -- decided by the interpretive judge; the structural
# partition rule alone called this a violation until round 3)
silent("c11-tc-cancelled-entry-dropped", ["C11"], COL,
     "            if self.get_dependencies(term) <= self.parameters:\n"
     "                coefficients.append(term)\n"
     "            else:\n"
     "                cleaned_base2exp[base] = exp\n",
     "            if self.get_dependencies(term) <= self.parameters:\n"
     "                coefficients.append(term)\n"
     "            elif exp != 0:\n"
     "                cleaned_base2exp[base] = exp\n")
fire("c11-tc-entry-dropped", ["C11"], COL,
     "            if self.get_dependencies(term) <= self.parameters:\n"
     "                coefficients.append(term)\n"
     "            else:\n"
     "                cleaned_base2exp[base] = exp\n",
     "            if self.get_dependencies(term) <= self.parameters:\n"
     "                coefficients.append(term)\n"
     "            elif exp != 1:\n"
     "                cleaned_base2exp[base] = exp\n",
     "P0/TermCollector.split_term/split-semantics")
silent_multi("c11-tc-renamed-locals", ["C11"], COL, [
    ("        coefficients = []\n", "        coeffs = []\n"),
    ("                coefficients.append(term)", "                coeffs.append(term)"),
    ("pymbolic.flattened_product(coefficients))",
     "pymbolic.flattened_product(coeffs))"),
    ("        cleaned_base2exp = {}\n", "        kept = {}\n"),
    ("                cleaned_base2exp[base] = exp\n",
     "                kept[base] = exp\n"),
    ("(base, exp) for base, exp in cleaned_base2exp.items())",
     "(base, exp) for base, exp in kept.items())"),
])
silent("c11-tc-sum-table-renamed", ["C11"], COL,
       "        term2coeff = {}\n"
       "        for child in mysum.children:\n"
       "            term, coeff = self.split_term(child)\n"
       "            term2coeff[term] = term2coeff.get(term, 0) + coeff\n",
       "        collected = {}\n"
       "        for child in mysum.children:\n"
       "            term, coeff = self.split_term(child)\n"
       "            collected[term] = collected.get(term, 0) + coeff\n"
       "        term2coeff = collected\n")

fire("c15-gcd-without-rhs", ["C15"], ALG,
     "            [a for a in mat[i] if a]\n"
     "            +\n"
     "            [a for a in rhs[i] if a]))",
     "            [a for a in mat[i] if a]))",
     "P/gaussian_elimination/exact-division")
fire("c15-lcm-wrong-divisor", ["C15"], ALG,
     "                i_fac = ell//mat[i, j]\n",
     "                i_fac = ell//mat[u, i]\n",
     "P/gaussian_elimination/exact-division")
silent("c15-gcd-args-reordered", ["C15"], ALG,
       "            [a for a in mat[i] if a]\n"
       "            +\n"
       "            [a for a in rhs[i] if a]))",
       "            [a for a in rhs[i] if a]\n"
       "            +\n"
       "            [a for a in mat[i] if a]))")

fire("c17-numpy-only-numbers", ["C17"], PHF,
     "            if isinstance(expr, np.generic):",
     "            if isinstance(expr, np.number):",
     "T/digest/map_constant/numpy-normalised")
silent("c17-numpy-explicit-tuple", ["C17"], PHF,
       "            if isinstance(expr, np.generic):",
       "            if isinstance(expr, (np.number, np.bool_)):")

fire("c19-sym-fft-sign-dropped", ["C19"], ALG,
     "            fft(wrap_intermediate(x), sign=sign,\n"
     "                wrap_intermediate=wrap_intermediate))",
     "            fft(wrap_intermediate(x),\n"
     "                wrap_intermediate=wrap_intermediate))",
     "P/sym_fft/options-reach-fft")
fire("c19-ifft-forward-sign", ["C19"], ALG,
     "    return (1/len(x))*fft(x, sign=-1, wrap_intermediate=wrap_intermediate,",
     "    return (1/len(x))*fft(x, sign=1, wrap_intermediate=wrap_intermediate,",
     "P/ifft")
fire("c19-ifft-drops-custom-np", ["C19"], ALG,
     "            complex_dtype=complex_dtype, custom_np=custom_np)\n\n\ndef sym_fft",
     "            complex_dtype=complex_dtype)\n\n\ndef sym_fft",
     "P/ifft/options-reach-fft")
silent("c19-sym-fft-positional-sign", ["C19"], ALG,
       "            fft(wrap_intermediate(x), sign=sign,\n"
       "                wrap_intermediate=wrap_intermediate))",
       "            fft(wrap_intermediate(x), sign,\n"
       "                wrap_intermediate=wrap_intermediate))")

fire("c20-closure-flag-overwritten", ["C20"], IUT,
     "                    if stmt_3 not in dep_graph.get(stmt_1, set()):\n"
     "                        changed_something = True\n"
     "                        dep_graph[stmt_1].add(stmt_3)\n",
     "                    new = stmt_3 not in dep_graph.get(stmt_1, set())\n"
     "                    changed_something = new\n"
     "                    if new:\n"
     "                        dep_graph[stmt_1].add(stmt_3)\n",
     "P/closure/flag-monotone")
fire("c20-closure-flag-never-reset", ["C20"], IUT,
     "    while True:\n        changed_something = False\n\n        for stmt_1",
     "    changed_something = False\n    while True:\n        for stmt_1",
     "P/closure/")
fire("c20-closure-single-sweep", ["C20"], IUT,
     "        if not changed_something:\n            break\n",
     "        break\n",
     "P/closure/")
silent("c20-closure-update-form", ["C20"], IUT,
       "                    if stmt_3 not in dep_graph.get(stmt_1, set()):\n"
       "                        changed_something = True\n"
       "                        dep_graph[stmt_1].add(stmt_3)\n",
       "                    if stmt_3 not in dep_graph.get(stmt_1, set()):\n"
       "                        changed_something = True\n"
       "                        dep_graph[stmt_1] |= {stmt_3}\n")

fire("c06-forced-parens-skipped-by-text", ["C06", "C13", "C14"], SF,
     "        if isinstance(expr, force_parens_around):\n"
     "            result = f\"({result})\"\n",
     "        if isinstance(expr, force_parens_around) \\\n"
     "                and not (result.startswith(\"(\") and result.endswith(\")\")):\n"
     "            result = f\"({result})\"\n",
     "T/printer/forced-parens-unconditional")
fire("c06-paren-if-needed-skipped-by-text", ["C06", "C13", "C14"], SF,
     "        if enclosing_prec > my_prec:\n"
     "            return f\"({s})\"\n",
     "        if enclosing_prec > my_prec and not (\n"
     "                s.startswith(\"(\") and s.endswith(\")\")):\n"
     "            return f\"({s})\"\n",
     "T/printer/parenthesize-if-needed")
silent("c06-forced-parens-negated-form", ["C06", "C13", "C14"], SF,
       "        if isinstance(expr, force_parens_around):\n"
       "            result = f\"({result})\"\n\n"
       "        return result\n",
       "        if not isinstance(expr, force_parens_around):\n"
       "            return result\n\n"
       "        return f\"({result})\"\n")

_CLOSURE_OLD = (
    "    while True:\n"
    "        changed_something = False\n\n"
    "        for stmt_1 in dep_graph:\n"
    "            for stmt_2 in dep_graph.get(stmt_1, set()).copy():\n"
    "                for stmt_3 in dep_graph.get(stmt_2, set()).copy():\n"
    "                    if stmt_3 not in dep_graph.get(stmt_1, set()):\n"
    "                        changed_something = True\n"
    "                        dep_graph[stmt_1].add(stmt_3)\n\n"
    "        if not changed_something:\n"
    "            break\n")
fire("c20-closure-one-sweep-source-outermost", ["C20"], IUT, _CLOSURE_OLD,
     "    for stmt_1 in dep_graph:\n"
     "        for stmt_2 in dep_graph.get(stmt_1, set()).copy():\n"
     "            dep_graph[stmt_1].update(dep_graph.get(stmt_2, set()))\n",
     "P/closure/fixed-point")
silent("c20-closure-warshall", ["C20"], IUT, _CLOSURE_OLD,
       "    for stmt_2 in list(dep_graph):\n"
       "        for stmt_1 in dep_graph:\n"
       "            if stmt_2 in dep_graph[stmt_1]:\n"
       "                dep_graph[stmt_1] |= dep_graph.get(stmt_2, set())\n")

_FOLD_OLD = (
    "        rec_children = [self.rec(child) for child in children]\n"
    "        result = rec_children[-1]\n"
    "        for child in rec_children[-2::-1]:\n"
    "            result = ast.BinOp(child, op_type, result)\n")
fire("c13-export-balanced-fold-drops-odd", ["C13"], IA, _FOLD_OLD,
     "        rec_children = [self.rec(child) for child in children]\n"
     "        while len(rec_children) > 1:\n"
     "            rec_children = [ast.BinOp(left, op_type, right)\n"
     "                            for left, right in zip(rec_children[::2],\n"
     "                                                   rec_children[1::2])]\n"
     "        result = rec_children[0]\n",
     "E/exporter/_map_multi_children_op/order")
silent("c13-export-fold-renamed-left", ["C13"], IA, _FOLD_OLD,
       "        mapped = [self.rec(child) for child in children]\n"
       "        acc = mapped[0]\n"
       "        for nxt in mapped[1:]:\n"
       "            acc = ast.BinOp(acc, op_type, nxt)\n"
       "        result = acc\n")
fire("c13-export-fold-left-swapped", ["C13"], IA, _FOLD_OLD,
     "        mapped = [self.rec(child) for child in children]\n"
     "        acc = mapped[0]\n"
     "        for nxt in mapped[1:]:\n"
     "            acc = ast.BinOp(nxt, op_type, acc)\n"
     "        result = acc\n",
     "E/exporter/_map_multi_children_op/order")

fire("c05-cse-table-class-level", ["C05", "C10", "C12"], MI,
     "    def map_common_subexpression(self, expr, *args):\n"
     "        try:\n"
     "            ccd = self._cse_cache_dict\n"
     "        except AttributeError:\n"
     "            ccd = self._cse_cache_dict = {}\n",
     "    _cse_cache_dict: dict = {}\n\n"
     "    def map_common_subexpression(self, expr, *args):\n"
     "        ccd = self._cse_cache_dict\n",
     "O/cse-mixin/table-per-instance")
fire("c05-cached-mapper-table-class-level", ["C05", "C02"], MI,
     "    def __init__(self):\n"
     "        self._cache: dict[Any, Any] = {}\n"
     "        Mapper.__init__(self)\n",
     "    _cache: dict[Any, Any] = {}\n\n"
     "    def __init__(self):\n"
     "        Mapper.__init__(self)\n",
     "O/CachedMapper/table-per-instance")
silent("c05-cse-table-getattr-form", ["C05", "C10", "C12"], MI,
       "        try:\n"
       "            ccd = self._cse_cache_dict\n"
       "        except AttributeError:\n"
       "            ccd = self._cse_cache_dict = {}\n",
       "        if not hasattr(self, \"_cse_cache_dict\"):\n"
       "            self._cse_cache_dict = {}\n"
       "        ccd = self._cse_cache_dict\n")

fire("c06-comma-absorbs-closed-tuple", ["C06", "C07"], PF,
     "                    _closepar, _closebracket):\n"
     "                if isinstance(left_exp, (tuple, list)) \\\n"
     "                        and not isinstance(left_exp, FinalizedContainer):\n",
     "                    _closepar, _closebracket):\n"
     "                if isinstance(left_exp, (tuple, list)):\n",
     "Tuple")
fire("c06-comma-extends-closed-tuple", ["C06", "C07"], PF,
     "                new_el = self.parse_expression(pstate, _PREC_COMMA)\n"
     "                if isinstance(left_exp, (tuple, list)) \\\n"
     "                        and not isinstance(left_exp, FinalizedContainer):\n",
     "                new_el = self.parse_expression(pstate, _PREC_COMMA)\n"
     "                if isinstance(left_exp, (tuple, list)):\n",
     "")

fire("c07-negative-literal-fast-path", ["C07"], PF,
     "            left_exp = -self.parse_expression(pstate, _PREC_UNARY)",
     "            if pstate.is_next(_int) or pstate.is_next(_float):\n"
     "                left_exp = -self.parse_terminal(pstate)\n"
     "            else:\n"
     "                left_exp = -self.parse_expression(pstate, _PREC_UNARY)",
     "T/pygrammar/-2**2")

_IMP_HELPERS = (
    "def _bitwise_or(x, y):\n    return p.BitwiseOr((x, y))\n\n\n"
    "def _bitwise_xor(x, y):\n    return p.BitwiseXor((x, y))\n\n\n"
    "def _bitwise_and(x, y):\n    return p.BitwiseAnd((x, y))\n")
_IMP_FACTORY = (
    "def _binary_as_nary(node_class):\n"
    "    def build(x, y):\n"
    "        return node_class((x, y))\n\n"
    "    return build\n")
_IMP_ENTRIES = (
    "            ast.BitOr: _bitwise_or,\n"
    "            ast.BitXor: _bitwise_xor,\n"
    "            ast.BitAnd: _bitwise_and,\n")
silent_multi("c07-importer-factory-refactor", ["C07", "C13"], IA, [
    (_IMP_HELPERS, _IMP_FACTORY),
    (_IMP_ENTRIES,
     "            ast.BitOr: _binary_as_nary(p.BitwiseOr),\n"
     "            ast.BitXor: _binary_as_nary(p.BitwiseXor),\n"
     "            ast.BitAnd: _binary_as_nary(p.BitwiseAnd),\n")])
fire_multi("c07-importer-factory-stale-xor", ["C07", "C13"], IA, [
    (_IMP_HELPERS, _IMP_FACTORY),
    (_IMP_ENTRIES,
     "            ast.BitOr: _binary_as_nary(p.BitwiseOr),\n"
     "            ast.BitXor: _binary_as_nary(p.BitwiseOr),\n"
     "            ast.BitAnd: _binary_as_nary(p.BitwiseAnd),\n")],
    "T/importer/bin_op_map/BitXor")
silent_multi("c07-importer-lambda-entries", ["C07", "C13"], IA, [
    (_IMP_ENTRIES,
     "            ast.BitOr: lambda x, y: p.BitwiseOr((x, y)),\n"
     "            ast.BitXor: lambda x, y: p.BitwiseXor((x, y)),\n"
     "            ast.BitAnd: lambda x, y: p.BitwiseAnd((x, y)),\n")])

fire("c10-entry-setting-not-passed", ["C10"], DIF,
     "        variable, func_mapper, allowed_nonsmoothness=allowed_nonsmoothness\n",
     "        variable, func_mapper\n",
     "P/differentiate/entry")
fire("c10-entry-variable-not-normalised", ["C10"], DIF,
     "        variable = primitives.make_variable(variable)\n",
     "        variable = str(variable)\n",
     "P/differentiate/entry")
silent("c10-entry-positional-setting", ["C10"], DIF,
       "    return DifferentiationMapper(\n"
       "        variable, func_mapper, allowed_nonsmoothness=allowed_nonsmoothness\n"
       "        )(expression)",
       "    mapper = DifferentiationMapper(variable, func_mapper,\n"
       "                                   allowed_nonsmoothness)\n"
       "    return mapper(expression)")
fire("c10-init-accepts-unknown-setting", ["C10"], DIF,
     "        if allowed_nonsmoothness not in [\"none\", \"continuous\", \"discontinuous\"]:",
     "        if allowed_nonsmoothness not in [\"none\", \"continuous\", \"discontinuous\",\n"
     "                                         \"any\"]:",
     "P/__init__/setting-validated")

silent("c09-combine-union-star", ["C09"], MI,
       "        from functools import reduce\n"
       "        return reduce(operator.or_, values, set())",
       "        return set().union(*values)")
silent("c09-combine-loop", ["C09"], MI,
       "        from functools import reduce\n"
       "        return reduce(operator.or_, values, set())",
       "        result = set()\n"
       "        for value in values:\n"
       "            result |= value\n"
       "        return result")
fire("c09-combine-no-start", ["C09"], MI,
     "        return reduce(operator.or_, values, set())",
     "        return reduce(operator.or_, values)",
     "K/DependencyMapper/combine")
fire("c09-combine-intersection", ["C09"], MI,
     "        return reduce(operator.or_, values, set())",
     "        return reduce(operator.and_, values, set())",
     "K/DependencyMapper/combine")

fire("c12-usecount-increment-by-two", ["C12"], CSF,
     "            self.subexpr_counts[key] += 1\n",
     "            self.subexpr_counts[key] += 2\n",
     "P/UseCountMapper.visit/counts")
silent("c12-usecount-get-form", ["C12"], CSF,
       "            self.subexpr_counts[key] += 1\n",
       "            self.subexpr_counts[key] = self.subexpr_counts[key] + 1\n")
fire("c12-keygetter-count-overwritten", ["C12"], CSF,
     "kid_count[child] = kid_count.get(child, 0) + 1",
     "kid_count[child] = 1",
     "T/NormalizedKeyGetter/counts-every-child")
silent_multi("c12-keygetter-renamed-table", ["C12"], CSF, [
    ("kid_count = {}", "multiplicity = {}"),
    ("kid_count[child] = kid_count.get(child, 0) + 1",
     "multiplicity[child] = multiplicity.get(child, 0) + 1"),
    ("frozenset(kid_count.items())", "frozenset(multiplicity.items())")])
fire("c12-histogram-not-incremented", ["C12"], TGF,
     "self.subexpr_histogram.get(expr, 0) + 1",
     "self.subexpr_histogram.get(expr, 1)",
     "P/CSEWalkMapper.visit/histogram")

silent("c05-cse-mixin-membership-test", ["C05", "C10", "C12"], MI,
       "        key = (expr, *args)\n"
       "        try:\n"
       "            return ccd[key]\n"
       "        except KeyError:\n"
       "            result = self.map_common_subexpression_uncached(expr, *args)\n"
       "            ccd[key] = result\n"
       "            return result\n",
       "        key = (expr, *args)\n"
       "        if key in ccd:\n"
       "            return ccd[key]\n\n"
       "        result = self.map_common_subexpression_uncached(expr, *args)\n"
       "        ccd[key] = result\n"
       "        return result\n")

fire("c05-optimizer-shared-ast-mutated", ["C05"], OPF,
     "    return deepcopy(_get_def_from_ast_container(\n"
     "            cls_ast.body, f.__name__, ast.FunctionDef))\n",
     "    return _get_def_from_ast_container(\n"
     "            cls_ast.body, f.__name__, ast.FunctionDef)\n",
     "O/optimizer/cached-ast-not-mutated")
silent_multi("c05-optimizer-deepcopy-at-use", ["C05"], OPF, [
    ("    return deepcopy(_get_def_from_ast_container(\n"
     "            cls_ast.body, f.__name__, ast.FunctionDef))\n",
     "    return _get_def_from_ast_container(\n"
     "            cls_ast.body, f.__name__, ast.FunctionDef)\n"),
    ("                method_ast = _get_ast_for_method(method)\n",
     "                method_ast = deepcopy(_get_ast_for_method(method))\n")])
silent("c05-optimizer-no-memo", ["C05"], OPF,
       "@lru_cache\ndef _get_ast_for_file(filename):",
       "def _get_ast_for_file(filename):")

fire("c19-polynomial-bool-missing", ["C19"], POL,
     "    def __bool__(self):\n        return len(self.Data) != 0\n\n"
     "    __nonzero__ = __bool__\n",
     "    def __nonzero__(self):\n        return len(self.Data) != 0\n",
     "S/truthiness/Polynomial")
fire("c19-sort-uniq-keeps-cancelled-exponent", ["C19"], POL,
     "                uniq_result.pop()\n"
     "                # the entry for this exponent is gone\n"
     "                last_exp = None\n",
     "                uniq_result.pop()\n",
     "P/_sort_uniq/cancelled-term-forgets-exponent")
fire("c19-rational-true-division", ["C19"], RAT,
     "        numerator //= d_unit\n        denominator //= d_unit",
     "        numerator /= d_unit\n        denominator /= d_unit",
     "P/Rational.__init__/exact-unit-division")
silent("c19-rational-multiply-by-unit", ["C19"], RAT,
       "        numerator //= d_unit\n        denominator //= d_unit",
       "        numerator = numerator * d_unit\n"
       "        denominator = denominator * d_unit")

fire("c01-legacy-hash-plain-store", ["C01"], PR,
     "            object.__setattr__(self, \"_hash_value\", self.get_hash())\n",
     "            self._hash_value = self.get_hash()\n",
     "O/legacy/__hash__/cache-store-works-when-frozen")

fire("c15-product-second-factor-not-refused", ["C15"], COE,
     "                    if (idx_of_child_with_vars is not None\n"
     "                            and idx_of_child_with_vars != i):\n",
     "                    if (idx_of_child_with_vars is not None\n"
     "                            and idx_of_child_with_vars > i):\n",
     "P/CoefficientCollector/map_product/nonlinear-raises")
fire("c15-product-skips-later-factors", ["C15"], COE,
     "            if i != idx_of_child_with_vars:\n"
     "                assert len(child_coeffs) == 1\n",
     "            if idx_of_child_with_vars is None or i < idx_of_child_with_vars:\n"
     "                assert len(child_coeffs) == 1\n",
     "K/CoefficientCollector/map_product/all-factors")

fire("c13-export-negative-constant-bare", ["C13"], IA,
     "        elif isinstance(expr, (int, float)) and expr < 0:\n",
     "        elif isinstance(expr, (int, float)) and expr < 0 and False:\n",
     "")
fire_multi("c13-export-negative-constant-bare-2", ["C13"], IA, [
    ("        elif isinstance(expr, (int, float)) and expr < 0:\n"
     "            # ast.unparse writes Constant(-2) as a bare \"-2\", and\n"
     "            # \"-2 ** x\" is -(2 ** x): emit the sign as an operator.\n"
     "            return ast.UnaryOp(ast.USub(), ast.Constant(-expr, None))\n",
     "")],
    "E/exporter/Constant/negative-not-bare")

DSF = "pymbolic/mapper/distributor.py"
fire("c11-distribute-nonpositive-exponent", ["C11"], DSF,
     "        if isinstance(expr.exponent, int) and expr.exponent > 0:\n",
     "        if isinstance(expr.exponent, int):\n",
     "P/DistributeMapper/map_power/repetition-needs-positive-exponent")
silent("c11-distribute-exponent-ge-one", ["C11"], DSF,
       "        if isinstance(expr.exponent, int) and expr.exponent > 0:\n",
       "        if isinstance(expr.exponent, int) and not expr.exponent < 1:\n")

fire("c11-collector-refuses-quotient-terms", ["C11"], COL,
     "        elif isinstance(mul_term, (Power, AlgebraicLeaf, Quotient)):",
     "        elif isinstance(mul_term, (Power, AlgebraicLeaf)):",
     "S/collector/accepts-distributor-terms:Quotient")

fire("c11-dist-leading-times-expanded-result", ["C11"], DSF,
     "                       dist(pymbolic.flattened_product(\n"
     "                           [*leading, sumchild, rest]))\n",
     "                       pymbolic.flattened_product(leading) * dist(sumchild*rest)\n",
     "P/DistributeMapper/map_product/products-of-results-redistributed")
fire("c11-dist-nested-operator-form", ["C11"], DSF,
     "                       dist(pymbolic.flattened_product(\n"
     "                           [*leading, sumchild, rest]))\n",
     "                       dist(pymbolic.flattened_product(leading)\n"
     "                            * (sumchild * rest))\n",
     "P/DistributeMapper/map_product/products-of-results-redistributed")
silent("c11-dist-nested-flattened-form", ["C11"], DSF,
       "                       dist(pymbolic.flattened_product(\n"
       "                           [*leading, sumchild, rest]))\n",
       "                       dist(pymbolic.flattened_product(\n"
       "                           [pymbolic.flattened_product(leading),\n"
       "                            sumchild * rest]))\n")
fire("c11-dist-rest-not-redistributed", ["C11"], DSF,
     "                       dist(pymbolic.flattened_product(\n"
     "                           [*leading, sumchild, rest]))\n",
     "                       pymbolic.flattened_product(\n"
     "                           [*leading, sumchild, rest])\n",
     "P/DistributeMapper/map_product/products-of-results-redistributed")

fire_multi("c11-power-of-power-kept", ["C11"], DSF, [
    ("        if isinstance(newbase, Power) and isinstance(expr.exponent, int) \\\n"
     "                and isinstance(newbase.exponent, int):\n",
     "        if False:\n")],
    "P/DistributeMapper/map_power/mapped-base-Power-rewritten")
fire("c11-power-of-product-kept-for-int", ["C11"], DSF,
     "        if isinstance(newbase, Product):\n"
     "            return self.rec(pymbolic.flattened_product([\n",
     "        if isinstance(newbase, Product) and not isinstance(expr.exponent, int):\n"
     "            return self.rec(pymbolic.flattened_product([\n",
     "P/DistributeMapper/map_power/mapped-base-Product-rewritten")
silent("c11-power-of-product-only-positive-int", ["C11"], DSF,
       "        if isinstance(newbase, Product):\n"
       "            return self.rec(pymbolic.flattened_product([\n",
       "        if isinstance(newbase, Product) and isinstance(expr.exponent, int) \\\n"
       "                and expr.exponent > 0:\n"
       "            return self.rec(pymbolic.flattened_product([\n")
silent_multi("c11-power-cases-reordered", ["C11"], DSF, [
    ("        if isinstance(newbase, Power) and isinstance(expr.exponent, int) \\\n"
     "                and isinstance(newbase.exponent, int):\n",
     "        int_exponent = isinstance(expr.exponent, int)\n"
     "        if int_exponent and isinstance(newbase, Power) \\\n"
     "                and isinstance(newbase.exponent, int):\n"),
    ("        if isinstance(expr.exponent, int) and expr.exponent > 0:\n",
     "        if int_exponent and not expr.exponent <= 0:\n")])

POLY = "pymbolic/polynomial.py"
RAT = "pymbolic/rational.py"
fire("c01-polynomial-setattr-guard-removed", ["C01"], POLY,
     "        def __setattr__(self, name, value):\n"
     "            raise AttributeError(f\"cannot assign to field '{name}'\")\n",
     "        def __setattr__(self, name, value):\n"
     "            object.__setattr__(self, name, value)\n",
     "Polynomial")
silent("c01-rational-guard-lets-private-names-through", ["C01"], RAT,
     "        def __setattr__(self, name, value):\n"
     "            raise AttributeError(f\"cannot assign to field '{name}'\")\n",
     "        def __setattr__(self, name, value):\n"
     "            if name.startswith(\"_\"):\n"
     "                return object.__setattr__(self, name, value)\n"
     "            raise AttributeError(f\"cannot assign to field '{name}'\")\n")
silent("c01-rational-guard-unconditional", ["C01"], RAT,
       "    if __debug__:\n"
       "        # immutable, like the dataclass-based expression nodes\n"
       "        def __setattr__(self, name, value):\n"
       "            raise AttributeError(f\"cannot assign to field '{name}'\")\n\n"
       "        def __delattr__(self, name):\n"
       "            raise AttributeError(f\"cannot delete field '{name}'\")\n",
       "    def __setattr__(self, name, value):\n"
       "        raise AttributeError(f\"cannot assign to field '{name}'\")\n\n"
       "    def __delattr__(self, name):\n"
       "        raise AttributeError(f\"cannot delete field '{name}'\")\n")

fire("c01-rational-guard-lets-fields-through", ["C01"], RAT,
     "        def __setattr__(self, name, value):\n"
     "            raise AttributeError(f\"cannot assign to field '{name}'\")\n",
     "        def __setattr__(self, name, value):\n"
     "            if name[0].isupper():\n"
     "                return object.__setattr__(self, name, value)\n"
     "            raise AttributeError(f\"cannot assign to field '{name}'\")\n",
     "Rational")

fire("c19-polynomial-rsub-swapped", ["C19"], POLY,
     "    def __rsub__(self, other):\n        return (-self)+other\n",
     "    def __rsub__(self, other):\n        return (-other)+self\n",
     "E/Polynomial.__rsub__/signs")
silent("c19-polynomial-rsub-method-form", ["C19"], POLY,
       "    def __rsub__(self, other):\n        return (-self)+other\n",
       "    def __rsub__(self, other):\n        return -(self.__sub__(other))\n")
fire("c19-rational-sub-adds", ["C19"], RAT,
     "    def __sub__(self, other):\n        return self.__add__(-other)\n",
     "    def __sub__(self, other):\n        return self.__add__(other)\n",
     "E/Rational.__sub__/signs")
fire("c19-rational-rsub-forgets-negation", ["C19"], RAT,
     "        return (-self).__radd__(other)\n",
     "        return self.__radd__(-other)\n",
     "E/Rational.__rsub__/signs")

fire("c06-lone-colon-one-part", ["C06"], PF,
     "                left_exp = primitives.Slice((None, None))\n",
     "                left_exp = primitives.Slice((None,))\n",
     "T/roundtrip/Subscript-slice:")
fire("c06-trailing-colon-three-parts", ["C06"], PF,
     "                left_exp = primitives.Slice((left_exp, None,))\n",
     "                left_exp = primitives.Slice((left_exp, None, None))\n",
     "T/roundtrip/Subscript-slice:")

IA = "pymbolic/interop/ast.py"
fire("c07-chain-links-share-first-operand", ["C07"], PF,
     "                links.append(Comparison(left_exp, comp, right_exp))\n"
     "                left_exp = right_exp\n",
     "                links.append(Comparison(left_exp, comp, right_exp))\n",
     "T/parser/comparison-chain/links-share-operand")
fire("c07-chain-joined-by-or", ["C07"], PF,
     "            left_exp = links[0] if len(links) == 1 else LogicalAnd(tuple(links))\n",
     "            left_exp = links[0] if len(links) == 1 else LogicalOr(tuple(links))\n",
     "T/pygrammar/")
fire("c07-chain-operator-read-after-advance", ["C07"], PF,
     "                comp = self._COMP_TABLE[pstate.next_tag()]\n"
     "                pstate.advance()\n",
     "                pstate.advance()\n"
     "                comp = self._COMP_TABLE[pstate.next_tag()]\n",
     "T/parser/comparison-chain/operator-token")
fire("c07-importer-chain-pairs-with-first-operand", ["C07"], IA,
     "        for left, op, right in zip(operands, expr.ops, operands[1:]):\n",
     "        for left, op, right in zip(operands[:1]*len(expr.ops), expr.ops, operands[1:]):\n",
     "T/importer/map_Compare")
fire("c07-importer-chain-or", ["C07"], IA,
     "        return links[0] if len(links) == 1 else p.LogicalAnd(tuple(links))\n",
     "        return links[0] if len(links) == 1 else p.LogicalOr(tuple(links))\n",
     "T/importer/map_Compare")
silent_multi("c07-chain-renamed-locals", ["C07", "C06"], PF, [
    ("            links = []\n", "            chain = []\n"),
    ("                links.append(Comparison(left_exp, comp, right_exp))\n",
     "                chain.append(Comparison(left_exp, comp, right_exp))\n"),
    ("            left_exp = links[0] if len(links) == 1 else LogicalAnd(tuple(links))\n",
     "            left_exp = chain[0] if len(chain) == 1 else LogicalAnd(tuple(chain))\n")])

silent("c13-setstate-unpacks-state", ["C13", "C17"], CO,
       "    def __setstate__(self, state):\n        self._compile(*state)\n",
       "    def __setstate__(self, state):\n"
       "        self._compile(state[0], state[1])\n")
fire("c13-setstate-swaps-state", ["C13", "C17"], CO,
     "    def __setstate__(self, state):\n        self._compile(*state)\n",
     "    def __setstate__(self, state):\n"
     "        self._compile(state[1], state[0])\n",
     "pickle-state")

fire("c04-cse-zero-test-before-unchanged-test", ["C04", "C08"], MI,
     "        if result is expr.child:\n            return expr\n"
     "        if is_zero(result):\n            return 0\n",
     "        if is_zero(result):\n            return 0\n"
     "        if result is expr.child:\n            return expr\n",
     "return-zero")
silent("c04-cse-zero-test-in-else", ["C04", "C08"], MI,
       "        if result is expr.child:\n            return expr\n"
       "        if is_zero(result):\n            return 0\n",
       "        if result is not expr.child and is_zero(result):\n            return 0\n"
       "        if result is expr.child:\n            return expr\n")

DIF = "pymbolic/mapper/differentiator.py"
fire("c10-copysign-ignores-argument-index", ["C10"], DIF,
     "            if i == 0:\n"
     "                # copysign(u, v) is fabs(u)*sign(v)\n"
     "                from pymbolic.functions import sign\n"
     "                return sign(pars[0])*sign(pars[1])\n"
     "            return 0\n",
     "            return 0\n",
     "E/table/copysign")
fire("c10-copysign-indices-swapped", ["C10"], DIF,
     "            if i == 0:\n                # copysign(u, v) is fabs(u)*sign(v)\n",
     "            if i == 1:\n                # copysign(u, v) is fabs(u)*sign(v)\n",
     "E/table/copysign")
silent("c10-copysign-index-test-negated", ["C10"], DIF,
       "            if i == 0:\n"
       "                # copysign(u, v) is fabs(u)*sign(v)\n"
       "                from pymbolic.functions import sign\n"
       "                return sign(pars[0])*sign(pars[1])\n"
       "            return 0\n",
       "            if i != 0:\n"
       "                return 0\n"
       "            from pymbolic.functions import sign\n"
       "            return sign(pars[1])*sign(pars[0])\n")

fire("c07-true-without-word-boundary", ["C07"], PF,
     "            (_true, pytools.lex.RE(r\"True\\b\")),\n",
     "            (_true, pytools.lex.RE(r\"True\")),\n",
     "T/lexer/word-boundary:True")
fire("c07-trailing-comma-only-before-paren", ["C07"], PF,
     "            if pstate.is_at_end() or pstate.next_tag() in (\n"
     "                    _closepar, _closebracket):\n",
     "            if pstate.is_at_end() or pstate.next_tag() is _closepar:\n",
     "T/pygrammar/o[a,]")

fire("c12-csemapper-plain-wrapper-not-registered", ["C12"], CSF,
     "            result = prim.wrap_in_cse(self.rec(expr.child), expr.prefix)\n"
     "            self.canonical_subexprs[key] = result\n"
     "            return result\n",
     "            result = prim.wrap_in_cse(self.rec(expr.child), expr.prefix)\n"
     "            return result\n",
     "shares-with-bare-occurrences")
fire("c12-csemapper-plain-wrapper-keyed-by-wrapper", ["C12"], CSF,
     "            key = self.get_key(expr.child)\n",
     "            key = self.get_key(expr)\n",
     "shares-with-bare-occurrences")
silent("c12-csemapper-plain-wrapper-get-form", ["C12"], CSF,
       "            try:\n"
       "                return self.canonical_subexprs[key]\n"
       "            except KeyError:\n"
       "                pass\n\n"
       "            result = prim.wrap_in_cse(self.rec(expr.child), expr.prefix)\n"
       "            self.canonical_subexprs[key] = result\n"
       "            return result\n",
       "            if key in self.canonical_subexprs:\n"
       "                return self.canonical_subexprs[key]\n\n"
       "            self.canonical_subexprs[key] = prim.wrap_in_cse(\n"
       "                    self.rec(expr.child), expr.prefix)\n"
       "            return self.canonical_subexprs[key]\n")

fire("c17-polynomial-init-arg-names-reordered", ["C17"], POLY,
     "    init_arg_names = (\"Base\", \"Data\", \"Unit\", \"VarLess\")\n",
     "    init_arg_names = (\"Base\", \"Unit\", \"Data\", \"VarLess\")\n",
     "S/legacy-state/Polynomial/init_arg_names")
fire("c17-rational-init-arg-names-missing", ["C17"], RAT,
     "    init_arg_names = (\"Numerator\", \"Denominator\")\n",
     "",
     "S/legacy-state/Rational/init_arg_names")

fire("c01-polynomial-eq-isinstance", ["C01"], POLY,
     "        return (type(other) is type(self)\n",
     "        return (isinstance(other, Polynomial)\n",
     "S/legacy/Polynomial/eq-requires-hashed-class")
fire("c01-polynomial-hash-uses-uncompared-attribute", ["C01"], POLY,
     "        return hash((type(self).__name__, self.Base, self.Data))\n",
     "        return hash((type(self).__name__, self.Base, self.Data, self.Unit))\n",
     "S/legacy/Polynomial/eq-compares-hashed-attributes")
silent("c01-polynomial-eq-class-attribute-form", ["C01"], POLY,
       "        return (type(other) is type(self)\n",
       "        return (type(self) is type(other)\n")

fire("c03-add-refuses-bool", ["C03"], PR,
     "    def __add__(self, other: object) -> ArithmeticExpressionT:\n"
     "        if not is_valid_operand(other):\n",
     "    def __add__(self, other: object) -> ArithmeticExpressionT:\n"
     "        if not is_arithmetic_expression(other):\n",
     "S/Expression.__add__/admits-boolean-operands")
fire("c03-rmul-asserts-number", ["C03"], PR,
     "    def __rmul__(self, other: object) -> ArithmeticExpressionT:\n"
     "        if not is_constant(other):\n"
     "            return NotImplemented\n",
     "    def __rmul__(self, other: object) -> ArithmeticExpressionT:\n"
     "        if not is_number(other):\n"
     "            return NotImplemented\n",
     "S/Expression.__rmul__/admits-boolean-operands")

CCF = "pymbolic/mapper/c_code.py"
fire("c14-int-quotient-integer-division", ["C14"], CCF,
     "                        repr(float(expr.numerator)),\n",
     "                        repr(expr.numerator),\n",
     "T/c-types/true-division-of-integer-constants")

MPI = "pymbolic/interop/matchpy/__init__.py"
MPT = "pymbolic/interop/matchpy/tofrom.py"
fire("c16-tupleop-generated-init", ["C16"], MPI,
     "    def __init__(self, *operands, variable_name=None):\n"
     "        # matchpy rebuilds operations as type(op)(*new_operands,\n"
     "        # variable_name=...), so the operands arrive unpacked.\n"
     "        object.__setattr__(self, \"_operands\", tuple(operands))\n"
     "        object.__setattr__(self, \"variable_name\", variable_name)\n\n",
     "",
     "S/matchpy/TupleOp/rebuildable-from-unpacked-operands")
fire("c16-tupleop-built-from-one-tuple", ["C16"], MPT,
     "                      m.TupleOp(*[self.rec(p)\n"
     "                                  for p in expr.parameters]))",
     "                      m.TupleOp(tuple(self.rec(p)\n"
     "                                      for p in expr.parameters)))",
     "S/matchpy/tuple-op/construction-agrees-with-init")

fire("c16-match-converts-bindings-directly", ["C16"], MPI,
     "        yield {name: from_matchpy_binding(from_matchpy_expr, expr)\n"
     "               for name, expr in subst.items()}\n",
     "        yield {name: from_matchpy_expr(expr)\n"
     "               for name, expr in subst.items()}\n",
     "S/matchpy/match/bindings-converted-like-replacement")
fire("c16-binding-converter-drops-multiset-counts", ["C16"], MPT,
     "        return multiset.Multiset({from_matchpy_expr(expr): count\n"
     "                                  for expr, count in arg.items()})\n",
     "        return multiset.Multiset({from_matchpy_expr(expr): 1\n"
     "                                  for expr, count in arg.items()})\n",
     "T/matchpy/replacement/multiset/binding-converted")

fire_multi("c05-optimizer-leaves-dropped-names", ["C05"], OPF, [
    ("    def visit_Name(self, node):  # noqa: N802\n"
     "        # What is left of a dropped *args/**kwargs parameter in the body\n"
     "        # (e.g. in the default get_cache_key) is empty.\n"
     "        if isinstance(node.ctx, ast.Load):\n"
     "            if self.drop_args and node.id == self.vararg_name:\n"
     "                return ast.Tuple(elts=[], ctx=ast.Load())\n"
     "            if self.drop_kwargs and node.id == self.kwarg_name:\n"
     "                return ast.Dict(keys=[], values=[])\n"
     "        return node\n", ""),
    ("            vararg_name = mdef.args.vararg.arg if mdef.args.vararg else None\n"
     "            kwarg_name = mdef.args.kwarg.arg if mdef.args.kwarg else None\n",
     "            vararg_name = kwarg_name = None\n")],
    "T/optimizer/dropped-parameters-rewritten-in-bodies")

fire("c05-optimizer-temporaries-plain-names", ["C05"], OPF,
     "_TMP_PREFIX = \"_pymbolic_opt_\"\n",
     "_TMP_PREFIX = \"\"\n",
     "T/optimizer/temporaries-cannot-capture-locals")

# ---- round 3 of seeded changes / clean-tree findings -----------------------
fire("c09-descend-args-skips-computed-head", ["C09"], "pymbolic/mapper/dependency.py",
     "                    self._rec_computed_head(expr, *args, **kwargs)\n"
     "                    + [self.rec(child, *args, **kwargs)\n"
     "                        for child in expr.parameters])",
     "                    [self.rec(child, *args, **kwargs)\n"
     "                        for child in expr.parameters])",
     "T/DependencyMapper/map_call/descend-args/computed-head")
fire("c20-stream-b-walked-twice", ["C20"], "pymbolic/imperative/transform.py",
     "    # walked twice below: may be a one-shot iterable\n    statements_b = list(statements_b)\n",
     "",
     "P/disambiguate_identifiers/stream-walked-once:statements_b")
fire("c20-dot-edges-unquoted", ["C20"], "pymbolic/imperative/utils.py",
     """            lines.append(f'"{stmt_1}" -> "{stmt_2}"')""",
     """            lines.append(f"{stmt_1} -> {stmt_2}")""",
     "T/dot/edge-ids-spelled-like-node-ids")
silent("c20-silent-streams-materialised-as-tuples", ["C20"], "pymbolic/imperative/transform.py",
       "    statements_b = list(statements_b)\n\n    id_a",
       "    statements_b = tuple(statements_b)\n\n    id_a")
fire("c17-parsed-list-hash-memoized", ["C17"], "pymbolic/parser.py",
     "    def __hash__(self) -> int:  # type: ignore[override]\n        result = hash(type(self).__name__)",
     "    @pytools.memoize_method\n    def __hash__(self) -> int:  # type: ignore[override]\n        result = hash(type(self).__name__)",
     "S/pickle/memoized-hash/FinalizedList")
fire("c08-revert-substitute-own-dict", ["C08"], "pymbolic/mapper/substitutor.py",
     "    variable_assignments = dict(variable_assignments)\n",
     "    variable_assignments = variable_assignments.copy()\n",
     "P0/substitute/table-semantics")
fire("c15-revert-solver-composite-parameters", ["C15"], "pymbolic/algorithm.py",
     "        if inner_dep_map(param) & unknowns_set:\n            raise RuntimeError(",
     "        if inner_dep_map(param) & unknowns_set:\n            warn(",
     "P/solve_affine/composite-parameters-free-of-unknowns")
fire("c19-fft-twiddle-ignores-sign", ["C19"], "pymbolic/algorithm.py",
     "                    sign*-2j*pi*n1/(N1*N2)",
     "                    -2j*pi*n1/(N1*N2)",
     "P/fft/equals-the-dft-definition")
fire("c19-fft-butterfly-wrong-stride", ["C19"], "pymbolic/algorithm.py",
     "                fft(x[n1::N1], sign,",
     "                fft(x[n1::N2], sign,",
     "P/fft/equals-the-dft-definition")
fire("c19-ifft-forgets-sign", ["C19"], "pymbolic/algorithm.py",
     "    return (1/len(x))*fft(x, sign=-1, wrap_intermediate=wrap_intermediate,",
     "    return (1/len(x))*fft(x, sign=1, wrap_intermediate=wrap_intermediate,",
     "P/fft/equals-the-dft-definition")
fire("c19-integer-power-starts-from-x", ["C19"], "pymbolic/algorithm.py",
     "    aux = one\n\n    while n > 0:",
     "    aux = x\n    n -= 1\n\n    while n > 0:",
     "P/integer_power/value")
fire("c19-integer-power-inplace-again", ["C19"], "pymbolic/algorithm.py",
     "            aux = aux * x\n",
     "            aux *= x\n",
     "T/integer_power/arguments-not-updated-in-place")
fire("c19-integer-power-no-squaring", ["C19"], "pymbolic/algorithm.py",
     "        x = x * x\n        n //= 2",
     "        n //= 2",
     "P/integer_power/value")
fire("c19-euclid-cofactors-swapped", ["C19"], "pymbolic/algorithm.py",
     "    return q, Q[0], Q[1]",
     "    return q, Q[1], Q[0]",
     "P/extended_euclidean/bezout")
fire("c19-euclid-update-uses-wrong-row", ["C19"], "pymbolic/algorithm.py",
     "        T = Q[0] - quot*R[0], Q[1] - quot*R[1]  # noqa",
     "        T = Q[0] - quot*R[0], Q[1] - quot*R[0]  # noqa",
     "P/extended_euclidean/bezout")
fire("c19-horner-drops-last-factor", ["C19"], "pymbolic/mapper/evaluator.py",
     "            else:\n                next_exp = 0\n            result = (result+self.rec(coeff))",
     "            else:\n                next_exp = exp\n            result = (result+self.rec(coeff))",
     "P/EvaluationMapper.map_polynomial/value")
fire("c19-horner-coefficient-unevaluated", ["C19"], "pymbolic/mapper/evaluator.py",
     "            result = (result+self.rec(coeff))*ev_base**(exp-next_exp)",
     "            result = (result+coeff)*ev_base**(exp-next_exp)",
     "P/EvaluationMapper.map_polynomial/value")
fire("c19-polynomial-mul-skips-merge", ["C19"], "pymbolic/polynomial.py",
     "        return Polynomial(self.Base, tuple(_sort_uniq(result)))",
     "        return Polynomial(self.Base, tuple(sorted(result, key=lambda t: t[0])))",
     "P/Polynomial/operators-homomorphic")
fire("c19-polynomial-keeps-zero-coefficients", ["C19"], "pymbolic/polynomial.py",
     "            object.__setattr__(self, \"Data\", tuple(\n"
     "                (exp, coeff) for exp, coeff in data if coeff))",
     "            object.__setattr__(self, \"Data\", tuple(data))",
     "P/Polynomial/operators-homomorphic")
fire("c19-polynomial-add-takes-wrong-coefficient", ["C19"], "pymbolic/polynomial.py",
     "                result.append((exp_other, other.Data[i_other][1]))\n                i_other += 1\n            elif",
     "                result.append((exp_other, self.Data[i_self][1]))\n                i_other += 1\n            elif",
     "P/Polynomial/operators-homomorphic")
fire("c13-compiled-horner-drops-last-factor", ["C13"], "pymbolic/compiler.py",
     "            else:\n                next_exp = 0\n            result = \"({}+{}){}\"",
     "            else:\n                next_exp = exp\n            result = \"({}+{}){}\"",
     "P/CompileMapper.map_polynomial/text-value")
fire("c13-compiled-zero-polynomial-empty", ["C13"], "pymbolic/compiler.py",
     "        if not expr.data:\n            # the zero polynomial (e.g. p - p): no terms to write down\n            return \"0\"\n",
     "",
     "P/CompileMapper.map_polynomial/text-value")
silent("c19-silent-integer-power-shift", ["C19"], "pymbolic/algorithm.py",
       "        n //= 2", "        n >>= 1")
silent("c19-silent-integer-power-mod-parity", ["C19"], "pymbolic/algorithm.py",
       "        if n & 1:", "        if n % 2:")
silent("c19-silent-euclid-tuple-unpacked", ["C19"], "pymbolic/algorithm.py",
       "        T = Q[0] - quot*R[0], Q[1] - quot*R[1]  # noqa",
       "        T = (Q[0] - R[0]*quot, Q[1] - R[1]*quot)  # noqa")
fire("c19-sym-fft-wraps-twice-wrong-vector", ["C19"], "pymbolic/algorithm.py",
     "            fft(wrap_intermediate(x), sign=sign,\n                wrap_intermediate=wrap_intermediate))",
     "            fft(wrap_intermediate(x[::-1]), sign=sign,\n                wrap_intermediate=wrap_intermediate))",
     "P/fft/equals-the-dft-definition")
fire("c19-euclid-step-not-unimodular", ["C19"], "pymbolic/algorithm.py",
     "        q, r = r, t\n",
     "        q, r = r, 2*t\n",
     "P/extended_euclidean/")
fire("c19-euclid-returns-penultimate-remainder", ["C19"], "pymbolic/algorithm.py",
     "    return q, Q[0], Q[1]",
     "    return q*q, Q[0]*q, Q[1]*q",
     "P/extended_euclidean/greatest")
fire("c19-lcm-multiplies-by-gcd", ["C19"], "pymbolic/algorithm.py",
     "    return abs(q*r)//g\n",
     "    return abs(q*r)*g\n",
     "P/lcm/consistent-with-gcd")

# ---- C18 (geometric algebra, abstract interpretation) ---------------------
GAF = "pymbolic/geometric_algebra/__init__.py"
fire("c18-reordering-sign-off-by-one", ["C18"], GAF,
     "    a_bits = a_bits >> 1\n    s = 0\n", "    s = 0\n", "P/ga/")
fire("c18-inverse-sign-by-grade-parity", ["C18"], GAF,
     "        if grade*(grade-1)//2 % 2:\n            coeff = -coeff\n",
     "        if grade % 2:\n            coeff = -coeff\n", "P/ga/inv(")
fire("c18-left-contraction-is-right", ["C18"], GAF,
     "        if shared_bits == a_bits:\n            return _shared_metric_coeff(shared_bits, space)",
     "        if shared_bits == b_bits:\n            return _shared_metric_coeff(shared_bits, space)",
     "P/ga/left contraction")
fire("c18-involution-mod-four", ["C18"], GAF,
     "            if grade % 2 == 0:\n                new_data[bits] = coeff",
     "            if grade % 4 == 0:\n                new_data[bits] = coeff",
     "P/ga/invol(")
fire("c18-reverse-sign-rule", ["C18"], GAF,
     "            if grade*(grade-1)//2 % 2 == 0:\n                new_data[bits] = coeff",
     "            if grade*(grade+1)//2 % 2 == 0:\n                new_data[bits] = coeff",
     "P/ga/")
fire("c18-metric-uses-neighbouring-entry", ["C18"], GAF,
     "            result = result * space.metric_matrix[basis_idx, basis_idx]",
     "            result = result * space.metric_matrix[basis_idx, basis_idx-1]",
     "P/ga/")
fire("c18-outer-product-overlap-allowed", ["C18"], GAF,
     "        return int(not a_bits & b_bits)",
     "        return int(not a_bits & b_bits & 1)",
     "P/ga/outer product")
fire("c18-sum-keeps-zero-coefficients", ["C18"], GAF,
     "            if not is_zero(new_coeff):\n                new_data[bits] = new_coeff\n\n        return MultiVector(new_data, self.space)",
     "            new_data[bits] = new_coeff\n\n        return MultiVector(new_data, self.space)",
     "P/ga/__add__/no-zero-coefficients-stored")
fire("c18-eq-compares-space-too", ["C18"], GAF,
     "        return self.data == other.data",
     "        return self.data == other.data and self.space is other.space",
     "S/ga/eq-is-coefficientwise")
fire("c18-hash-mixes-space-identity", ["C18"], GAF,
     "        result = hash(type(self).__name__)\n        for bits, coeff in self.data.items():",
     "        result = hash(self.space)\n        for bits, coeff in self.data.items():",
     "S/ga/hash-reads-coefficients-only")
fire("c18-permutation-sign-never-flips", ["C18"], GAF,
     "            p[i], p[j] = p[j], p[i]\n            s = -s",
     "            p[i], p[j] = p[j], p[i]",
     "P/ga/MultiVector(")
fire("c18-vector-inverse-forgets-norm", ["C18"], GAF,
     "                    bits: coeff/nsqr for bits, coeff in self.data.items()},",
     "                    bits: coeff for bits, coeff in self.data.items()},",
     "P/ga/inv(v)")
fire("c18-scalar-product-of-unequal-blades", ["C18"], GAF,
     "        if a_bits == b_bits:\n            return _shared_metric_coeff(a_bits, space)",
     "        if a_bits & b_bits:\n            return _shared_metric_coeff(a_bits, space)",
     "P/ga/scalar product")
silent("c18-silent-bit-count-builtin", ["C18"], GAF,
       "    count = 0\n    while i:\n        i &= i - 1\n        count += 1\n    return count",
       "    return bin(i).count(\"1\")")
silent("c18-silent-neg-loop", ["C18"], GAF,
       "        return MultiVector(\n                {bits: -coeff\n                    for bits, coeff in self.data.items()},\n                self.space)",
       "        new_data = {}\n        for bits, coeff in self.data.items():\n            new_data[bits] = -coeff\n        return MultiVector(new_data, self.space)")
silent("c18-silent-sub-direct", ["C18"], GAF,
       "        return self + (-other)",
       "        return self.__add__(-other)")

# -- generated-code judge for the optimizer (C05): the expression the inliner
# produces is decided as a dispatch routine, whatever helpers build it
fire("c05-generated-inner-fallback-is-unsupported", ["C05"], OPF,
     "                            func=Name(id=_TMP_PREFIX + \"method\", ctx=Load())),\n"
     "                        orelse=fallback_call),\n",
     "                            func=Name(id=_TMP_PREFIX + \"method\", ctx=Load())),\n"
     "                        orelse=_replace(node, func=Attribute(value=self_sym,\n"
     "                            attr=\"handle_unsupported_expression\", ctx=Load()))),\n",
     "P0/optimizer/generated-code/inline_rec=True,inline_cache=False")
fire("c05-generated-hit-returns-key", ["C05"], OPF,
     "                        body=Name(id=_TMP_PREFIX + \"result\", ctx=Load()),\n",
     "                        body=Name(id=_TMP_PREFIX + \"cache_key\", ctx=Load()),\n",
     "P0/optimizer/generated-code/inline_rec=False,inline_cache=True")
fire("c05-generated-names-its-own-mapper-method", ["C05"], OPF,
     "                            getattr_sym(expr, Constant(value=\"mapper_method\")))),\n",
     "                            getattr_sym(self_sym, Constant(value=\"mapper_method\")))),\n",
     "P0/optimizer/generated-code/inline_rec=True,inline_cache=False")
silent("c05-generated-helpers-at-module-level", ["C05"], OPF,
     "            def expr_assign(name, value):\n"
     "                return NamedExpr(\n"
     "                        target=Name(id=name, ctx=Store()),\n"
     "                        value=value)\n",
     "            expr_assign = lambda name, value: NamedExpr(  # noqa: E731\n"
     "                        target=Name(id=name, ctx=Store()),\n"
     "                        value=value)\n")

# -- compiled polynomials as operands / over a power base (C13; two genuine
# defects of the pinned tree, fixed in 85bbd88 and 94d34a5)
fire("c13-one-term-polynomial-bare-as-operand", ["C13"], "pymbolic/compiler.py",
     "        if enclosing_prec > PREC_SUM:\n            return f\"({result})\"\n",
     "        if enclosing_prec > PREC_SUM and len(expr.data) > 1:\n"
     "            return f\"({result})\"\n",
     "P/CompileMapper.map_polynomial/text-value")
fire("c13-polynomial-power-base-bare", ["C13"], "pymbolic/compiler.py",
     "        sbase = self(expr.base, PREC_POWER + 1)\n",
     "        sbase = self(expr.base, PREC_POWER)\n",
     "P/CompileMapper.map_polynomial/text-value/power-base")

# -- u**1 next to * / % (C14; genuine defect of the pinned tree, fixed in 263d996)
fire("c14-power-one-bare-next-to-product-level", ["C14"],
     "pymbolic/mapper/c_code.py",
     "                return self.rec(expr.base, PREC_POWER)\n",
     "                return self.rec(expr.base, enclosing_prec)\n",
     "T/c-grammar/")

# -- lcm(0, 0), Rational arithmetic (C19; genuine defects of the pinned tree,
# fixed in df987c6, a71da4d, 864c29d)
fire("c19-lcm-zero-pair-divides-by-gcd", ["C19"], "pymbolic/algorithm.py",
     "    g = gcd(q, r)\n    if not g:\n"
     "        # q == r == 0: the only common multiple is 0\n"
     "        return abs(q*r)\n    return abs(q*r)//g\n",
     "    return abs(q*r)//gcd(q, r)\n",
     "P/lcm/zero-pair")
fire("c19-rational-pow-swapped", ["C19"], "pymbolic/rational.py",
     "        return Rational(self.Numerator**other, self.Denominator**other)",
     "        return Rational(self.Denominator**other, self.Numerator**other)",
     "P/Rational.__pow__/componentwise")
fire("c19-rational-mul-true-division", ["C19"], "pymbolic/rational.py",
     "            new_num = (self.Numerator//gcd_1) * (newother.Numerator//gcd_2)",
     "            new_num = (self.Numerator/gcd_1) * (newother.Numerator/gcd_2)",
     "K/Rational.__mul__/no-true-division")
fire("c19-ring-lcm-true-division", ["C19"], "pymbolic/traits.py",
     "        return a * b // cls.gcd(a, b)",
     "        return a * b / cls.gcd(a, b)",
     "K/EuclideanRingTraits.lcm/no-true-division")
silent("c19-lcm-zero-pair-tested-on-operands", ["C19"], "pymbolic/algorithm.py",
     "    g = gcd(q, r)\n    if not g:\n"
     "        # q == r == 0: the only common multiple is 0\n"
     "        return abs(q*r)\n    return abs(q*r)//g\n",
     "    if not q and not r:\n        return 0\n"
     "    return abs(q*r)//gcd(q, r)\n")


# ---------------------------------------------------------------------------
# round 4: each repair of this round reverted (the rule written for it fires)
# ---------------------------------------------------------------------------

fire("r4-c15-leaf-sorted-by-name-again", ["C15"],
     "pymbolic/mapper/coefficient.py",
     "        for dep in DependencyMapper(composite_leaves=False)(expr):\n"
     "            if dep.name in self.target_names:\n"
     "                raise RuntimeError(\"nonlinear expression\")\n",
     "",
     "constant-term-free-of-targets")
fire("r4-c18-constructor-keeps-zero-coefficients", ["C18"],
     "pymbolic/geometric_algebra/__init__.py",
     "            data = {bits: coeff for bits, coeff in data.items()\n"
     "                    if not is_zero(coeff)}\n",
     "            data = dict(data)\n",
     "P/ga/__init__/no-zero-coefficients-kept")
fire("r4-c12-wrap-in-cse-wraps-arrays-whole", ["C12"], PR,
     "        if isinstance(expr, numpy.ndarray):\n"
     "            return make_common_subexpression(expr, prefix)\n",
     "        pass\n",
     "K/wrap_in_cse/componentwise")
fire("r4-c13-rational-operand-bare", ["C13"],
     "pymbolic/mapper/stringifier.py",
     "        if enclosing_prec >= PREC_PRODUCT:\n"
     "            return self.parenthesize(\n"
     "                    self.map_quotient(expr, PREC_NONE, *args, **kwargs))\n"
     "        else:\n"
     "            return self.map_quotient(expr, enclosing_prec, *args, **kwargs)\n",
     "        return self.map_quotient(expr, enclosing_prec, *args, **kwargs)\n",
     "T/py-source/Quotient.denominator<-Rational")
fire("r4-c13-numpy-integers-by-repr", ["C13"], "pymbolic/compiler.py",
     "            elif isinstance(expr, numpy.bool_):\n"
     "                expr = bool(expr)\n"
     "            elif isinstance(expr, numpy.integer):\n"
     "                # (numpy 2 writes these as 'np.int64(3)')\n"
     "                expr = int(expr)\n",
     "",
     "T/compile/map_constant/numpy-normalised")
fire("r4-c11-quotient-product-not-redistributed", ["C11"],
     "pymbolic/mapper/distributor.py",
     "            return self.rec(pymbolic.flattened_product([\n"
     "                    type(expr)(1, self.rec(expr.denominator)),\n"
     "                    self.rec(expr.numerator)\n"
     "                    ]))\n",
     "            return pymbolic.flattened_product([\n"
     "                    type(expr)(1, self.rec(expr.denominator)),\n"
     "                    self.rec(expr.numerator)\n"
     "                    ])\n",
     "product-of-mapped-child-redistributed")
fire("r4-c13-exporter-name-without-ctx", ["C13"], "pymbolic/interop/ast.py",
     "        return ast.Name(id=expr.name, ctx=ast.Load())",
     "        return ast.Name(id=expr.name)",
     "X2/exporter/ast-nodes-carry-ctx")
fire("r4-c17-multivector-digest-in-insertion-order", ["C17"],
     "pymbolic/mapper/persistent_hash.py",
     "            for bits, coeff in sorted(expr.data.items()):",
     "            for bits, coeff in expr.data.items():",
     "S/digest/MultiVector.data/canonical-order")
# ... and a few of the new rules on edits of their own
fire("r4-c03-registry-snapshot-as-default-argument", ["C03"], PR,
     "def is_constant(value: object) -> TypeIs[ScalarT]:\n"
     "    return isinstance(value, VALID_CONSTANT_CLASSES)",
     "def is_constant(value: object, _classes=VALID_CONSTANT_CLASSES"
     ") -> TypeIs[ScalarT]:\n"
     "    return isinstance(value, _classes)",
     "O/registry/VALID_CONSTANT_CLASSES/no-derived-snapshot")
fire("r4-c05-cse-table-from-class-attribute", ["C05"], MI,
     "            ccd = self._cse_cache_dict = {}",
     "            ccd = self._cse_cache_dict = type(self).__dict__.get(\n"
     "                \"_shared_cse_table\", {})",
     "O/cse-mixin/table-created-fresh")
silent("r4-c05-cse-table-dict-call", ["C05", "C12"], MI,
       "            ccd = self._cse_cache_dict = {}",
       "            ccd = self._cse_cache_dict = dict()")
silent("r4-c07-parser-scratch-state-restored", ["C07"], "pymbolic/parser.py",
       "    def parse_expression(self, pstate, min_precedence=0):\n"
       "        left_exp = self.parse_prefix(pstate)\n",
       "    def parse_expression(self, pstate, min_precedence=0):\n"
       "        self._depth = getattr(self, \"_depth\", 0) + 1\n"
       "        try:\n"
       "            left_exp = self.parse_prefix(pstate)\n"
       "        finally:\n"
       "            self._depth -= 1\n")


# round 8: a key that names only some attributes of a parameter covers only
# those (the seed C18-r8m2 is the attribute flavour; this is the whole-object one)
fire("c18-memo-key-names-one-attribute-of-the-space", ["C18"],
     "pymbolic/geometric_algebra/__init__.py",
     "def _shared_metric_coeff(shared_bits, space):\n    result = 1\n",
     "_smc_table = {}\n\n\n"
     "def _shared_metric_coeff(shared_bits, space):\n"
     "    k = (shared_bits, space.dimensions)\n"
     "    if k in _smc_table:\n"
     "        return _smc_table[k]\n"
     "    _smc_table[k] = _smc_inner(shared_bits, space)\n"
     "    return _smc_table[k]\n\n\n"
     "def _smc_inner(shared_bits, space):\n    result = 1\n",
     "O/memo/geometric_algebra:_smc_table/key-covers-inputs:_shared_metric_coeff")
