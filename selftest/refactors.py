#!/usr/bin/env python3
"""Regression over /verif/refactors and /verif/neutral: behaviour-preserving
refactorings of the anchored code (each confirmed: unedited suite passes, the
author's comparison script gives identical results on the clean and the patched
tree) and behaviour-CHANGING patches that keep every property true (each
confirmed: suite passes, the author's differs.py sees the new behaviour, the
author's holds.py exercises the property on both trees), all written by
independent sub-agents.  Every check must stay silent (exit 0) on each of
them; an ANALYSIS-ERROR (exit 2) is listed separately -- it is not an alarm, but
it means the checker can no longer read the code.

usage: selftest/refactors.py [--only substring] [--props C04,C08] [-v]
"""
from __future__ import annotations

import argparse
import contextlib
import glob
import io
import os
import shutil
import subprocess
import sys
import tempfile
from concurrent.futures import ProcessPoolExecutor

HERE = os.path.dirname(os.path.abspath(__file__))
ROOT = os.path.dirname(HERE)
sys.path.insert(0, ROOT)

ALL = ["C01", "C02", "C03", "C04", "C05", "C06", "C07", "C08", "C09", "C10",
       "C11", "C12", "C13", "C14", "C15", "C16", "C17", "C18", "C19", "C20"]
PROPS = ALL


def corpus_dirs(only=None):
    """refactors/ = behaviour-preserving rewrites; neutral/ = behaviour-changing
    patches that leave every property true.  Both must leave every check silent."""
    out = []
    for sub in ("refactors", "neutral"):
        out += [d for d in glob.glob(os.path.join(ROOT, sub, "*"))
                if os.path.isfile(os.path.join(d, "patch.diff"))
                and (not only or only in d)]
    return sorted(out)


def load_open():
    """(patch name, property) pairs on which the checker is *known* to trip
    although the property holds: open weaknesses of the checker (listed in
    selftest/open_alarms.json with the exit code seen, described in DESIGN.md
    11.10).  They are reported as OPEN, never hidden, and do not fail the
    regression; an entry that no longer trips is reported as CLOSED."""
    import json
    fn = os.path.join(HERE, "open_alarms.json")
    if not os.path.exists(fn):
        return {}
    return {(e["patch"], e["property"]): e["exit"]
            for e in json.load(open(fn))["open"]}


def run_one(arg):
    d, props = arg
    from pv.cli import run_property
    repo = os.environ.get("PV_REPO", "/repo")
    root = tempfile.mkdtemp(prefix="pv-refac-")
    name = os.path.basename(d)
    try:
        shutil.copytree(os.path.join(repo, "pymbolic"),
                        os.path.join(root, "pymbolic"),
                        ignore=shutil.ignore_patterns("__pycache__"))
        r = subprocess.run(["patch", "-p1", "-s", "-i",
                            os.path.join(d, "patch.diff")], cwd=root,
                           capture_output=True, text=True)
        if r.returncode != 0:
            return name, None, "patch does not apply"
        res = []
        for p in props:
            buf = io.StringIO()
            with contextlib.redirect_stdout(buf):
                rc = run_property(p, "quick", None, False, root)
            if rc != 0:
                lines = [ln for ln in buf.getvalue().splitlines()
                         if ln.startswith("    ") or "ANALYSIS-ERROR" in ln]
                res.append((p, rc, lines[:4]))
        return name, res, ""
    finally:
        shutil.rmtree(root, ignore_errors=True)


def main(argv=None):
    ap = argparse.ArgumentParser()
    ap.add_argument("--only")
    ap.add_argument("--props")
    ap.add_argument("-v", action="store_true")
    args = ap.parse_args(argv)
    props = args.props.split(",") if args.props else ALL
    dirs = corpus_dirs(args.only)
    alarms = errors = n_open = 0
    open_ = load_open()
    seen_open = set()
    with ProcessPoolExecutor(max_workers=min(16, os.cpu_count() or 4)) as ex:
        for name, res, msg in ex.map(run_one, [(d, props) for d in dirs]):
            if res is None:
                print(f"SKIP  {name}: {msg}")
                continue
            for p, rc, lines in res:
                if (name, p) in open_:
                    n_open += 1
                    seen_open.add((name, p))
                    if args.v:
                        print(f"OPEN  {name}: {p} exit {rc}")
                    continue
                if rc == 1:
                    alarms += 1
                    print(f"ALARM {name}: {p} exit 1")
                else:
                    errors += 1
                    print(f"ERR2  {name}: {p} exit {rc}")
                if args.v:
                    for ln in lines:
                        print("        " + ln.strip()[:230])
    if not args.only and not args.props:
        for k in sorted(set(open_) - seen_open):
            print(f"CLOSED {k[0]}: {k[1]} no longer trips (remove it from "
                  "open_alarms.json)")
    print(f"refactors: {len(dirs)} refactorings x {len(props)} checks, "
          f"{alarms} false alarms, {errors} analysis errors"
          + (f" ({n_open} open weaknesses of the checker, listed in "
             "selftest/open_alarms.json)" if n_open else ""))
    return 1 if alarms else 0


if __name__ == "__main__":
    sys.exit(main())
