#!/usr/bin/env python3
"""Regression over /verif/seeded: every stored change must still be reported by
the check of the property it breaks (exit 1 with a VIOLATION line), on a scratch
copy of /repo's package with the patch applied (removed immediately).

A seed whose meta.json says `"expected_exit": 2` is one the checker refuses to
pass without being able to name a violation (ANALYSIS-ERROR).

usage: selftest/seeds.py [--only substring] [-v]
"""
from __future__ import annotations

import argparse
import contextlib
import glob
import io
import json
import os
import shutil
import subprocess
import sys
import tempfile
from concurrent.futures import ProcessPoolExecutor

HERE = os.path.dirname(os.path.abspath(__file__))
ROOT = os.path.dirname(HERE)
sys.path.insert(0, ROOT)


def run_one(d):
    from pv.cli import run_property
    meta = json.load(open(os.path.join(d, "meta.json")))
    repo = os.environ.get("PV_REPO", "/repo")
    root = tempfile.mkdtemp(prefix="pv-seed-")
    try:
        shutil.copytree(os.path.join(repo, "pymbolic"),
                        os.path.join(root, "pymbolic"),
                        ignore=shutil.ignore_patterns("__pycache__"))
        r = subprocess.run(["patch", "-p1", "-s", "-i",
                            os.path.join(d, "patch.diff")], cwd=root,
                           capture_output=True, text=True)
        if r.returncode != 0:
            return meta["id"], None, "patch does not apply: " + r.stdout[-300:]
        buf = io.StringIO()
        with contextlib.redirect_stdout(buf):
            rc = run_property(meta["property"], "quick", None, False, root)
        return meta["id"], rc, buf.getvalue()
    finally:
        shutil.rmtree(root, ignore_errors=True)


def main(argv=None):
    ap = argparse.ArgumentParser()
    ap.add_argument("--only")
    ap.add_argument("-v", action="store_true")
    args = ap.parse_args(argv)
    dirs = sorted(d for d in glob.glob(os.path.join(ROOT, "seeded", "*"))
                  if os.path.isdir(d) and (not args.only or args.only in d))
    want = {}
    for d in dirs:
        m = json.load(open(os.path.join(d, "meta.json")))
        want[m["id"]] = m.get("expected_exit", 1)
    bad = 0
    with ProcessPoolExecutor(max_workers=min(16, os.cpu_count() or 4)) as ex:
        for sid, rc, out in ex.map(run_one, dirs):
            ok = rc == want[sid]
            if not ok:
                bad += 1
                print(f"FAIL  {sid}: expected exit {want[sid]}, got {rc}")
                print("\n".join(out.strip().splitlines()[-6:]))
            elif args.v:
                line = [ln for ln in out.splitlines() if ln.startswith("    ")
                        or ln.startswith("ANALYSIS-ERROR")]
                print(f"ok    {sid}: {line[0].strip()[:110] if line else ''}")
    print(f"seeds: {len(dirs)} stored changes, {bad} not reported as recorded")
    return 1 if bad else 0


if __name__ == "__main__":
    sys.exit(main())
