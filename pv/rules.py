"""Rule families shared by the property checks (DESIGN.md section 4)."""
from __future__ import annotations

import ast

from . import AnalysisError
from . import cfg
from .model import (CHILD, CHILD_MAP, CHILD_TUPLE, DATA, ClassInfo, Model,
                    NodeClass, always_raises, body_without_docstring,
                    resolve_handler)
from .summary import (NODE, Evaluator, base_field, contains, mentioned_fields,
                      rec_fields, signature, summarize)

# Legacy (init-args protocol) node classes: which stored attributes hold
# sub-expressions.  Read by hand from the three class definitions.
LEGACY_CHILDREN = {
    "Polynomial": {"Base": CHILD, "Data": "child-pairs"},
    "Rational": {"Numerator": CHILD, "Denominator": CHILD},
    "MultiVector": {"data": CHILD_MAP},
}


def child_kinds(n: NodeClass) -> dict:
    """field -> kind for the fields that hold sub-expressions"""
    if n.legacy:
        return dict(LEGACY_CHILDREN.get(n.name, {}))
    return {f: k for f, k, _ in n.fields if k != DATA}


def node_fields(n: NodeClass) -> set:
    s = set(n.field_names)
    if n.legacy:
        s |= set(LEGACY_CHILDREN.get(n.name, {}))
    return s


# ---------------------------------------------------------------------------
# property expansion
# ---------------------------------------------------------------------------

def make_props(model: Model, n: NodeClass, assume_len=None):
    """name -> callable(evaluator) returning the abstract value of the
    property, obtained by evaluating the property body with self = node."""
    props = {}
    fields = node_fields(n)
    for k in model.mro(n.cls):
        if not isinstance(k, ClassInfo):
            continue
        for name, mem in k.members.items():
            if name in props or name in fields:
                continue
            fn = None
            if mem.kind == "func" and "property" in mem.decorators:
                fn = mem.node
            elif mem.kind == "value" and isinstance(mem.node, ast.Call) \
                    and isinstance(mem.node.func, ast.Name) \
                    and mem.node.func.id == "property" and mem.node.args \
                    and isinstance(mem.node.args[0], ast.Name):
                g = k.members.get(mem.node.args[0].id)
                if g is not None and g.kind == "func":
                    fn = g.node
            if fn is None:
                continue

            def expand(evaluator, fn=fn):
                vals = []
                for ps in summarize(fn, fields=fields, props={},
                                    assume_len=evaluator.assume_len,
                                    self_is_node=True):
                    if ps.term == "return" and ps.retval not in vals:
                        vals.append(ps.retval)
                if len(vals) == 1:
                    return vals[0]
                return ("oneof", tuple(vals))
            props[name] = expand
    return props


def handler_summaries(model, n: NodeClass, fn, loop_mode="1", assume_len=None):
    return summarize(fn, fields=node_fields(n),
                     props=make_props(model, n, assume_len),
                     loop_mode=loop_mode, assume_len=assume_len)


# ---------------------------------------------------------------------------
# pairs in scope
# ---------------------------------------------------------------------------

def mapper_node_pairs(model: Model, mapper: ClassInfo, nodes=None):
    """[(node, Resolution, chain, final Member)] for all node classes"""
    out = []
    for n in (nodes or model.nodes.all()):
        if n.mapper_method is None:
            continue
        res, chain, mem = resolve_handler(model, mapper, n)
        # an override that only passes the call on to the next definition in
        # the MRO does not change which definition does the work
        if mem is not None and mem.kind == "func" and \
                _is_pass_through(mem, mem.node.name):
            eff = effective_member(model, mapper, mem.node.name)
            if eff is not None:
                mem = eff
        out.append((n, res, chain, mem))
    return out


def where(mem, node=None):
    return mem.owner.module.loc(node or mem.node)


def hname(mem):
    return f"{mem.owner.name}.{mem.node.name}" if mem.kind == "func" \
        else f"{mem.owner.name}.{mem.name}"


# ---------------------------------------------------------------------------
# A -- argument forwarding
# ---------------------------------------------------------------------------

FWD_KINDS = {"rec", "visit", "post_visit", "supercall", "basecall"}


def check_forwarding(ctx, rule, mapper: ClassInfo, mem, n: NodeClass | None = None,
                     fwd_selfcalls=("map_",), extra_selfcalls=()):
    """Every recursion / visit / post_visit / handler-to-handler call inside
    the handler passes the handler's *args/**kwargs on."""
    fn = mem.node
    sig = signature(fn)
    if sig.vararg is None and sig.kwarg is None:
        ctx.ob(f"{rule}/{mapper.name}/{fn.name}/no-varargs", True, where(mem),
               "handler takes no extra arguments", nontrivial=False)
        return
    fields = node_fields(n) if n else ()
    ev = Evaluator(fn, fields=fields)
    # flow-insensitive: evaluate every statement once
    for st in ast.walk(ast.Module(body=fn.body, type_ignores=[])):
        if isinstance(st, ast.stmt) and not isinstance(
                st, (ast.FunctionDef, ast.ClassDef)):
            for fld, val in ast.iter_fields(st):
                pass
    events = all_events(fn, fields)
    count = 0
    for e in events:
        relevant = e.kind in FWD_KINDS or (
            e.kind == "selfcall" and (
                any(e.name.startswith(p) for p in fwd_selfcalls)
                or e.name in extra_selfcalls))
        if not relevant:
            continue
        if e.kind in ("supercall", "basecall") and not e.name.startswith("map_"):
            continue
        count += 1
        ok = e.fwd_args and e.fwd_kwargs
        missing = []
        if not e.fwd_args and sig.vararg:
            missing.append("*" + sig.vararg)
        if not e.fwd_kwargs and sig.kwarg:
            missing.append("**" + sig.kwarg)
        ctx.ob(f"{rule}/{mem.owner.name}/{fn.name}/{e.kind}:{e.name}:"
               f"{_short(e.arg)}",
               ok, where(mem, e.node),
               (f"call {ast.unparse(e.node)} does not pass {', '.join(missing)} "
                f"on" if not ok else f"{e.kind} forwards extras"),
               {"call": ast.unparse(e.node)})
    return count


def all_events(fn, fields=(), props=None, rec_names=None):
    """Flow-insensitive list of events: evaluates every path with one symbolic
    loop iteration and merges events by AST node."""
    seen = {}
    for ps in summarize(fn, fields=fields, props=props, loop_mode="1",
                        rec_names=rec_names):
        for e in ps.events:
            seen.setdefault((id(e.node), e.kind), e)
    # paths that are infeasible/unreached (e.g. code after while) are rare; also
    # add events from a plain walk to be safe for rule A
    return list(seen.values())


def _short(v, depth=0):
    if v is None:
        return "-"
    if not isinstance(v, tuple):
        return str(v)
    if not v or not isinstance(v[0], str):
        return "(" + ",".join(_short(x, depth + 1) for x in v) + ")"
    t = v[0]
    if t == "node":
        return "expr"
    if t == "field":
        return v[1]
    if t in ("elem", "val", "key", "vals", "items", "keys"):
        return f"{t}({_short(v[1], depth + 1)})"
    if t == "index":
        return f"{_short(v[1], depth + 1)}[{v[2]}]"
    if t == "rec":
        return f"rec({_short(v[1], depth + 1)})"
    if t == "const":
        return repr(v[1])
    if t == "attr":
        return f"{_short(v[1], depth + 1)}.{v[2]}"
    if depth > 3:
        return t
    return t + "(" + ",".join(_short(x, depth + 1) for x in v[1:]
                              if isinstance(x, tuple)) + ")"


# ---------------------------------------------------------------------------
# X1 -- attribute existence
# ---------------------------------------------------------------------------

def guarded_reads(fn):
    """ids of Attribute nodes that sit under a hasattr/isinstance guard or in
    a try body with an AttributeError handler."""
    guarded = set()
    for n in ast.walk(fn):
        if isinstance(n, ast.Try) and any(
                h.type is None or "AttributeError" in ast.unparse(h.type)
                or ast.unparse(h.type) in ("Exception", "BaseException")
                for h in n.handlers):
            for s in n.body:
                for a in ast.walk(s):
                    if isinstance(a, ast.Attribute):
                        guarded.add(id(a))
        if isinstance(n, (ast.If, ast.IfExp)):
            t = ast.unparse(n.test)
            if "isinstance(" in t or "hasattr(" in t:
                body = n.body if isinstance(n.body, list) else [n.body]
                orelse = n.orelse if isinstance(n.orelse, list) else [n.orelse]
                for s in body + orelse:
                    for a in ast.walk(s):
                        if isinstance(a, ast.Attribute):
                            guarded.add(id(a))
        if isinstance(n, ast.Call) and isinstance(n.func, ast.Name) \
                and n.func.id == "getattr" and len(n.args) == 3:
            pass
    return guarded


def check_attr_existence(ctx, rule, model, mapper, n: NodeClass, mem,
                         dedupe: set):
    fn = mem.node
    sig = signature(fn)
    if sig.node_name is None:
        return 0
    g = guarded_reads(fn)
    cnt = 0
    # names rebinding the node parameter disable the rule for that function
    for a in ast.walk(fn):
        if isinstance(a, ast.Name) and a.id == sig.node_name and isinstance(
                a.ctx, ast.Store):
            return 0
    for a in ast.walk(fn):
        if isinstance(a, ast.Attribute) and isinstance(a.value, ast.Name) \
                and a.value.id == sig.node_name and isinstance(a.ctx, ast.Load):
            if id(a) in g:
                continue
            key = (id(a), n.key)
            if key in dedupe:
                continue
            dedupe.add(key)
            ok = a.attr in n.attrs
            cnt += 1
            ctx.ob(f"{rule}/{mapper.name}/{fn.name}/{n.name}.{a.attr}", ok,
                   where(mem, a),
                   (f"handler {hname(mem)} is reached by {n.name} nodes "
                    f"(via {mapper.name}) but reads expr.{a.attr}, which "
                    f"{n.name} does not have (fields: {n.field_names})"
                    if not ok else f"{n.name}.{a.attr} exists"),
                   {"node_class": n.key, "attr": a.attr},
                   nontrivial=not ok or cnt <= 3)
    return cnt


# ---------------------------------------------------------------------------
# F -- identity rebuild
# ---------------------------------------------------------------------------

def _is_pairs(cond_value, polarity):
    """Yield (a, b) for every `a is b` conjunct that must hold on this branch."""
    def walk(v, pol):
        if not isinstance(v, tuple):
            return
        if v[0] == "unop" and v[1] == "Not":
            yield from walk(v[2], not pol)
        elif v[0] == "boolop" and v[1] == "And" and pol:
            for x in v[2]:
                yield from walk(x, True)
        elif v[0] == "boolop" and v[1] == "Or" and not pol:
            for x in v[2]:
                yield from walk(x, False)
        elif v[0] == "compare" and len(v[1]) == 1:
            if (v[1][0] == "Is" and pol) or (v[1][0] == "IsNot" and not pol):
                yield (v[2], v[3][0])
        elif v[0] == "call" and v[1] == "all" and pol and v[2]:
            s = v[2][0]
            if s[0] == "seq" and not s[4]:
                yield from walk(s[2], True)
        elif v[0] == "call" and v[1] == "any" and not pol and v[2]:
            s = v[2][0]
            if s[0] == "seq" and not s[4]:
                yield from walk(s[2], False)
    yield from walk(cond_value, polarity)


def _norm(v):
    """normalise dict lookups d[k] where k ranges over the dict's own keys"""
    if isinstance(v, tuple) and v and v[0] == "dictget":
        d, k = v[1], v[2]
        if d[0] == "dict" and (k == d[1] or (k[0] == "key" and d[1][0] == "key"
                                              and _norm(k[1]) == _norm(d[1][1]))):
            return d[2]
    if isinstance(v, tuple) and v and v[0] == "anyof":
        return v
    return v


def guarded_unchanged_fields(ps):
    out = set()
    for test, pol, val in ps.conds:
        if not isinstance(val, tuple) or val[0] == "except":
            continue
        for a, b in _is_pairs(val, pol):
            a, b = _norm(a), _norm(b)
            for x, y in ((a, b), (b, a)):
                fx = base_field(x)
                if fx is not None and not contains(x, lambda t: t[0] == "rec"):
                    rf = rec_fields(y)
                    if rf == {fx}:
                        out.add(fx)
    return out


def _arg_matches_field(arg, f, kind):
    """Is constructor argument *arg* the recursion result (children) or the
    value itself (data) of field f?  Returns (ok, reason)."""
    if kind == DATA:
        return (arg == ("field", f),
                f"data field '{f}' must be passed through unchanged")
    if kind == CHILD:
        ok = arg[0] == "rec" and arg[1] == ("field", f)
        return ok, f"child field '{f}' must be the recursion result of expr.{f}"
    if kind == CHILD_TUPLE:
        if arg[0] == "seq" and arg[1] in ("tuple", "list") \
                and arg[3] == ("field", f) and not arg[4]:
            el = arg[2]
            if el[0] == "ifexp":       # None if child is None else rec(child)
                alts = [el[2], el[3]]
                el = next((x for x in alts if x[0] == "rec"), el)
                if not any(x == ("const", None) for x in alts):
                    return False, f"conditional element in rebuild of '{f}'"
            if el[0] == "rec" and el[1] == ("elem", ("field", f)):
                return True, ""
        return False, (f"tuple field '{f}' must be rebuilt from the recursion "
                       f"results of every element of expr.{f}, unfiltered and in "
                       "order")
    if kind == CHILD_MAP:
        if arg[0] == "dict":
            k, v, src = arg[1], arg[2], arg[3]
            if src in (("items", ("field", f)),) and k == ("key", ("field", f)) \
                    and v[0] == "rec" and v[1] == ("val", ("field", f)):
                return True, ""
        return False, (f"mapping field '{f}' must be rebuilt key by key from "
                       f"the recursion results of expr.{f}.items()")
    return False, "unknown field kind"


def check_identity_handler(ctx, rule, model, mapper, n: NodeClass, mem,
                           allow_zero_cse=True):
    """Rule F for one (mapper, node class, handler): the interpretive judge
    (pv/idjudge.py) first; the structural reading of the paths adds detail and
    decides alone where the judge cannot interpret the handler."""
    fn = mem.node
    kinds = child_kinds(n)
    tag = f"{rule}/{mapper.name}/{fn.name}/{n.name}"
    jwit = None
    try:
        from . import idjudge
        jwit, jn = idjudge.judge(model, mapper, n, model.inlined(fn), kinds,
                                 allow_zero_result=allow_zero_cse and
                                 n.name == "CommonSubexpression")
    except AnalysisError as e:
        ctx.extra.setdefault("judge_unavailable:identity-handlers", []).append(
            f"{mapper.name}.{fn.name}/{n.name}: {str(e)[:80]}")
    if jwit is not None:
        ctx.ob(f"{rule}0/{mapper.name}/{fn.name}/{n.name}/rebuild-semantics",
               not jwit, where(mem),
               f"{hname(mem)} interpreted on an abstract {n.name}: unchanged "
               "children give back the node itself; changed ones a node of the "
               "same class with the mapped children in place; each child mapped "
               "once, extra arguments forwarded" if not jwit else
               f"{hname(mem)} (as {n.name}): " + "; ".join(jwit[:2]),
               nontrivial=bool(jwit))
    mark = len(ctx.obs)
    try:
        pss = handler_summaries(model, n, fn)
    except AnalysisError as e:
        if jwit is not None and not jwit:
            return []
        raise AnalysisError(f"{where(mem)} {hname(mem)}: {e}") from e
    if not pss:
        if jwit is not None and not jwit:
            return []
        raise AnalysisError(f"{where(mem)} {hname(mem)}: no feasible path")
    try:
        return _check_identity_paths(ctx, tag, model, n, mem, pss, kinds,
                                     allow_zero_cse)
    except AnalysisError:
        if jwit is not None and not jwit:
            return []
        raise
    finally:
        if jwit is not None and not jwit:
            ctx.withdraw_failures_since(
                mark, "decided by interpreting the handler on an abstract node",
                tag + "/")


def _check_identity_paths(ctx, tag, model, n, mem, pss, kinds, allow_zero_cse):
    fn = mem.node
    results = []
    for i, ps in enumerate(pss):
        results.append(_check_identity_path(ctx, tag, model, n, mem, ps, kinds, i,
                                            allow_zero_cse))
    # generator consumed more than once on some path
    for i, ps in enumerate(pss):
        for name, cnt in ps.gen_uses.items():
            if cnt > 1:
                ctx.ob(f"{tag}/generator-reuse:{name}", False, where(mem),
                       f"local '{name}' is a generator expression and is consumed "
                       f"{cnt} times on one path (the second consumer sees an "
                       "exhausted iterator)", {"path": i})
                break
    return results


def _check_identity_path(ctx, tag, model, n, mem, ps, kinds, i, allow_zero_cse):
    fn = mem.node
    recd = set()
    for e in ps.events:
        if e.kind == "rec":
            b = base_field(e.arg)
            if b is not None:
                recd.add(b)
    if ps.term == "raise":
        ctx.ob(f"{tag}/raise", True, where(mem), "path raises",
               nontrivial=False)
        return "raise"
    if ps.term == "end":
        ctx.ob(f"{tag}/falls-off", False, where(mem),
               f"a path through {hname(mem)} ends without returning a node",
               {})
        return "bad"
    rv = ps.retval
    loc = where(mem, ps.items[-1][1])
    if rv == NODE:
        need = set(kinds)
        if not need:
            ctx.ob(f"{tag}/return-self-leaf", True, loc,
                   "leaf node returned as is", nontrivial=False)
            return "self"
        got = guarded_unchanged_fields(ps)
        missing = sorted(need - got)
        ctx.ob(f"{tag}/return-self-guard", not missing, loc,
               (f"'return expr' is not guarded by an unchanged-test of child "
                f"field(s) {missing}: a change below them is lost"
                if missing else "return expr guarded by unchanged-tests of "
                f"{sorted(need)}"),
               {"guarded": sorted(got), "needed": sorted(need)})
        return "self"
    if rv[0] == "ctor" or (rv[0] == "call" and len(rv) >= 3 and
                           _names_node_class(model, rv[1], n)):
        args, kwargs = rv[2], rv[3]
        if rv[0] == "ctor":
            same_class = rv[1] == ("typeof", NODE)
        else:
            same_class = True
        ok = same_class
        problems = []
        if not same_class:
            problems.append("constructor is not the node's own class")
        fields = n.fields
        if n.legacy:
            return _check_legacy_ctor(ctx, tag, model, n, mem, ps, args, i, loc)
        posargs = [a for a in args if a[0] != "star"]
        if len(posargs) != len(fields):
            # keyword args may supply the rest
            kwnames = {k for k, _ in kwargs if k}
            rest = [f for f, _, _ in fields[len(posargs):] if f not in kwnames]
            if rest or len(posargs) > len(fields):
                ok = False
                problems.append(
                    f"constructor gets {len(posargs)} positional arguments for "
                    f"fields {n.field_names}; {rest} not supplied")
        for (f, kind, _), a in zip(fields, posargs):
            good, why = _arg_matches_field(a, f, kind)
            if not good:
                ok = False
                problems.append(why)
        for k, v in kwargs:
            if k is None:
                continue
            kind = n.field_kind(k)
            if kind is None:
                ok = False
                problems.append(f"unknown keyword {k}")
            else:
                good, why = _arg_matches_field(v, k, kind)
                if not good:
                    ok = False
                    problems.append(why)
        ctx.ob(f"{tag}/rebuild", ok, loc,
               ("; ".join(problems) if not ok else
                f"rebuilds {n.name} with one argument per field in order"),
               {"args": [_short(a) for a in posargs], "fields": n.field_names})
        return "ctor"
    if allow_zero_cse and rv == ("const", 0):
        # return 0 under is_zero(<recursion result>)
        from .summary import facts_of
        facts = [f for _, pol0, v0 in ps.conds if isinstance(v0, tuple)
                 for f in facts_of(v0, pol0)]
        guarded = any(
            isinstance(v, tuple) and v[0] == "call" and v[1] == "is_zero"
            and v[2] and v[2][0][0] == "rec" and pol
            for v, pol in facts)
        # ... and only when the mapped child is not the original child: a
        # wrapper of a zero child that nothing has changed is returned as it
        # is (the same object), like every other untouched node
        changed = any(
            isinstance(v, tuple) and v[0] == "compare" and len(v[1]) == 1
            and v[2][0] == "rec" and v[3][0] == v[2][1]
            and ((v[1][0] == "Is" and not pol) or (v[1][0] == "IsNot" and pol))
            for v, pol in facts)
        ctx.ob(f"{tag}/return-zero", guarded and changed, loc,
               "returns 0 only when the mapped child is zero and differs from "
               "the original child" if guarded and changed else
               ("returns the constant 0 without an is_zero(<mapped child>) guard"
                if not guarded else
                "returns 0 for a zero child before testing whether the child "
                "changed at all: IdentityMapper()(CommonSubexpression(0)) is the "
                "integer 0, not the (equal, identical) wrapper"),
               {})
        return "zero"
    # delegation to the node's own map() with a recursing lambda (multivector)
    if rv[0] == "call" and rv[1] == "node.map" and rv[2] and rv[2][0][0] == "lambda":
        lam = rv[2][0]
        ok = lam[2][0] == "rec" and lam[2][1] == ("lambdaparam", lam[1][0]) \
            and lam[2][2]
        ctx.ob(f"{tag}/node-map", ok, loc,
               "maps every coefficient through rec with extras" if ok else
               "node.map callback does not recurse with the extras", {})
        return "map"
    ctx.ob(f"{tag}/return-shape", False, loc,
           f"unrecognised return value {_short(rv)} in an identity handler "
           f"(neither the node, a rebuild of its class, nor a raise)",
           {"retval": _short(rv)})
    return "bad"


def _names_node_class(model, fname, n):
    return fname == n.name or fname.endswith("." + n.name)


def _check_legacy_ctor(ctx, tag, model, n, mem, ps, args, i, loc):
    # Polynomial(base, data): base = rec(Base); data = seq over Data of
    # (exp, rec(coeff))
    kinds = LEGACY_CHILDREN.get(n.name, {})
    ok = True
    problems = []
    want = list(kinds.items())
    for (f, kind), a in zip(want, args):
        if kind == CHILD:
            if not (a[0] == "rec" and base_field(a[1]) == f):
                ok = False
                problems.append(f"argument for {f} is not its recursion result")
        elif kind == "child-pairs":
            good = a[0] == "seq" and base_field(a[3]) == f and not a[4] \
                and a[2][0] == "lit" and len(a[2][2]) == 2 \
                and a[2][2][1][0] == "rec" and base_field(a[2][2][1][1]) == f \
                and a[2][2][0][0] != "rec"
            if not good:
                ok = False
                problems.append(f"argument for {f} is not the sequence of "
                                "(exponent, rec(coefficient)) pairs")
    if len(args) < len(want):
        ok = False
        problems.append("not all child-bearing init-args supplied")
    ctx.ob(f"{tag}/rebuild", ok, loc,
           "; ".join(problems) if not ok else f"rebuilds legacy {n.name}", {})
    return "ctor"


# ---------------------------------------------------------------------------
# W -- walk protocol
# ---------------------------------------------------------------------------

def check_walk_handler(ctx, rule, model, mapper, n: NodeClass, mem):
    fn = mem.node
    kinds = child_kinds(n)
    tag = f"{rule}/{mapper.name}/{fn.name}/{n.name}"
    jwit = None
    try:
        from . import idjudge
        jwit, _ = idjudge.judge_walk(model, mapper, n, model.inlined(fn), kinds)
    except AnalysisError as e:
        ctx.extra.setdefault("judge_unavailable:walk-handlers", []).append(
            f"{mapper.name}.{fn.name}/{n.name}: {str(e)[:80]}")
    if jwit is not None:
        ctx.ob(f"{rule}0/{mapper.name}/{fn.name}/{n.name}/walk-protocol",
               not jwit, where(mem),
               f"{hname(mem)} interpreted on an abstract {n.name}: visit first, "
               "nothing more when it answers false, else every child once and "
               "post_visit last; extra arguments forwarded" if not jwit else
               f"{hname(mem)} (as {n.name}): " + "; ".join(jwit[:2]),
               nontrivial=bool(jwit))
    mark = len(ctx.obs)
    try:
        _check_walk_structural(ctx, tag, model, mapper, n, mem, kinds)
    except AnalysisError:
        if jwit is None or jwit:
            raise
    if jwit is not None and not jwit:
        ctx.withdraw_failures_since(
            mark, "decided by interpreting the handler on an abstract node",
            tag + "/")


def _check_walk_structural(ctx, tag, model, mapper, n, mem, kinds):
    fn = mem.node
    pss = handler_summaries(model, n, fn)
    need_split = False
    for ps in pss:
        for e in ps.events:
            if e.kind == "rec" and e.arg is not None and contains(
                    e.arg, lambda t: t[0] == "oneof" or (
                        t[0] == "index" and t[1][0] == "field")):
                need_split = True
    if need_split:
        tuple_fields = [f for f, k in kinds.items() if k == CHILD_TUPLE]
        if len(tuple_fields) != 1:
            raise AnalysisError(f"{where(mem)} {hname(mem)}: indexed access with "
                                f"{len(tuple_fields)} tuple fields")
        f = tuple_fields[0]
        maxlen = _max_len(n, f)
        if maxlen is None:
            ctx.ob(f"{tag}/indexed-unbounded", False, where(mem),
                   f"children of unbounded tuple field '{f}' are reached by "
                   "index, which cannot cover every element", {})
            return
        for L in range(maxlen + 1):
            pss_l = handler_summaries(model, n, fn, assume_len={f: L})
            _check_walk_paths(ctx, f"{tag}/len={L}", model, n, mem, pss_l, kinds,
                              assume={f: L})
        return
    _check_walk_paths(ctx, tag, model, n, mem, pss, kinds, assume=None)


def _max_len(n: NodeClass, f):
    for name, kind, ann in n.fields:
        if name == f:
            a = ann.replace(" ", "")
            if "..." in a:
                return None
            parts = [p for p in a.strip("()").split("|")]
            best = 0
            for p in parts:
                if p.startswith("tuple[") and p != "tuple[()]":
                    best = max(best, p.count("ExpressionT"))
            return best
    return None


def _check_walk_paths(ctx, tag, model, n, mem, pss, kinds, assume):
    fn = mem.node
    sig = signature(fn)
    continuing = 0
    n_stopped = 0
    for i, ps in enumerate(pss):
        evs = [e for e in ps.events if e.kind in ("rec", "visit", "post_visit")]
        loc = where(mem)
        if ps.term == "raise":
            continue
        visits = [e for e in evs if e.kind == "visit"]
        if not evs or evs[0].kind != "visit" or evs[0].arg != NODE \
                or len(visits) != 1:
            ctx.ob(f"{tag}/visit-first", False, loc,
                   f"{hname(mem)}: visit(expr) is not called exactly once before "
                   "any recursion", {"events": [e.kind for e in evs]})
            continue
        # did this path take the "visit returned false" exit?
        stopped = False
        for test, pol, val in ps.conds:
            if isinstance(val, tuple) and contains(
                    val, lambda t: t[0] == "call" and t[1] == "self.visit"):
                truth = _visit_truth(val, pol)
                if truth is False:
                    stopped = True
        recs = [e for e in evs if e.kind == "rec"]
        posts = [e for e in evs if e.kind == "post_visit"]
        if stopped:
            n_stopped += 1
            ok = not recs and not posts and ps.term in ("return", "end")
            ctx.ob(f"{tag}/skip-on-false", ok, loc,
                   "visit false: returns without touching children" if ok else
                   f"{hname(mem)}: children are visited although visit() "
                   "returned false", {})
            continue
        continuing += 1
        # exactly-once coverage
        problems = []
        per_field = {}
        for e in recs:
            b = base_field(e.arg)
            per_field.setdefault(b, []).append(e)
        for f, kind in kinds.items():
            es = per_field.get(f, [])
            if kind == CHILD:
                if len(es) != 1 or es[0].arg != ("field", f) and \
                        base_field(es[0].arg) != f:
                    problems.append(f"child field '{f}' is visited {len(es)} "
                                    "times (expected once)")
            elif kind in (CHILD_TUPLE, CHILD_MAP, "child-pairs"):
                if assume and f in assume:
                    idx = sorted(e.arg[2] for e in es if e.arg[0] == "index"
                                 and e.arg[1] == ("field", f))
                    want = list(range(assume[f]))
                    if idx != want or len(idx) != len(es):
                        problems.append(
                            f"with len(expr.{f}) == {assume[f]} the elements "
                            f"reached are {idx}, expected each of {want} once")
                else:
                    good = [e for e in es if _is_elem_of(e.arg, f, kind)
                            and any(base_field(l) == f for l in e.in_loops)]
                    if len(es) != 1 or len(good) != 1:
                        problems.append(
                            f"elements of '{f}' are not visited exactly once each "
                            f"({len(es)} recursion sites)")
        for b, es in per_field.items():
            if b is not None and b not in kinds and b in node_fields(n):
                pass
        if len(posts) != 1 or posts[0].arg != NODE:
            problems.append("post_visit(expr) is not called exactly once")
        elif recs and evs.index(posts[0]) < max(evs.index(r) for r in recs):
            problems.append("post_visit is called before the last child")
        elif evs and evs[-1].kind != "post_visit":
            problems.append("post_visit is not the last protocol call")
        ctx.ob(f"{tag}/protocol", not problems, loc,
               (f"{hname(mem)} on {n.name}: " + "; ".join(problems)) if problems
               else "visit, each child once, post_visit",
               {"recursion_args": [_short(e.arg) for e in recs]})
    if kinds and continuing and not n_stopped:
        ctx.ob(f"{tag}/skip-on-false", False, where(mem),
               f"{hname(mem)} on {n.name}: the result of visit() is ignored -- "
               "children are walked even when visit returns false", {})
    if not continuing and not any(ps.term == "raise" for ps in pss):
        ctx.ob(f"{tag}/no-continuing-path", False, where(mem),
               f"{hname(mem)} has no path that visits the children", {})


def _visit_truth(val, pol):
    """What does the branch (val, pol) say about visit()'s result?"""
    if val[0] == "unop" and val[1] == "Not":
        t = _visit_truth(val[2], not pol)
        return t
    if val[0] == "call" and val[1] == "self.visit":
        return pol
    return None


def _is_elem_of(arg, f, kind):
    if kind == CHILD_TUPLE:
        return arg == ("elem", ("field", f))
    if kind == CHILD_MAP:
        return arg in (("val", ("field", f)),)
    if kind == "child-pairs":
        return arg == ("index", ("elem", ("field", f)), 1) or (
            arg[0] == "index" and base_field(arg) == f and arg[2] == 1)
    return False


# ---------------------------------------------------------------------------
# K -- combine coverage
# ---------------------------------------------------------------------------

def check_combine_handler(ctx, rule, model, mapper, n: NodeClass, mem,
                          allow_none_filter=True, combine_names=("combine",)):
    fn = mem.node
    kinds = child_kinds(n)
    tag = f"{rule}/{mapper.name}/{fn.name}/{n.name}"
    jwit = None
    try:
        from . import idjudge
        jwit, _ = idjudge.judge_combine(model, mapper, n, model.inlined(fn),
                                        kinds, combine_names)
    except AnalysisError as e:
        ctx.extra.setdefault("judge_unavailable:combine-handlers", []).append(
            f"{mapper.name}.{fn.name}/{n.name}: {str(e)[:80]}")
    if jwit is not None:
        ctx.ob(f"{rule}0/{mapper.name}/{fn.name}/{n.name}/folds-every-child",
               not jwit, where(mem),
               f"{hname(mem)} interpreted on an abstract {n.name}: the result "
               "folds in the recursion result of every child once, extra "
               "arguments forwarded" if not jwit else
               f"{hname(mem)} (as {n.name}): " + "; ".join(jwit[:2]),
               nontrivial=bool(jwit))
    mark = len(ctx.obs)
    try:
        _check_combine_paths(ctx, tag, model, n, mem, kinds, allow_none_filter,
                             combine_names)
    except AnalysisError:
        if jwit is None or jwit:
            raise
    if jwit is not None and not jwit:
        ctx.withdraw_failures_since(
            mark, "decided by interpreting the handler on an abstract node",
            tag + "/")


def _check_combine_paths(ctx, tag, model, n, mem, kinds, allow_none_filter,
                         combine_names):
    fn = mem.node
    pss = handler_summaries(model, n, fn)
    for i, ps in enumerate(pss):
        if ps.term == "raise":
            continue
        loc = where(mem, ps.items[-1][1]) if ps.items[-1][1] is not None \
            else where(mem)
        if ps.term == "end":
            ctx.ob(f"{tag}/falls-off", False, loc,
                   f"{hname(mem)} ends without returning a combined result", {})
            continue
        rv = ps.retval
        got = _covered_fields(rv, kinds, allow_none_filter)
        missing = sorted(set(kinds) - got)
        shape_ok = rv[0] == "rec" or (
            rv[0] == "call" and rv[1] in tuple("self." + c for c in combine_names))
        if not kinds:
            ctx.ob(f"{tag}/leaf", True, loc, "leaf", nontrivial=False)
            continue
        problems = []
        if missing:
            problems.append(f"result does not include the recursion result of "
                            f"child field(s) {missing}")
        if not shape_ok:
            problems.append(f"result is not self.combine(...) of the children "
                            f"({_short(rv)})")
        ctx.ob(f"{tag}/combine", not problems, loc,
               (f"{hname(mem)} on {n.name}: " + "; ".join(problems)) if problems
               else f"combines recursion results of {sorted(kinds)}",
               {"covered": sorted(got), "needed": sorted(kinds)})


def _covered_fields(rv, kinds, allow_none_filter=True):
    """child fields f such that rv contains rec over all of f"""
    out = set()

    def walk(v, loops, depth=0):
        if depth > 40 or not isinstance(v, tuple) or not v:
            return
        if not isinstance(v[0], str):
            for x in v:
                walk(x, loops, depth + 1)
            return
        if v[0] == "rec" and v[1] is not None:
            a = v[1]
            f = base_field(a)
            if f in kinds:
                kind = kinds[f]
                if kind == CHILD and a == ("field", f):
                    out.add(f)
                elif kind == CHILD and base_field(a) == f and a[0] != "elem":
                    out.add(f)
                elif kind != CHILD and _is_elem_of(a, f, kind) and any(
                        base_field(s) == f and not filt for s, filt in loops):
                    out.add(f)
        if v[0] == "seq":
            filt = tuple(c for c in v[4] if not (
                allow_none_filter and c.replace(" ", "").endswith("isnotNone")))
            walk(v[2], loops + [(v[3], filt)], depth + 1)
            return
        if v[0] == "dict":
            walk(v[1], loops + [(v[3], ())], depth + 1)
            walk(v[2], loops + [(v[3], ())], depth + 1)
            return
        for x in v[1:]:
            if isinstance(x, tuple):
                walk(x, loops, depth + 1)
    walk(rv, [])
    return out


# ---------------------------------------------------------------------------
# D4 helper
# ---------------------------------------------------------------------------

def is_raising(mem, _depth=0) -> bool:
    """every path of the method raises -- directly, or by handing over to a
    private helper of the same class that itself always raises
    (`return self._refuse(expr)`)"""
    if mem is None or mem.kind != "func":
        return False
    if always_raises(mem.node):
        return True
    if _depth > 2:
        return False
    body = body_without_docstring(mem.node)
    if len(body) != 1:
        return False
    st = body[0]
    call = st.value if isinstance(st, (ast.Return, ast.Expr)) else None
    # (private helpers only: a public method may be overridden by the class
    # the handler is finally used in -- CombineMapper.combine is abstract)
    if isinstance(call, ast.Call) and isinstance(call.func, ast.Attribute) and \
            isinstance(call.func.value, ast.Name) and \
            call.func.attr.startswith("_") and \
            not call.func.attr.startswith("__") and \
            call.func.value.id == (mem.node.args.args[0].arg
                                   if mem.node.args.args else "self"):
        h = None
        k = mem.owner
        for kk in [k] + [b for b in getattr(k, "_mro_cache", [])]:
            if hasattr(kk, "members") and call.func.attr in kk.members:
                h = kk.members[call.func.attr]
                break
        return h is not None and is_raising(h, _depth + 1)
    return False


# ---------------------------------------------------------------------------
# constructor effects: which instance attributes exist after __init__, and
# which constructor parameter each one holds

def init_effects(model, c, _depth=0, _start=None):
    """{attribute: ("param", name) | ("value", source text)} established by
    constructing an instance of *c*: direct `self.a = ...` stores plus, through
    explicit `Base.__init__(self, ...)` / `super().__init__(...)` calls, the
    effects of the base constructors with their parameters bound to the
    arguments given.  Calls that cannot be resolved contribute nothing."""
    import ast as _ast
    if _depth > 6:
        return {}
    mro = [k for k in model.mro(c) if not isinstance(k, str)]
    start = 0 if _start is None else _start
    owner = None
    mem = None
    for i in range(start, len(mro)):
        m_ = mro[i].members.get("__init__")
        if m_ is not None and m_.kind == "func":
            owner, mem, start = mro[i], m_, i
            break
    if mem is None:
        return {}
    fn = mem.node
    params = [a.arg for a in fn.args.args[1:]] + [a.arg for a in fn.args.kwonlyargs]
    out = {}

    def classify(v):
        if isinstance(v, _ast.Name) and v.id in params:
            return ("param", v.id)
        return ("value", _ast.unparse(v))

    for st in _ast.walk(fn):
        if isinstance(st, (_ast.Assign, _ast.AnnAssign)):
            targets = st.targets if isinstance(st, _ast.Assign) else [st.target]
            for t in targets:
                if isinstance(t, _ast.Attribute) and isinstance(t.value, _ast.Name) \
                        and t.value.id == "self" and st.value is not None:
                    out[t.attr] = classify(st.value)
        if isinstance(st, _ast.Call) and isinstance(st.func, _ast.Attribute) \
                and st.func.attr == "__init__":
            recv = st.func.value
            base = None
            args = list(st.args)
            nxt = None
            if isinstance(recv, _ast.Call) and _ast.unparse(recv.func) == "super":
                nxt = start + 1
                base = c
            elif isinstance(recv, _ast.Name):
                for k in mro:
                    if k.name == recv.id:
                        base = k
                if args and isinstance(args[0], _ast.Name) and args[0].id == "self":
                    args = args[1:]
            if base is None:
                continue
            sub = init_effects(model, base, _depth + 1, nxt)
            # bind the callee's parameters
            bmro = [k for k in model.mro(base) if not isinstance(k, str)]
            bfn = None
            for i in range(nxt or 0, len(bmro)):
                m_ = bmro[i].members.get("__init__")
                if m_ is not None and m_.kind == "func":
                    bfn = m_.node
                    break
            if bfn is None:
                continue
            bparams = [a.arg for a in bfn.args.args[1:]]
            binding = {}
            for pn, a in zip(bparams, args):
                binding[pn] = classify(a)
            for k in st.keywords:
                if k.arg is not None:
                    binding[k.arg] = classify(k.value)
            for attr, val in sub.items():
                if val[0] == "param":
                    val = binding.get(val[1], ("value", "<default>"))
                out.setdefault(attr, val)
    return out


# ---------------------------------------------------------------------------
# counters:  table[key] = table.get(key, 0) + 1  /  table[key] += 1  /  = 1

def counter_writes(pss, key_pred=None):
    """classify every item-write on the given paths as a counter update:
    -> list of (table name, key value, kind) with kind
       "incr"   old value of the same key plus 1 (either spelling)
       "init1"  constant 1
       "other"  anything else"""
    out = []
    for ps in pss:
        for e in ps.events:
            if e.kind != "itemwrite":
                continue
            key = e.args[0] if e.args else None
            if key_pred is not None and not key_pred(key):
                continue
            v = e.value
            kind = "other"
            if v == ("const", 1):
                kind = "init1"
            elif isinstance(v, tuple) and v[0] == "binop" and v[1] == "Add" and \
                    ("const", 1) in (v[2], v[3]):
                old = v[3] if v[2] == ("const", 1) else v[2]
                if old[0] == "other" and old[1].replace(" ", "").startswith(
                        e.name.replace(" ", "") + "["):
                    kind = "incr"
                elif old[0] == "call" and old[1] == f"{e.name}.get" and \
                        old[2] == (key, ("const", 0)):
                    kind = "incr"
                elif old[0] == "index" and old[-1] == key:
                    kind = "incr"
            out.append((e.name, key, kind))
    return out


# ---------------------------------------------------------------------------
# boolean meaning of a small predicate function, by truth table over atoms

class UnknownAtom(Exception):
    pass


def bool_eval(v, atom_of, assignment):
    """evaluate an abstract boolean value under an assignment of its atoms;
    atom_of(value) -> atom name or None; raises UnknownAtom"""
    a = atom_of(v)
    if a is not None:
        neg = False
        if isinstance(a, tuple):
            a, neg = a
        return assignment[a] != neg
    if isinstance(v, tuple):
        if v[0] == "const" and isinstance(v[1], bool):
            return v[1]
        if v[0] == "unop" and v[1] == "Not":
            return not bool_eval(v[2], atom_of, assignment)
        if v[0] == "boolop":
            vals = [bool_eval(x, atom_of, assignment) for x in v[2]]
            return all(vals) if v[1] == "And" else any(vals)
        if v[0] == "ifexp" and len(v) == 4:
            return bool_eval(v[2] if bool_eval(v[1], atom_of, assignment)
                             else v[3], atom_of, assignment)
    raise UnknownAtom(str(v)[:120])


def predicate_table(pss, atom_of, atoms):
    """{assignment tuple: bool} for a predicate function given by its path
    summaries; every assignment must select exactly one returning path"""
    import itertools
    table = {}
    for bits in itertools.product((False, True), repeat=len(atoms)):
        asg = dict(zip(atoms, bits))
        results = []
        for ps in pss:
            if all(bool_eval(c, atom_of, asg) == pol for _, pol, c in ps.conds):
                if ps.term != "return":
                    results.append(None)
                else:
                    results.append(bool_eval(ps.retval, atom_of, asg))
        results = set(results)
        if len(results) != 1:
            raise UnknownAtom(f"assignment {asg} selects results {results}")
        table[bits] = results.pop()
    return table


# ---------------------------------------------------------------------------
# text assembled from pieces: one normal form for  "a{}b".format(x),
# f"a{x}b",  "a" + x + "b"  and  "a%sb" % x

def text_parts(v):
    """-> list of ("const", str) and abstract values, adjacent constants merged;
    None if v is not a recognisable text assembly"""
    def parts(v):
        if not isinstance(v, tuple):
            return None
        if v[0] == "const" and isinstance(v[1], str):
            return [v]
        if v[0] == "fstring":
            out = []
            for p in v[1]:
                out.extend(parts(p) if (p[0] in ("fstring",) or (
                    p[0] == "const" and isinstance(p[1], str))) else [p])
            return out
        if v[0] == "strformat":
            fmt, args = v[1], list(v[2])
            out = []
            bits = fmt.split("{}")
            if len(bits) != len(args) + 1 or "{" in fmt.replace("{}", ""):
                return None
            for i, b in enumerate(bits):
                if b:
                    out.append(("const", b))
                if i < len(args):
                    out.append(args[i])
            return out
        if v[0] == "binop" and v[1] == "Add":
            a, b = parts(v[2]), parts(v[3])
            if a is None or b is None:
                return None
            return a + b
        if v[0] == "binop" and v[1] == "Mod" and v[2][0] == "const" and \
                isinstance(v[2][1], str):
            fmt = v[2][1]
            args = list(v[3][2]) if v[3][0] == "lit" and v[3][1] == "tuple" \
                else [v[3]]
            bits = fmt.split("%s")
            if len(bits) != len(args) + 1 or "%" in fmt.replace("%s", ""):
                return None
            out = []
            for i, b in enumerate(bits):
                if b:
                    out.append(("const", b))
                if i < len(args):
                    out.append(args[i])
            return out
        return [v]
    ps = parts(v)
    if ps is None:
        return None
    out = []
    for p in ps:
        if out and p[0] == "const" and out[-1][0] == "const" and \
                isinstance(p[1], str) and isinstance(out[-1][1], str):
            out[-1] = ("const", out[-1][1] + p[1])
        else:
            out.append(p)
    return out


# ---------------------------------------------------------------------------
# look-aside tables: try/except KeyError, `in` test, .get() with a sentinel

def lookup_case(ps, is_table):
    """"hit" / "miss" / None for a path through a look-aside: the path found
    the key in the table (``try`` body completed, ``key in table`` true,
    ``.get`` result is not the sentinel) or did not.  is_table(value) tells
    whether an abstract value is the table in question."""
    from .summary import facts_of
    miss = hit = False
    for _, pol0, v0 in ps.conds:
        if not isinstance(v0, tuple):
            continue
        if v0[0] == "except" and "KeyError" in v0[1]:
            miss = True
            continue
        for v, pol in facts_of(v0, pol0):
            if not isinstance(v, tuple) or v[0] != "compare":
                continue
            if v[1] in (("In",), ("NotIn",)) and len(v[3]) == 1 and \
                    is_table(v[3][0]):
                inside = pol if v[1] == ("In",) else not pol
                hit, miss = hit or inside, miss or not inside
            if v[1] in (("Is",), ("IsNot",)) and isinstance(v[2], tuple) and \
                    v[2][0] == "call" and v[2][1].endswith(".get") and \
                    len(v[2]) >= 5 and v[2][4][0] == "recv" and \
                    is_table(v[2][4][1]):
                is_sentinel = pol if v[1] == ("Is",) else not pol
                hit, miss = hit or not is_sentinel, miss or is_sentinel
    if hit and not miss:
        return "hit"
    if miss and not hit:
        return "miss"
    if not hit and not miss:
        # try-form: the path that never entered the handler is the hit
        return "try-body"
    return None


def sole_result(fn, **kw):
    """the one abstract value a (small) function returns on all its returning
    paths, or None if there are several / none"""
    from .summary import summarize
    vals = {ps.retval for ps in summarize(fn, **kw) if ps.term == "return"}
    return vals.pop() if len(vals) == 1 else None


# ---------------------------------------------------------------------------
# which attributes of its own instance a method stores: plain assignment or
# object.__setattr__(self, "<name>", ...)

def self_attrs_written(fn) -> set:
    me = fn.args.args[0].arg if fn.args.args else None
    out = set()
    for a in ast.walk(fn):
        if isinstance(a, ast.Attribute) and isinstance(a.ctx, ast.Store) and \
                isinstance(a.value, ast.Name) and a.value.id == me:
            out.add(a.attr)
        if isinstance(a, ast.Call) and isinstance(a.func, ast.Attribute) and \
                a.func.attr == "__setattr__" and len(a.args) >= 2 and \
                isinstance(a.args[0], ast.Name) and a.args[0].id == me:
            if not isinstance(a.args[1], ast.Constant):
                raise AnalysisError("attribute name written by a legacy "
                                    "__init__ is not a literal")
            out.add(a.args[1].value)
    return out


# ---------------------------------------------------------------------------
# pickled state = the arguments of the (re)building method, in order

def rebuild_state_agrees(cls, builder="_compile"):
    """For a class that pickles by handing the arguments of *builder* out of
    __getstate__ and calling *builder* again in __setstate__:
    -> (ok, state_attrs) where ok says that position i of the state is the
    attribute in which *builder* stores (something computed from) its i-th
    parameter and nothing else, and that __setstate__ passes the state
    positions to *builder* in order.  Raises AnalysisError on unknown shapes."""
    from .summary import contains
    b = cls.members.get(builder)
    gs = cls.members.get("__getstate__")
    ss = cls.members.get("__setstate__")
    if b is None or gs is None or ss is None:
        return False, []
    params = [a.arg for a in b.node.args.args][1:]
    # where does each parameter end up?
    holder = {}
    for ps in summarize(b.node, node_param=False):
        for e in ps.events:
            if e.kind == "attrwrite" and e.arg == ("selfobj",) and \
                    e.value is not None:
                src = [p_ for p_ in params
                       if e.value == ("param", p_)
                       or contains(e.value, lambda t: t == ("param", p_))]
                if len(src) == 1:
                    holder.setdefault(src[0], set()).add(e.name)
    rets = [ps for ps in summarize(gs.node, node_param=False)
            if ps.term == "return"]
    if len(rets) != 1:
        raise AnalysisError(f"{cls.name}.__getstate__: expected one return")
    rv = rets[0].retval
    if not (rv[0] == "lit" and rv[1] in ("tuple", "list")):
        raise AnalysisError(f"{cls.name}.__getstate__ does not return a tuple "
                            f"literal: {rv}")
    state = list(rv[2])
    attrs = [x[1] if x[0] == "self" else None for x in state]
    ok = len(state) == len(params) and all(
        a is not None and a in holder.get(p_, ())
        for a, p_ in zip(attrs, params))
    # __setstate__: builder(*state) or builder(state[0], state[1], ...)
    st_param = ss.node.args.args[1].arg if len(ss.node.args.args) > 1 else None
    ST = ("param", st_param)
    calls = [e for ps in summarize(ss.node, node_param=False) for e in ps.events
             if e.kind == "selfcall" and e.name == builder]
    good = bool(calls) and all(
        e.args == (("star", ST),)
        or e.args == tuple(("index", ST, i) for i in range(len(params)))
        for e in calls)
    return ok and good, attrs


# ---------------------------------------------------------------------------
# an entry-point override that only wraps the inherited one

def call_wrapper_result(mem):
    """If *mem* (an override of __call__) hands its expression, on every
    returning path, exactly once and with everything it was given, to the
    inherited __call__ and does no recursion of its own: the set of values it
    returns (abstract), else None.  Such an override does not change how nodes
    are dispatched or memoized (rec stays bound to the inherited routine)."""
    if mem.kind != "func":
        return None
    sig = signature(mem.node)
    out = set()
    for ps in summarize(mem.node):
        if ps.term == "raise":
            continue
        if ps.term not in ("return", "end"):
            return None
        ups = [e for e in ps.events if e.kind in ("supercall", "basecall")
               and e.name == "__call__"]
        recs = [e for e in ps.events if e.kind in ("rec", "selfcall")
                and e.name in ("rec", "__call__", "rec_fallback")]
        if len(ups) != 1 or recs:
            return None
        e = ups[0]
        if e.arg != NODE:
            return None
        if sig.vararg is not None and not e.fwd_args:
            return None
        if sig.kwarg is not None and not e.fwd_kwargs:
            return None
        out.add(ps.retval if ps.term == "return" else ("const", None))
    return out or None


def effective_member(model, cls, name):
    """model.lookup(cls, name), looking through overrides that only pass the
    call on to the next definition in the MRO: every returning path returns
    super().<name>(node, *everything received), possibly copied into a fresh
    container of the same kind (set(...), list(...), ...).  Such an override
    does not change which definition does the work."""
    mro = [k for k in model.mro(cls) if hasattr(k, "members")]
    i = 0
    while i < len(mro):
        k = mro[i]
        mem = k.members.get(name)
        if mem is None:
            i += 1
            continue
        if mem.kind != "func" or not _is_pass_through(mem, name):
            return mem
        i += 1          # look at the next definition after this class
    return None


def _is_pass_through(mem, name):
    sig = signature(mem.node)
    rets = 0
    for ps in summarize(mem.node):
        if ps.term == "raise":
            continue
        if ps.term != "return":
            return False
        rv = ps.retval
        if isinstance(rv, tuple) and rv[0] == "copy":
            rv = rv[1]
        if isinstance(rv, tuple) and rv[0] == "call" and rv[1] in (
                "set", "frozenset", "list", "tuple", "dict") and len(rv[2]) == 1:
            rv = rv[2][0]
        if not (isinstance(rv, tuple) and rv[0] == "call"
                and rv[1] == f"super.{name}" and rv[2][:1] == (NODE,)):
            return False
        ups = [e for e in ps.events if e.kind == "supercall" and e.name == name]
        if len(ups) != 1:
            return False
        if sig.vararg is not None and not ups[0].fwd_args:
            return False
        if sig.kwarg is not None and not ups[0].fwd_kwargs:
            return False
        if any(e.kind == "rec" for e in ps.events):
            return False
        rets += 1
    return rets > 0


def loop_body_fn(fn, loop):
    """one general round of *loop* as a function of its own: the parameters of
    *fn* plus every local *fn* stores become parameters (unknown on entry), the
    body is the loop's body; falling off the end (or `continue`) means "next
    round", `return`/`raise` leave as they do in *fn*"""
    for st in loop.body:
        for x in ast.walk(st):
            if isinstance(x, ast.Break):
                raise AnalysisError(f"{fn.name}: loop body leaves with break")
    params = [a.arg for a in fn.args.args]
    stored = sorted({x.id for x in ast.walk(fn) if isinstance(x, ast.Name)
                     and isinstance(x.ctx, ast.Store)} - set(params))
    args = ast.arguments(posonlyargs=[], args=[ast.arg(arg=a) for a in
                                               params + stored],
                         kwonlyargs=[], kw_defaults=[], defaults=[])
    new = ast.FunctionDef(name=fn.name + "__round", args=args, body=loop.body,
                          decorator_list=[], lineno=loop.lineno,
                          col_offset=loop.col_offset)
    return new
