"""Rules over the numeric kernels, built on pv/absint.py.

Each rule states what was established and how strongly:
  "all"      an inductive argument (loop invariant + verification conditions,
             discharged by polynomial normal form) covers every input
  "bounded"  the kernel was interpreted abstractly on every shape of an
             enumerated family (symbolic ring elements, concrete control)
A bounded counterexample is a definite violation (the witness is printed); a
verification condition that fails without a bounded witness only means the
invariant template does not fit, and is reported as such, not as a violation.
"""
from __future__ import annotations

import ast
from fractions import Fraction

from . import AnalysisError
from .absint import (Closure, CutLoop, Interp, Mon, Opaque, Poly, Raised,
                     explore)


def _top_loop(fn):
    idx = [i for i, st in enumerate(fn.body) if isinstance(st, ast.While)]
    if len(idx) != 1:
        raise AnalysisError(f"{fn.name}: expected exactly one top-level while loop")
    i = idx[0]
    return fn.body[:i], fn.body[i], fn.body[i + 1:]


def _sign(d, nonneg):
    """sign knowledge of Poly d when every symbol in *nonneg* is >= 0:
    '>0' | '>=0' | '<0' | '<=0' | '0' | None"""
    if not d.t:
        return "0"
    if not d.symbols() <= set(nonneg):
        return None
    lin = all(len(m) <= 1 and all(e == 1 for _, e in m) for m in d.t)
    if not lin:
        return None
    c0 = d.t.get((), Fraction(0))
    rest = [c for m, c in d.t.items() if m != ()]
    if all(c >= 0 for c in rest):
        return ">0" if c0 > 0 else ">=0" if c0 == 0 else None
    if all(c <= 0 for c in rest):
        return "<0" if c0 < 0 else "<=0" if c0 == 0 else None
    return None


_CMP_BY_SIGN = {
    ast.Eq: {"0": True, ">0": False, "<0": False},
    ast.NotEq: {"0": False, ">0": True, "<0": True},
    ast.Gt: {"0": False, ">0": True, "<0": False, "<=0": False},
    ast.GtE: {"0": True, ">0": True, "<0": False, ">=0": True},
    ast.Lt: {"0": False, ">0": False, "<0": True, ">=0": False},
    ast.LtE: {"0": True, ">0": False, "<0": True, "<=0": True},
}


def _int_hooks(nonneg):
    """integer arithmetic on Polys whose symbols are non-negative integers"""
    def binop(it, node, op, A, B):
        if not B.is_const():
            raise AnalysisError(f"symbolic right operand in {ast.unparse(node)}")
        k = B.const_value()
        even_rest = all(c % 2 == 0 for m, c in A.t.items() if m != ())
        c0 = A.t.get((), Fraction(0))
        if c0.denominator != 1:
            raise AnalysisError("non-integer constant")
        c0 = int(c0)
        if (isinstance(op, ast.BitAnd) and k == 1) or (
                isinstance(op, ast.Mod) and k == 2):
            if even_rest:
                return c0 % 2
            raise AnalysisError("parity of a value that is not of the form "
                                "2*m + c")
        if (isinstance(op, ast.FloorDiv) and k == 2) or (
                isinstance(op, ast.RShift) and k == 1):
            if even_rest:
                return Poly({m: c / 2 for m, c in A.t.items() if m != ()}) + \
                    (c0 // 2)
            raise AnalysisError("halving a value that is not of the form 2*m + c")
        raise AnalysisError(f"integer operation {ast.unparse(node)} on a "
                            "symbolic value")

    def decide(it, node, v):
        if isinstance(v, Poly):
            s = _sign(v, nonneg)
            if s in (">0", "<0"):
                return True
            if s == "0":
                return False
        if isinstance(v, tuple) and v[0] == "compare":
            _, op, a, b = v
            if isinstance(a, (Poly, int)) and isinstance(b, (Poly, int)):
                s = _sign(Poly.lift(a) - Poly.lift(b), nonneg)
                r = _CMP_BY_SIGN.get(type(op), {}).get(s)
                if r is not None:
                    return r
        raise AnalysisError(f"cannot decide '{ast.unparse(node)}' on the "
                            "symbolic state")
    return binop, decide


# ---------------------------------------------------------------------------
# integer_power
# ---------------------------------------------------------------------------

def integer_power_rule(fn, max_n=12):
    """-> dict(witnesses=[(n, got)], inplace=[...], proved=bool, why=str)"""
    params = [a.arg for a in fn.args.args]
    if len(params) != 3:
        raise AnalysisError("integer_power: signature")
    out = {"witnesses": [], "inplace": [], "proved": False, "why": "",
           "checked_n": list(range(max_n + 1))}

    def inplace(it, st, cur):
        if isinstance(cur, Mon) and cur.ident is not None:
            out["inplace"].append((st.lineno, ast.unparse(st), cur.ident))

    # bounded: every n up to max_n, in the free monoid on one generator
    for n in range(max_n + 1):
        it = Interp(on_inplace=inplace if n <= 3 else None)
        try:
            got = it.call_function(fn, [Mon(1, "x"), n, Mon(0, "one")])
        except Raised as r:
            got = f"raises at line {r.node.lineno}"
        if not (isinstance(got, Mon) and got.k == n):
            out["witnesses"].append((n, repr(got)))
    seen = set()
    out["inplace"] = [x for x in out["inplace"]
                      if not (x in seen or seen.add(x))]

    # inductive: invariant  exponent(acc) + exponent(x) * n == N  and  n >= 0
    try:
        _integer_power_inductive(fn, params)
        out["proved"] = True
    except AnalysisError as e:
        out["why"] = str(e)
    return out


def _integer_power_inductive(fn, params):
    pre, loop, post = _top_loop(fn)
    X, Nn, One = params
    binop, decide0 = _int_hooks({"N", "m"})
    facts = {"n_nonneg": False}

    def decide_pre(it, node, v):
        # the refusal  n < 0 -> raise  : taken as the fact N >= 0 afterwards
        if isinstance(v, tuple) and v[0] == "compare":
            _, op, a, b = v
            d = Poly.lift(a) - Poly.lift(b)
            if d == Poly.sym("N") and isinstance(op, (ast.Lt,)):
                facts["n_nonneg"] = True
                return False
            if d == Poly.sym("N") + 1 and isinstance(op, (ast.LtE,)):
                facts["n_nonneg"] = True
                return False
        return decide0(it, node, v)

    def cut(it, node, env):
        raise CutLoop(node, dict(env))

    it = Interp(calls={"<binop>": binop}, decide=decide_pre, on_loop=cut)
    try:
        it.call_function(fn, [Mon(1), Poly.sym("N"), Mon(0)])
        raise AnalysisError("integer_power: the loop was not reached")
    except CutLoop as c:
        env0 = c.env
    if not facts["n_nonneg"]:
        raise AnalysisError("n < 0 is not refused before the loop")
    acc = [k for k, v in env0.items() if isinstance(v, Mon) and k not in
           (X, One)]
    if len(acc) != 1:
        raise AnalysisError("accumulator not recognised")
    acc = acc[0]
    n0 = Poly.lift(env0[Nn])
    # init: invariant holds on entry
    if not (env0[acc].k + env0[X].k * n0 == Poly.sym("N")):
        raise AnalysisError("the invariant acc * x**n == x0**N does not hold on "
                            "entry to the loop")
    if _sign(n0, {"N"}) not in (">=0", ">0", "0"):
        raise AnalysisError(f"n = {n0} on entry is not known to be >= 0")
    P, Q = Poly.sym("p"), Poly.sym("q")
    _, decide = _int_hooks({"m"})

    def body_once(nval):
        env = dict(env0)
        env[acc], env[X], env[Nn] = Mon(P), Mon(Q), nval
        itb = Interp(calls={"<binop>": binop}, decide=decide)
        want = P + Q * Poly.lift(nval)
        # the loop guard must admit this n
        if not itb.truth(loop.test, itb.eval(loop.test, env)):
            raise AnalysisError(f"the loop guard refuses n = {nval}")
        from .absint import _Return
        try:
            itb.block(loop.body, env)
        except _Return as r:
            if not (isinstance(r.value, Mon) and r.value.k == want):
                raise AnalysisError(f"a return inside the loop (n = {nval}) "
                                    f"yields {r.value!r}, not X**({want})")
            return
        n1 = Poly.lift(env[Nn])
        if not (env[acc].k + env[X].k * n1 == want):
            raise AnalysisError(f"one round from n = {nval} does not keep "
                                "acc * x**n")
        if _sign(n1, {"m"}) not in (">=0", ">0", "0"):
            raise AnalysisError(f"n = {n1} after a round is not known >= 0")
        if _sign(Poly.lift(nval) - n1, {"m"}) != ">0":
            raise AnalysisError("n does not decrease")
    m = Poly.sym("m")
    for nval in (1, 2 * m + 3, 2 * m + 2):
        body_once(nval)
    # exit: guard false and n >= 0  ==>  n == 0
    env = dict(env0)
    env[acc], env[X], env[Nn] = Mon(P), Mon(Q), 0
    ite = Interp(calls={"<binop>": binop}, decide=decide)
    if ite.truth(loop.test, ite.eval(loop.test, env)):
        raise AnalysisError("the loop guard admits n == 0")
    env[Nn] = m + 1
    if not ite.truth(loop.test, ite.eval(loop.test, env)):
        raise AnalysisError("the loop guard refuses some n >= 1")
    env[Nn] = 0
    from .absint import _Return
    try:
        ite.block(post, env)
        raise AnalysisError("no return after the loop")
    except _Return as r:
        if not (isinstance(r.value, Mon) and r.value.k == P):
            raise AnalysisError(f"after the loop {r.value!r} is returned, not "
                                "the accumulator")


# ---------------------------------------------------------------------------
# extended Euclid
# ---------------------------------------------------------------------------

def euclid_rule(fn, max_rounds=3):
    """the returned (g, a, b) satisfies g == a*q + b*r.
    -> dict(witnesses=[text], proved=bool, why=str, paths=int)"""
    A, B = Poly.sym("q0"), Poly.sym("r0")
    counter = [0]

    def fresh(prefix):
        counter[0] += 1
        return Poly.sym(f"{prefix}{counter[0]}")

    def mk_hooks(decider, rounds):
        def unknown_symbol(it, node, args, kw):
            return Poly.sym("u[" + ast.unparse(node) + "]")

        def divmod_(it, node, args, kw):
            a, b = args
            d = fresh("quot")
            return (d, Poly.lift(a) - d * Poly.lift(b))

        def recurse(it, node, args, kw):
            a, b = fresh("a"), fresh("b")
            return (a * Poly.lift(args[0]) + b * Poly.lift(args[1]), a, b)

        def binop(it, node, op, X, Y):
            if isinstance(op, (ast.FloorDiv, ast.Div)) and len(Y.t) == 1:
                # division by a unit (exact): multiplication by its inverse
                return X * (Y ** -1)
            raise AnalysisError(f"ring operation {ast.unparse(node)}")

        def decide(it, node, v):
            if isinstance(getattr(it, "_loop_test", None), ast.AST) and \
                    node is it._loop_test:
                if rounds[0] <= 0:
                    return False
                pol = decider("loop")
                if pol:
                    rounds[0] -= 1
                return pol
            return decider(ast.unparse(node))

        def attrs(it, node, base, attr):
            return Opaque(ast.unparse(node))
        calls = {"divmod": divmod_, fn.name: recurse, "<binop>": binop}
        return calls, decide, attrs, unknown_symbol

    class EInterp(Interp):
        def call(self, e, env):
            fname = ast.unparse(e.func)
            if fname in self.calls or (isinstance(e.func, ast.Name) and
                                       isinstance(env.get(e.func.id), Closure)):
                return super().call(e, env)
            # anything else (traits look-ups, unit/norm helpers) is opaque: a
            # value that only matters if it reaches the result
            args = self._elts(e.args, env)
            if any(isinstance(a, Poly) for a in args) and \
                    ast.unparse(e.func).split(".")[-1] not in (
                        "norm", "common_traits", "traits"):
                return Poly.sym("u[" + ast.unparse(e) + "]")
            return Opaque(ast.unparse(e))

        def compare(self, node, op, a, b):
            if isinstance(a, Opaque) or isinstance(b, Opaque):
                return self.decide(self, node, ("compare", op, a, b))
            return super().compare(node, op, a, b)

    loops = [st for st in ast.walk(fn) if isinstance(st, ast.While)]
    if len(loops) != 1:
        raise AnalysisError("extended_euclidean: loop not found")

    def check(res):
        if not (isinstance(res, tuple) and len(res) == 3):
            return f"returns {res!r}"
        g, a, b = (Poly.lift(x) for x in res)
        if g == a * A + b * B:
            return None
        return f"g = {g}, a = {a}, b = {b}:  a*q0 + b*r0 = {a * A + b * B}"

    out = {"witnesses": [], "proved": False, "why": "", "paths": 0}

    def run(decider):
        rounds = [max_rounds]
        calls, decide, attrs, _ = mk_hooks(decider, rounds)
        it = EInterp(calls=calls, decide=decide, attrs=attrs)
        it._loop_test = loops[0].test
        try:
            return it.call_function(fn, [A, B])
        except Raised as r:
            return ("raised", r.node.lineno)
    for decisions, res in explore(run, max_decisions=16):
        out["paths"] += 1
        if isinstance(res, tuple) and res and res[0] == "raised":
            continue
        bad = check(res)
        if bad:
            path = ", ".join(f"{lab}={'T' if pol else 'F'}"
                             for lab, pol in decisions)
            out["witnesses"].append(f"[{path}] {bad}")
    # inductive: linear relations v == W[0]*q0 + W[1]*r0 that hold on entry to
    # the loop are kept by one round from a generic state; the result from a
    # generic state satisfies the specification
    try:
        _euclid_inductive(fn, loops[0], EInterp, mk_hooks, A, B, check)
        out["proved"] = True
    except AnalysisError as e:
        out["why"] = str(e)
    return out


def _euclid_inductive(fn, loop, EInterp, mk_hooks, A, B, check):
    if loop not in fn.body:
        raise AnalysisError("loop is not at the top level")
    post = fn.body[fn.body.index(loop) + 1:]

    def cut(it, node, env):
        raise CutLoop(node, dict(env))
    envs = []

    def run(decider):
        calls, decide, attrs, _ = mk_hooks(decider, [0])
        it = EInterp(calls=calls, decide=decide, attrs=attrs, on_loop=cut)
        it._loop_test = loop.test
        try:
            it.call_function(fn, [A, B])
        except CutLoop as c:
            envs.append(c.env)
        except Raised:
            pass
    explore(run)
    if len(envs) != 1:
        raise AnalysisError(f"{len(envs)} ways reach the loop")
    env0 = envs[0]
    rels = []
    for v, val in env0.items():
        if not isinstance(val, Poly):
            continue
        for w, wv in env0.items():
            if isinstance(wv, tuple) and len(wv) == 2 and all(
                    isinstance(x, (Poly, int)) and not isinstance(x, bool)
                    for x in wv):
                if Poly.lift(wv[0]) * A + Poly.lift(wv[1]) * B == val:
                    rels.append((v, w))
    if len(rels) < 2:
        raise AnalysisError(f"linear relations on entry: {rels}")
    env = dict(env0)
    for v, w in rels:
        w0, w1 = Poly.sym(f"{w}0"), Poly.sym(f"{w}1")
        env[w] = (w0, w1)
        env[v] = w0 * A + w1 * B
    generic = dict(env)

    def one_round(decider):
        calls, decide, attrs, _ = mk_hooks(decider, [0])
        it = EInterp(calls=calls, decide=decide, attrs=attrs)
        e = dict(generic)
        it.block(loop.body, e)
        return e
    for _, e in explore(one_round):
        for v, w in rels:
            wv = e[w]
            if not (isinstance(wv, tuple) and len(wv) == 2 and Poly.lift(
                    wv[0]) * A + Poly.lift(wv[1]) * B == e[v]):
                raise AnalysisError(f"one round does not keep {v} == "
                                    f"{w}[0]*q + {w}[1]*r")

    from .absint import _Return

    def after(decider):
        calls, decide, attrs, _ = mk_hooks(decider, [0])
        it = EInterp(calls=calls, decide=decide, attrs=attrs)
        e = dict(generic)
        try:
            it.block(post, e)
        except _Return as r:
            return r.value
        return None
    for _, res in explore(after):
        bad = check(res)
        if bad:
            raise AnalysisError(f"from a state satisfying the invariant the "
                                f"function returns {bad}")
    return rels, generic, one_round, after


def euclid_gcd_rule(fn):
    """g is a *greatest* common divisor: (1) one round maps the pair (q, r) to
    a pair that is a unimodular combination of it (determinant +-1 over the
    ring extended by the quotient), so the ideal (q, r) never changes; (2) the
    loop is `while r:`, left only with r == 0, where the ideal is (q); (3) what
    is returned as g is that q, up to a unit.  With Bezout's identity (g is in
    the ideal of the inputs) this makes g a gcd.  -> None | reason string"""
    loops = [st for st in fn.body if isinstance(st, ast.While)]
    if len(loops) != 1:
        return "loop not at the top level"
    loop = loops[0]
    params = [a.arg for a in fn.args.args]
    if not (isinstance(loop.test, ast.Name) and loop.test.id in params):
        return f"the loop test '{ast.unparse(loop.test)}' is not the second " \
               "operand itself"
    qn, rn = params[0], loop.test.id
    if qn == rn:
        qn = params[1]
    Sq, Sr = Poly.sym("Sq"), Poly.sym("Sr")
    counter = [0]

    def divmod_(it, node, args, kw):
        counter[0] += 1
        d = Poly.sym(f"D{counter[0]}")
        return (d, Poly.lift(args[0]) - d * Poly.lift(args[1]))
    it = Interp(calls={"divmod": divmod_})
    env = {qn: Sq, rn: Sr}
    # other loop-carried variables (the cofactor rows) do not matter here
    for st in fn.body[:fn.body.index(loop)]:
        if isinstance(st, ast.Assign):
            try:
                it.stmt(st, env)
            except (AnalysisError, Raised):
                pass
    env[qn], env[rn] = Sq, Sr
    try:
        it.block(loop.body, env)
    except AnalysisError as e:
        return f"one round could not be interpreted: {e}"
    q1, r1 = Poly.lift(env[qn]), Poly.lift(env[rn])

    def coeffs(p_):
        a = Poly({tuple(x for x in m if x[0] != "Sq"): c for m, c in p_.t.items()
                  if dict(m).get("Sq") == 1 and "Sr" not in dict(m)})
        b = Poly({tuple(x for x in m if x[0] != "Sr"): c for m, c in p_.t.items()
                  if dict(m).get("Sr") == 1 and "Sq" not in dict(m)})
        if a * Sq + b * Sr != p_:
            raise AnalysisError("not linear in the pair")
        return a, b
    try:
        a, b = coeffs(q1)
        c, d = coeffs(r1)
    except AnalysisError:
        return "one round does not map (q, r) to linear combinations of q and r"
    det = a * d - b * c
    if not (det.is_const() and det.const_value() in (1, -1)):
        return (f"one round maps (q, r) to ({q1}, {r1}): determinant {det}, not "
                "+-1, so the common divisors of the pair change")
    # what is returned after the loop
    post = fn.body[fn.body.index(loop) + 1:]
    from .absint import _Return
    env2 = dict(env)
    env2[qn], env2[rn] = Sq, 0

    def run(decider):
        class E2(Interp):
            def call(self, e, env_):
                fname = ast.unparse(e.func)
                if fname in self.calls:
                    return super().call(e, env_)
                return Poly.sym("u[" + ast.unparse(e) + "]")
        it2 = E2(calls={"<binop>": lambda it_, n_, op, X, Y: X * (Y ** -1)
                        if isinstance(op, (ast.FloorDiv, ast.Div))
                        and len(Y.t) == 1 else (_ for _ in ()).throw(
                            AnalysisError("ring operation"))},
                 decide=lambda it_, n_, v: decider(ast.unparse(n_)),
                 attrs=lambda it_, n_, b_, at: Opaque(ast.unparse(n_)))
        e = dict(env2)
        try:
            it2.block(post, e)
        except _Return as r:
            return r.value
        return None
    for _, res in explore(run):
        if not (isinstance(res, tuple) and res):
            return f"returns {res!r}"
        g = Poly.lift(res[0])
        ratio_ok = False
        if len(g.t) == 1:
            (m, c_), = g.t.items()
            d_ = dict(m)
            if d_.get("Sq") == 1 and abs(c_) == 1 and all(
                    s_.startswith("u[") for s_ in d_ if s_ != "Sq"):
                ratio_ok = True
        if not ratio_ok:
            return f"what is returned as g ({g}) is not the last non-zero " \
                   "remainder up to a unit"
    return None


# ---------------------------------------------------------------------------
# Horner schemes over Polynomial.data
# ---------------------------------------------------------------------------

EXPONENT_SHAPES = [(), (0,), (1,), (3,), (0, 1), (0, 2), (1, 3), (2, 5),
                   (0, 1, 2), (1, 4, 6), (0, 3, 4, 7)]


def horner_value(exps):
    B = Poly.sym("B")
    tot = Poly()
    for i, e in enumerate(exps):
        tot = tot + Poly.sym(f"C{i}") * B ** e
    return tot


DEEP_EXPONENT_SHAPES = EXPONENT_SHAPES + [
    (2,), (0, 5), (3, 4), (1, 2, 3), (0, 2, 4, 6), (1, 3, 5, 7, 9), (0, 1, 2, 3, 4),
    (5, 6), (0, 10), (2, 3, 11)]


def helper_calls(me, class_node, self_value):
    """calls table entries for the private helper methods of a class:
    self._helper(...) is interpreted (static methods without the receiver)"""
    out = {}
    if class_node is None:
        return out
    for st in class_node.body:
        if isinstance(st, ast.FunctionDef) and st.name.startswith("_") and \
                not st.name.startswith("__"):
            static = any(ast.unparse(d) == "staticmethod"
                         for d in st.decorator_list)

            def call(it, n_, a, k, _fn=st, _static=static):
                return it.call_function(
                    _fn, ([] if _static else [self_value]) + list(a),
                    {"__kwargs__": dict(k)})
            out[f"{me}.{st.name}"] = call
    return out


def horner_numeric_rule(fn, consts=None, shapes=None, class_node=None):
    """EvaluationMapper.map_polynomial: the value returned for data
    ((e_i, C_i)) and base B is sum C_i * B**e_i, on every exponent shape."""
    params = [a.arg for a in fn.args.args]
    if len(params) < 2:
        raise AnalysisError(f"{fn.name}: signature")
    me, node = params[0], params[1]
    wit = []
    for exps in (shapes or EXPONENT_SHAPES):
        # coefficients are expression nodes: only rec() turns them into values
        data = tuple((e, Opaque(f"C{i}")) for i, e in enumerate(exps))

        def attrs(it, n_, base, attr):
            if isinstance(base, Opaque) and base.what == "node":
                if attr.lower() == "data":
                    return data
                if attr.lower() == "base":
                    return Opaque("base")
            raise AnalysisError(f"attribute {ast.unparse(n_)}")

        def rec(it, n_, args, kw):
            a = args[0]
            if isinstance(a, Opaque) and a.what == "base":
                return Poly.sym("B")
            if isinstance(a, Opaque) and a.what.startswith("C"):
                return Poly.sym(a.what)
            if isinstance(a, (Poly, int)):
                return a
            raise AnalysisError(f"rec() of {a!r}")

        def tree(it, n_, op, a, b):
            # arithmetic on an expression node builds a tree, not a value
            return Opaque("an expression tree (a coefficient node is used in "
                          f"'{ast.unparse(n_)}' without being evaluated)")
        self_v = Opaque("self")
        it = Interp(calls={f"{me}.rec": rec, me: rec, "<opaque-binop>": tree,
                           **helper_calls(me, class_node, self_v)},
                    attrs=attrs)
        env = dict(consts or {})
        try:
            got = it.call_function(fn, [self_v, Opaque("node")], env)
        except Raised as r:
            got = f"raises at line {r.node.lineno}"
        want = horner_value(exps)
        ok = isinstance(got, (Poly, int)) and not isinstance(got, bool) and \
            Poly.lift(got) == want
        if not ok:
            wit.append((exps, repr(got), repr(want)))
    return wit


def _poly_of_source(src):
    """Python source text of an arithmetic expression over names -> Poly"""
    try:
        tree = ast.parse(src, mode="eval").body
    except SyntaxError:
        return None

    def ev(e):
        if isinstance(e, ast.Name):
            return Poly.sym(e.id)
        if isinstance(e, ast.Constant) and isinstance(e.value, int):
            return Poly.const(e.value)
        if isinstance(e, ast.BinOp):
            a, b = ev(e.left), ev(e.right)
            if isinstance(e.op, ast.Add):
                return a + b
            if isinstance(e.op, ast.Sub):
                return a - b
            if isinstance(e.op, ast.Mult):
                return a * b
            if isinstance(e.op, ast.Pow):
                return a ** b
        if isinstance(e, ast.UnaryOp) and isinstance(e.op, ast.USub):
            return -ev(e.operand)
        if isinstance(e, ast.UnaryOp) and isinstance(e.op, ast.UAdd):
            return ev(e.operand)
        raise AnalysisError(f"generated text not arithmetic: {ast.unparse(e)}")
    return ev(tree)


def horner_text_rule(fn, consts, precs=(0, 100), shapes=None, class_node=None):
    """CompileMapper.map_polynomial: the *text* produced for data ((e_i, C_i))
    and base B, read as Python source, denotes sum C_i * B**e_i."""
    params = [a.arg for a in fn.args.args]
    me, node = params[0], params[1]
    wit = []
    for exps in (shapes or EXPONENT_SHAPES):
        data = tuple((e, Opaque(f"C{i}")) for i, e in enumerate(exps))

        def attrs(it, n_, base, attr):
            if isinstance(base, Opaque) and base.what == "node":
                if attr.lower() == "data":
                    return data
                if attr.lower() == "base":
                    return Opaque("B")
            raise AnalysisError(f"attribute {ast.unparse(n_)}")

        p_pow = consts.get("PREC_POWER")
        p_sum = consts.get("PREC_SUM")
        if not isinstance(p_pow, int) or not isinstance(p_sum, int):
            raise AnalysisError("PREC_POWER / PREC_SUM not found")
        for power_base in (False, True):
            def rec(it, n_, args, kw, _pb=power_base):
                a = args[0]
                if isinstance(a, Opaque) and a.what == "B" and _pb:
                    # the base is itself a power b**2: it prints the way
                    # map_power does, with parentheses above power level
                    pr = args[1] if len(args) > 1 else 0
                    if not isinstance(pr, int):
                        raise AnalysisError("precedence handed to the base")
                    return "(b**2)" if pr > p_pow else "b**2"
                if isinstance(a, Opaque) and (a.what == "B"
                                              or a.what.startswith("C")):
                    return a.what       # an atom: prints as its own name
                raise AnalysisError(f"printing of {a!r}")
            done = False
            for prec in tuple(precs) + (p_sum, p_sum + 1, p_pow):
                self_v = Opaque("self")
                it = Interp(calls={f"{me}.rec": rec, me: rec,
                                   **helper_calls(me, class_node, self_v)},
                            attrs=attrs)
                env = dict(consts)
                try:
                    got = it.call_function(fn, [self_v, Opaque("node"), prec],
                                           env)
                except Raised:
                    got = None
                want = horner_value(exps)
                if power_base:
                    want = _poly_of_source(
                        ast.unparse(ast.parse(repr(want), mode="eval"))
                    ) if False else _subst_sym(want, "B", Poly.sym("b") ** 2)
                val = _poly_of_source(got) if isinstance(got, str) else None
                if val is None or val != want:
                    wit.append((exps, prec, got, repr(want), power_base))
                    done = True
                    break
                # the text stands where the enclosing precedence says: above
                # sum level it is an operand of * / % **, read as a unit
                if prec > p_sum:
                    v2 = _poly_of_source(f"{got}**2")
                    v3 = _poly_of_source(f"K*{got}")
                    if v2 != want * want or v3 != Poly.sym("K") * want:
                        wit.append((exps, prec, f"{got}' as an operand: 'K*{got}"
                                    f"' / '{got}**2", repr(want), power_base))
                        done = True
                        break
    return wit


def _subst_sym(poly, name, repl):
    """poly with the symbol *name* replaced by the Poly *repl*"""
    out = Poly()
    for mono, c in poly.t.items():
        term = Poly.const(1) * c
        for n_, e in mono:
            term = term * ((repl if n_ == name else Poly.sym(n_)) ** e)
        out = out + term
    return out


# ---------------------------------------------------------------------------
# Polynomial's own arithmetic
# ---------------------------------------------------------------------------

def polynomial_arith_rule(model, deep=False):
    """Interpret Polynomial's operator methods on abstract instances over one
    base, with symbolic coefficients and concrete exponent lists, and compare
    the *value* (sum coeff * B**exp) of the result with the operation on the
    values.  -> (witnesses, n_cases)"""
    from .absint import Obj
    pc = model.cls("pymbolic.polynomial:Polynomial")
    pmod = pc.module
    _, ipow = model.func("pymbolic.algorithm:integer_power")

    def resolve(cls, name):
        mem = model.lookup(cls, name)
        if mem is None:
            return None
        if mem.kind == "func":
            return ("prop" if mem.is_property else "func", mem.node)
        node = mem.node.value if mem.kind == "ann" else mem.node
        if isinstance(node, ast.Call) and ast.unparse(node.func) == "property" \
                and node.args and isinstance(node.args[0], ast.Name):
            g = model.lookup(cls, node.args[0].id)
            if g is not None and g.kind == "func":
                return ("prop", g.node)
        if isinstance(node, ast.Name):       # alias  __truediv__ = __div__
            return resolve(cls, node.id)
        return None

    def mk(it, node, args, kw):
        o = Obj(pc)
        init = model.lookup(pc, "__init__")
        it.call_function(init.node, [o] + list(args), dict(it.globals, **{
            "__kw__": None}))
        return o

    def setattr_(it, node, args, kw):
        o, name, val = args
        o.fields[name] = val
        return None

    def isinst(it, node, args, kw):
        v, c = args
        if isinstance(c, Opaque) and c.what == "class Polynomial":
            return isinstance(v, Obj)
        if isinstance(c, Opaque) and c.what == "class FieldTraits":
            return True        # coefficients drawn from a field
        from .absint import default_isinstance
        r = default_isinstance(v, c)
        if r is not None:
            return r
        raise AnalysisError(f"isinstance(..., {c!r})")

    def quotient(it, node, args, kw):
        a, b = (Poly.lift(x) for x in args)
        if len(b.t) != 1:
            raise AnalysisError("division by a coefficient that is not a unit "
                                "of the abstract domain")
        return a * b ** -1

    def divmod_(it, node, args, kw):
        a, b = args
        if isinstance(a, Obj):
            return it.call_method(a, "__divmod__", [b], node)
        raise AnalysisError("divmod of coefficients")

    def int_(it, node, args, kw):
        return args[0]

    def decide(it, node, v):
        if isinstance(v, Poly):
            return True         # a generic (non-constant) coefficient is non-zero
        if isinstance(v, tuple) and v[0] == "compare":
            _, op, a, b = v
            if isinstance(a, str) or isinstance(b, str):
                r = isinstance(a, str) and isinstance(b, str) and a == b
                return r if isinstance(op, ast.Eq) else not r
        raise AnalysisError(f"cannot decide '{ast.unparse(node)}'")

    calls = {
        "Polynomial": mk, "object.__setattr__": setattr_, "isinstance": isinst,
        "quotient": quotient, "divmod": divmod_, "int": int_,
        "LexicalMonomialOrder": lambda it, n, a, k: Opaque("order"),
        "traits": lambda it, n, a, k: Opaque("traits"),
        "algorithm.integer_power": lambda it, n, a, k: it.call_function(
            ipow, list(a), dict(it.globals)),
    }
    glob = {"Polynomial": Opaque("class Polynomial"),
            "FieldTraits": Opaque("class FieldTraits"),
            "algorithm": Opaque("module algorithm")}
    for st in pmod.tree.body:
        if isinstance(st, ast.FunctionDef):
            glob[st.name] = Closure(st, glob)

    def value(o):
        if isinstance(o, (Poly, int, Fraction)) and not isinstance(o, bool):
            return Poly.lift(o)
        if not isinstance(o, Obj):
            raise AnalysisError(f"result {o!r} is not a Polynomial")
        tot = Poly()
        for e, c in o.fields["Data"]:
            tot = tot + Poly.lift(c) * Poly.sym("B") ** e
        return tot

    def wellformed(o):
        if not isinstance(o, Obj):
            return None
        exps = [e for e, _ in o.fields["Data"]]
        if exps != sorted(set(exps)):
            return f"exponents {exps} are not strictly increasing"
        for e, c in o.fields["Data"]:
            if isinstance(c, (int, Fraction)) and c == 0 or (
                    isinstance(c, Poly) and not c.t):
                return f"a zero coefficient is kept at exponent {e}"
        return None

    def poly(prefix, exps, coeffs=None):
        data = tuple((e, (coeffs[i] if coeffs else Poly.sym(f"{prefix}{i}")))
                     for i, e in enumerate(exps))
        return Obj(pc, {"Base": "x", "Data": data, "Unit": 1,
                        "VarLess": Opaque("order")})

    def new_interp():
        return Interp(calls=calls, decide=decide, resolve=resolve, globals_=glob,
                      max_steps=200000)

    shapes = [(), (0,), (2,), (0, 1), (1, 3), (0, 2, 5)]
    if deep:
        shapes += [(1,), (0, 1, 2), (1, 2, 4), (0, 3), (2, 3, 7), (0, 1, 2, 3)]
    wit = []
    n = 0

    def run(label, thunk, want, extra=None):
        nonlocal n
        n += 1
        from .absint import StepBound
        try:
            got = thunk()
        except Raised as r:
            wit.append(f"{label}: raises at line {r.node.lineno}")
            return
        except StepBound:
            wit.append(f"{label}: does not terminate (200000 interpreter steps "
                       "on operands with at most three terms)")
            return
        try:
            if extra is not None:
                bad = extra(got)
                if bad:
                    wit.append(f"{label}: {bad}")
                    return
            gv = value(got) if not isinstance(got, tuple) else None
            if gv is not None and gv != want:
                wit.append(f"{label}: value {gv} instead of {want}")
                return
            wf = wellformed(got)
            if wf:
                wit.append(f"{label}: {wf}")
        except AnalysisError as e:
            wit.append(f"{label}: {e}")

    for ea in shapes:
        a = poly("a", ea)
        run(f"-p, exponents {ea}", lambda: new_interp().obj_binop(
            ast.parse("0-p").body[0].value, ast.Sub(), 0, a)
            if False else new_interp().call_method(a, "__neg__", [], None),
            -value(a))
        for k in (0, 1, 2, 3):
            run(f"p**{k}, exponents {ea}",
                lambda k=k: new_interp().call_method(a, "__pow__", [k], None),
                value(a) ** k)
        s_ = Poly.sym("s")
        run(f"p*s and s*p, exponents {ea}",
            lambda: new_interp().call_method(a, "__mul__", [s_], None),
            value(a) * s_)
        run(f"s*p, exponents {ea}",
            lambda: new_interp().call_method(a, "__rmul__", [s_], None),
            value(a) * s_)
        for eb in shapes:
            b = poly("b", eb)
            for name, op, want in (
                    ("+", "__add__", value(a) + value(b)),
                    ("-", "__sub__", value(a) - value(b)),
                    ("*", "__mul__", value(a) * value(b))):
                run(f"p {name} q, exponents {ea} {name} {eb}",
                    lambda op=op: new_interp().call_method(a, op, [b], None),
                    want)
            if eb:
                def dm_ok(res, a=a, b=b):
                    if not (isinstance(res, tuple) and len(res) == 2):
                        return f"returns {res!r}"
                    q, r = res
                    if value(q) * value(b) + value(r) != value(a):
                        return (f"quotient*divisor + remainder = "
                                f"{value(q) * value(b) + value(r)}, not the "
                                "dividend")
                    dr = r.fields["Data"][-1][0] if r.fields["Data"] else -1
                    if dr >= b.fields["Data"][-1][0]:
                        return (f"remainder of degree {dr} is not below the "
                                f"divisor's degree {b.fields['Data'][-1][0]}")
                    return wellformed(q) or wellformed(r)
                run(f"divmod(p, q), exponents {ea} / {eb}",
                    lambda: new_interp().call_method(a, "__divmod__", [b], None),
                    None, extra=dm_ok)
    # zero scalars and zero coefficients handed to the constructor (what a
    # coefficient-rewriting mapper does when a coefficient becomes 0)
    a = poly("a", (0, 2))
    run("p * 0", lambda: new_interp().call_method(a, "__mul__", [0], None),
        Poly())
    run("0 * p", lambda: new_interp().call_method(a, "__rmul__", [0], None),
        Poly())
    run("Polynomial(x, ((1, a1), (2, 0)))",
        lambda: mk(new_interp(), None,
                   ["x", ((1, Poly.sym("a1")), (2, 0))], {}),
        Poly.sym("a1") * Poly.sym("B"))
    # cancellation: equal exponents whose coefficients sum to zero
    a = poly("a", (0, 2), [Poly.sym("a0"), Poly.const(2)])
    b = poly("b", (1, 2), [Poly.sym("b0"), Poly.const(-2)])
    run("p + q with cancelling leading terms",
        lambda: new_interp().call_method(a, "__add__", [b], None),
        value(a) + value(b))
    c = poly("c", (0, 1), [Poly.const(1), Poly.const(1)])
    d = poly("d", (0, 1), [Poly.const(1), Poly.const(-1)])
    run("(1 + x) * (1 - x): middle terms cancel",
        lambda: new_interp().call_method(c, "__mul__", [d], None),
        value(c) * value(d))
    run("p - p", lambda: new_interp().call_method(c, "__sub__", [c], None),
        Poly())
    return wit, n


# ---------------------------------------------------------------------------
# FFT against the discrete Fourier transform's definition
# ---------------------------------------------------------------------------

from .absint import Native, StepBound  # noqa: E402


class Vec(Native):
    """a vector of Polys with numpy's elementwise arithmetic"""

    def __init__(self, items):
        self.items = [Poly.lift(x) for x in items]

    def __len__(self):
        return len(self.items)

    def __getitem__(self, i):
        if isinstance(i, slice):
            return Vec(self.items[i])
        return self.items[i]

    def _zip(self, o, f):
        if isinstance(o, Vec):
            if len(o) != len(self):
                raise AnalysisError("vectors of different length combined")
            return Vec([f(a, b) for a, b in zip(self.items, o.items)])
        o = Poly.lift(o)
        return Vec([f(a, o) for a in self.items])

    def __mul__(self, o):
        return self._zip(o, lambda a, b: a * b)

    __rmul__ = __mul__

    def __add__(self, o):
        if isinstance(o, int) and o == 0:
            return self
        return self._zip(o, lambda a, b: a + b)

    __radd__ = __add__

    def __sub__(self, o):
        return self._zip(o, lambda a, b: a - b)

    def __neg__(self):
        return Vec([-a for a in self.items])

    def __truediv__(self, o):
        return self._zip(o, lambda a, b: a * (Poly.lift(b) ** -1))

    def __setitem__(self, i, v):
        self.items[i] = Poly.lift(v)

    def __repr__(self):
        return f"Vec({self.items})"


def _reduce_root(p, n):
    """exponents of the root of unity w taken modulo n (w**n == 1)"""
    out = Poly()
    for m, c in p.t.items():
        d = dict(m)
        if "w" in d:
            d["w"] %= n
        mono = tuple(sorted((s, e) for s, e in d.items() if e != 0))
        out = out + Poly({mono: c})
    return out


def fft_rule(model, lengths=range(1, 13), signs=(1, -1)):
    """fft(x, sign) interpreted on a vector of symbols equals, entry by entry,
    the transform's definition  F_k = sum_j x_j * z**(k*j),  z = exp(-2*pi*i*
    sign/n) -- an identity in Z[x_j][w]/(w**n - 1), w = exp(2*pi*i/n).
    ifft(y) equals (1/n) * the same sum with sign -1.
    -> (witnesses, n_cases)"""
    import math
    _, fn = model.func("pymbolic.algorithm:fft")
    _, ifn = model.func("pymbolic.algorithm:ifft")
    _, ff = model.func("pymbolic.algorithm:find_factors")
    wit = []
    cases = 0
    for n in lengths:
        for sign in signs:
            cases += 1
            state = {"n": n}

            def exp_(it, node, args, kw):
                a = args[0]
                if isinstance(a, Vec):
                    return Vec([exp_(it, node, [x], kw) for x in a.items])
                a = Poly.lift(a)
                if not a.t:
                    return Poly.const(1)
                # a == r * (2*J*PI)  ->  w ** (r*n)
                if len(a.t) != 1:
                    raise AnalysisError(f"exp of {a}")
                (m, c), = a.t.items()
                if dict(m) != {"J": 1, "PI": 1}:
                    raise AnalysisError(f"exp of {a}: not an angle")
                k = c / 2 * state["n"]
                if k.denominator != 1:
                    raise AnalysisError(f"angle {c}*pi*i is not a multiple of "
                                        f"2*pi/{state['n']}")
                return Poly.sym("w") ** (int(k) % state["n"])

            def arange(it, node, args, kw):
                lo, hi = (args + [None])[:2] if len(args) > 1 else (0, args[0])
                return Vec(list(range(lo, hi)))

            def concat(it, node, args, kw):
                out = []
                for v in args[0]:
                    out.extend(v.items if isinstance(v, Vec) else [v])
                return Vec(out)

            def sum_(it, node, args, kw):
                tot = 0
                for v in args[0]:
                    tot = v + tot if isinstance(v, Vec) else tot + v
                return tot

            def rec_fft(it, node, args, kw):
                env = {"pi": Poly.sym("PI")}
                params = [a.arg for a in fn.args.args]
                full = list(args) + [None] * (len(params) - len(args))
                # defaults of positional parameters
                d0 = len(params) - len(fn.args.defaults)
                for i in range(len(args), len(params)):
                    full[i] = it.eval(fn.args.defaults[i - d0], {})
                for a_, dflt in zip(fn.args.kwonlyargs, fn.args.kw_defaults):
                    env[a_.arg] = kw.get(a_.arg, it.eval(dflt, {})
                                         if dflt is not None else None)
                for k_, v_ in kw.items():
                    if k_ in params:
                        full[params.index(k_)] = v_
                return it.call_function(fn, full, dict(env))

            calls = {
                "custom_np.exp": exp_, "custom_np.arange": arange,
                "custom_np.concatenate": concat, "sum": sum_, "fft": rec_fft,
                "custom_np.dtype": lambda it, n_, a, k: Opaque("dtype"),
                "scalar_tp": lambda it, n_, a, k: a[0],
                "sqrt": lambda it, n_, a, k: math.sqrt(a[0]),
                "find_factors": lambda it, n_, a, k: it.call_function(
                    ff, a, {}),
                "len": lambda it, n_, a, k: len(a[0]),
            }

            def attrs(it, node, base, attr):
                return Opaque(ast.unparse(node))
            it = Interp(calls=calls, attrs=attrs, max_steps=400000)
            x = Vec([Poly.sym(f"x{j}") for j in range(n)])
            try:
                got = rec_fft(it, None, [x, sign], {
                    "complex_dtype": Opaque("complex"),
                    "custom_np": Opaque("numpy")})
            except Raised as r:
                wit.append(f"fft of length {n}, sign {sign}: raises at line "
                           f"{r.node.lineno}")
                continue
            except StepBound:
                wit.append(f"fft of length {n}, sign {sign}: does not terminate "
                           "(the recursion does not reach shorter vectors)")
                continue
            if not isinstance(got, Vec) or len(got) != n:
                wit.append(f"fft of length {n}: returns {got!r}")
                continue
            for k in range(n):
                want = Poly()
                for j in range(n):
                    want = want + Poly.sym(f"x{j}") * Poly.sym("w") ** (
                        (-sign * k * j) % n)
                if _reduce_root(got[k], n) != _reduce_root(want, n):
                    wit.append(f"fft of length {n}, sign {sign}, entry {k}: "
                               f"{_reduce_root(got[k], n)} instead of "
                               f"{_reduce_root(want, n)}")
                    break
            if sign != 1:
                continue
            # ifft(y)_j = (1/n) sum_k y_k * w**(j*k)
            cases += 1
            it = Interp(calls=calls, attrs=attrs, max_steps=400000)
            iparams = [a.arg for a in ifn.args.args]
            ienv = {a_.arg: None for a_ in ifn.args.kwonlyargs}
            ienv.update({"complex_dtype": Opaque("complex"),
                         "custom_np": Opaque("numpy")})
            try:
                got = it.call_function(
                    ifn, [x] + [None] * (len(iparams) - 1), ienv)
            except Raised as r:
                wit.append(f"ifft of length {n}: raises at line {r.node.lineno}")
                continue
            if not isinstance(got, Vec) or len(got) != n:
                wit.append(f"ifft of length {n}: returns {got!r}")
                continue
            for j in range(n):
                want = Poly()
                for k in range(n):
                    want = want + Poly.sym(f"x{k}") * Poly.sym("w") ** (
                        (j * k) % n) * Fraction(1, n)
                if _reduce_root(got[j], n) != _reduce_root(want, n):
                    wit.append(f"ifft of length {n}, entry {j}: "
                               f"{_reduce_root(got[j], n)} instead of "
                               f"{_reduce_root(want, n)}")
                    break
    # the symbolic FFT: wrappers mean their child (C02), the identity-mapping
    # clean-up pass preserves value (C04): under those two facts it is fft
    _, sfn = model.func("pymbolic.algorithm:sym_fft")
    for n in lengths:
        for sign in signs:
            cases += 1
            state_n = n

            def exp2(it, node, args, kw, _n=n):
                a = args[0]
                if isinstance(a, Vec):
                    return Vec([exp2(it, node, [x_], kw) for x_ in a.items])
                a = Poly.lift(a)
                if not a.t:
                    return Poly.const(1)
                (m_, c_), = a.t.items() if len(a.t) == 1 else ((None, None),)
                if m_ is None or dict(m_) != {"J": 1, "PI": 1}:
                    raise AnalysisError(f"exp of {a}")
                k_ = c_ / 2 * _n
                if k_.denominator != 1:
                    raise AnalysisError("angle is not a multiple of 2*pi/n")
                return Poly.sym("w") ** (int(k_) % _n)

            def rec_fft2(it, node, args, kw):
                env = {"pi": Poly.sym("PI"),
                       "custom_np": Opaque("numpy")}
                params = [a.arg for a in fn.args.args]
                full = list(args) + [None] * (len(params) - len(args))
                d0 = len(params) - len(fn.args.defaults)
                for i in range(len(args), len(params)):
                    full[i] = it.eval(fn.args.defaults[i - d0], {})
                for a_, dflt in zip(fn.args.kwonlyargs, fn.args.kw_defaults):
                    env[a_.arg] = kw.get(a_.arg, it.eval(dflt, {})
                                         if dflt is not None else None)
                for k_, v_ in kw.items():
                    if k_ in params:
                        full[params.index(k_)] = v_
                if env.get("complex_dtype") is None:
                    env["complex_dtype"] = Opaque("complex")
                if env.get("custom_np") is None:
                    env["custom_np"] = Opaque("numpy")
                return it.call_function(fn, full, env)
            import math as _math
            calls2 = {
                "custom_np.exp": exp2,
                "custom_np.arange": lambda it, n_, a, k: Vec(list(range(
                    a[0], a[1])) if len(a) > 1 else list(range(a[0]))),
                "custom_np.concatenate": lambda it, n_, a, k: Vec(
                    [y for v in a[0] for y in (v.items if isinstance(v, Vec)
                                               else [v])]),
                "sum": lambda it, n_, a, k: _vsum(a[0]),
                "fft": rec_fft2,
                "custom_np.dtype": lambda it, n_, a, k: Opaque("dtype"),
                "scalar_tp": lambda it, n_, a, k: a[0],
                "sqrt": lambda it, n_, a, k: _math.sqrt(a[0]),
                "find_factors": lambda it, n_, a, k: it.call_function(ff, a, {}),
                "len": lambda it, n_, a, k: len(a[0]),
                "warn": lambda it, n_, a, k: None,
                "numpy.empty": lambda it, n_, a, k: Vec([0] * a[0]),
                "CommonSubexpression": lambda it, n_, a, k: a[0],
                "NearZeroKiller": lambda it, n_, a, k: Opaque("identity-mapper"),
                "NearZeroKiller()": lambda it, n_, a, k: a[0],
            }
            it = Interp(calls=calls2, attrs=lambda it_, nd, b, at: Opaque(
                ast.unparse(nd)), max_steps=400000)
            x = Vec([Poly.sym(f"x{j}") for j in range(n)])
            try:
                got = it.call_function(sfn, [x, sign], {})
            except Raised as r:
                wit.append(f"sym_fft of length {n}: raises at line "
                           f"{r.node.lineno}")
                continue
            except StepBound:
                wit.append(f"sym_fft of length {n}: does not terminate")
                continue
            if not isinstance(got, Vec) or len(got) != n:
                wit.append(f"sym_fft of length {n}: returns {got!r}")
                continue
            for k in range(n):
                want = Poly()
                for j in range(n):
                    want = want + Poly.sym(f"x{j}") * Poly.sym("w") ** (
                        (-sign * k * j) % n)
                if _reduce_root(got[k], n) != _reduce_root(want, n):
                    wit.append(f"sym_fft of length {n}, sign {sign}, entry {k}: "
                               f"{_reduce_root(got[k], n)} instead of "
                               f"{_reduce_root(want, n)}")
                    break
    return wit, cases


def _vsum(seq):
    tot = 0
    for v in seq:
        tot = v + tot if isinstance(v, Vec) else tot + v
    return tot
