"""Handler summaries: provenance-tracking abstract evaluation along paths.

Abstract values are tuples:

  ("node",)                     the node parameter of the handler
  ("field", f)                  expr.f                    (declared field)
  ("attr", v, a)                v.a (anything else)
  ("elem", v)                   an element of iterable v
  ("index", v, k)               v[k]  (k constant) / v[?] (k = None)
  ("slice", v, lo, hi)
  ("vals", v) ("keys", v) ("items", v)
  ("zip", (v1, v2, ...))
  ("rec", v, fwd, extra)        self.rec(v, ...)  fwd = extras forwarded
  ("seq", ctor, elem, src, cond) comprehension / generator over src
  ("lit", ctor, (v...))         tuple/list literal
  ("dict", keyv, valv, src)     dict comprehension
  ("call", fname, (args...), ((k, v)...))
  ("ifexp", test_src, a, b)
  ("const", x)
  ("self", attr)
  ("param", name)
  ("varargs",) ("kwargs",)
  ("typeof", v)                 type(v) / v.__class__
  ("other", src)
"""
from __future__ import annotations

import ast
from dataclasses import dataclass, field

from . import AnalysisError
from . import cfg

NODE = ("node",)


@dataclass
class Event:
    kind: str            # rec | visit | post_visit | ctor | selfcall | call | read
    node: ast.AST
    arg: tuple | None = None     # provenance of first argument
    fwd_args: bool = True
    fwd_kwargs: bool = True
    extra: tuple = ()            # abstract values of other positional arguments
    name: str = ""               # callee / attribute name
    args: tuple = ()
    kwargs: tuple = ()
    in_loops: tuple = ()         # srcs of enclosing symbolic iterations
    value: tuple | None = None


@dataclass
class PathSummary:
    items: list
    events: list
    term: str                    # return | raise | end
    retval: tuple | None
    conds: list                  # [(test_node, polarity, abstract atoms)]
    env: dict
    gen_uses: dict               # local name -> number of loads while generator


@dataclass
class HandlerSig:
    self_name: str
    node_name: str | None
    params: list                 # further positional parameter names
    vararg: str | None
    kwarg: str | None


def signature(fn: ast.FunctionDef, plain=False) -> HandlerSig:
    a = fn.args
    names = [x.arg for x in a.posonlyargs + a.args]
    if plain:
        return HandlerSig("", None, names + [x.arg for x in a.kwonlyargs],
                          a.vararg.arg if a.vararg else None,
                          a.kwarg.arg if a.kwarg else None)
    return HandlerSig(
        names[0] if names else "self",
        names[1] if len(names) > 1 else None,
        names[2:],
        a.vararg.arg if a.vararg else None,
        a.kwarg.arg if a.kwarg else None)


REC_NAMES = {"rec", "__call__"}


class CondText(str):
    """source text of a comprehension filter; .val is its abstract value"""
    val = None


class Evaluator:
    """Abstract evaluation of one function along one path."""

    def __init__(self, fn, *, fields=None, props=None, rec_names=None,
                 node_param=None, assume_len=None, self_is_node=False,
                 plain=False, assume=None):
        self.fn = fn
        self.assume = assume or {}       # parameter name -> abstract value
        self.selfattrs = {}              # self.<attr> stored on this path
        self.sig = signature(fn, plain)
        self.fields = set(fields or ())
        self.props = props or {}          # name -> callable(evaluator) -> value
        self.rec_names = set(rec_names or REC_NAMES)
        self.node_param = (self.sig.node_name if node_param is None
                           else (node_param or None))
        self.assume_len = assume_len or {}   # field -> int
        self.self_is_node = self_is_node
        self.env: dict = {}
        self.events: list[Event] = []
        self.loops: list = []
        self.gen_loads: dict = {}
        self.conds: list = []
        self.feasible = True
        self.localfuncs: dict = {}
        self.method_alias: dict = {}     # name -> (ast.Attribute, value then)

    # ------------------------------------------------------------------
    def ev(self, e: ast.AST) -> tuple:
        m = getattr(self, "ev_" + type(e).__name__, None)
        if m is None:
            for c in ast.iter_child_nodes(e):
                if isinstance(c, ast.expr):
                    self.ev(c)
            return ("other", _src(e))
        return m(e)

    def ev_Constant(self, e):
        return ("const", e.value)

    def ev_Name(self, e):
        n = e.id
        if n in self.env:
            v = self.env[n]
            if v[0] == "seq" and v[1] == "gen":
                self.gen_loads[n] = self.gen_loads.get(n, 0) + 1
            return v
        if n == self.node_param and not self.self_is_node:
            return NODE
        if n == self.sig.self_name:
            return NODE if self.self_is_node else ("selfobj",)
        if n == self.sig.vararg:
            return ("varargs",)
        if n == self.sig.kwarg:
            return ("kwargs",)
        if n in self.sig.params or n == self.sig.node_name:
            if n in self.assume:
                return self.assume[n]
            return ("param", n)
        return ("global", n)

    def ev_Attribute(self, e):
        base = self.ev(e.value)
        a = e.attr
        if base == NODE:
            self.events.append(Event("read", e, name=a, in_loops=tuple(self.loops)))
            if a in self.props:
                return self.props[a](self)
            if a in self.fields:
                return ("field", a)
            if a == "__class__":
                return ("typeof", NODE)
            return ("attr", NODE, a)
        if base == ("selfobj",):
            # an attribute this very path has just stored reads back as the
            # stored value
            if a in self.selfattrs:
                return self.selfattrs[a]
            return ("self", a)
        if a == "__class__":
            return ("typeof", base)
        if a == "flat":
            return base
        return ("attr", base, a)

    def ev_Subscript(self, e):
        base = self.ev(e.value)
        sl = e.slice
        if isinstance(sl, ast.Slice):
            lo = self.ev(sl.lower) if sl.lower else None
            hi = self.ev(sl.upper) if sl.upper else None
            return ("slice", base, lo, hi)
        k = self.ev(sl)
        if base[0] == "lit" and k[0] == "const" and isinstance(k[1], int) \
                and -len(base[2]) <= k[1] < len(base[2]):
            return base[2][k[1]]
        if base[0] == "dict":
            # d[k] where k iterates the same source's keys -> value expr
            return ("dictget", base, k)
        if k[0] == "const":
            return ("index", base, k[1])
        return ("index", base, None, k)

    def ev_Tuple(self, e):
        vals = []
        for x in e.elts:
            if isinstance(x, ast.Starred):
                vals.append(("star", self.ev(x.value)))
            else:
                vals.append(self.ev(x))
        return ("lit", "tuple", tuple(vals))

    def ev_List(self, e):
        v = self.ev_Tuple(e)
        return ("lit", "list", v[2])

    def ev_Set(self, e):
        v = self.ev_Tuple(e)
        return ("lit", "set", v[2])

    def ev_Dict(self, e):
        ks = tuple(self.ev(k) if k is not None else ("star",) for k in e.keys)
        vs = tuple(self.ev(v) for v in e.values)
        return ("litdict", ks, vs)

    def ev_Starred(self, e):
        return ("star", self.ev(e.value))

    def ev_IfExp(self, e):
        c = self.cond_value(e.test)
        if c is True:
            return self.ev(e.body)
        if c is False:
            return self.ev(e.orelse)
        ct = CondText(_src(e.test))
        ct.val = self.ev(e.test)
        a = self.ev(e.body)
        b = self.ev(e.orelse)
        return ("ifexp", ct, a, b)

    def ev_BoolOp(self, e):
        vals = tuple(self.ev(v) for v in e.values)
        return ("boolop", type(e.op).__name__, vals)

    def ev_UnaryOp(self, e):
        v = self.ev(e.operand)
        if isinstance(e.op, ast.USub) and v[0] == "const" and isinstance(
                v[1], (int, float)) and not isinstance(v[1], bool):
            return ("const", -v[1])
        return ("unop", type(e.op).__name__, v)

    def ev_BinOp(self, e):
        return ("binop", type(e.op).__name__, self.ev(e.left), self.ev(e.right))

    def ev_Compare(self, e):
        left = self.ev(e.left)
        rights = tuple(self.ev(c) for c in e.comparators)
        return ("compare", tuple(type(o).__name__ for o in e.ops), left, rights)

    def ev_JoinedStr(self, e):
        parts = []
        for v in e.values:
            if isinstance(v, ast.FormattedValue):
                parts.append(self.ev(v.value))
            elif isinstance(v, ast.Constant):
                parts.append(("const", v.value))
        return ("fstring", tuple(parts))

    def ev_NamedExpr(self, e):
        v = self.ev(e.value)
        self.env[e.target.id] = v
        return v

    def ev_Lambda(self, e):
        # evaluate the body with the lambda's parameters bound to unknowns
        saved = dict(self.env)
        params = [a.arg for a in e.args.args]
        for p in params:
            self.env[p] = ("lambdaparam", p)
        body = self.ev(e.body)
        self.env = saved
        return ("lambda", tuple(params), body)

    # -- comprehensions ---------------------------------------------------
    def _comp(self, e, ctor):
        saved = dict(self.env)
        srcs = []
        conds = []
        pushed = 0
        for g in e.generators:
            src = self.ev(g.iter)
            srcs.append(src)
            self.bind_target(g.target, self.elem_of(src))
            self.loops.append(src)
            pushed += 1
            for c in g.ifs:
                ct = CondText(_src(c))
                ct.val = self.ev(c)
                conds.append(ct)
        if isinstance(e, ast.DictComp):
            k = self.ev(e.key)
            v = self.ev(e.value)
            res = ("dict", k, v, srcs[0] if len(srcs) == 1 else tuple(srcs))
            if conds:
                # a filtered dict comprehension carries its filters (5th slot)
                res = res + (tuple(conds),)
        else:
            el = self.ev(e.elt)
            res = ("seq", ctor, el, srcs[0] if len(srcs) == 1 else tuple(srcs),
                   tuple(conds))
        for _ in range(pushed):
            self.loops.pop()
        self.env = saved
        return res

    def ev_ListComp(self, e):
        return self._comp(e, "list")

    def ev_SetComp(self, e):
        return self._comp(e, "set")

    def ev_GeneratorExp(self, e):
        return self._comp(e, "gen")

    def ev_DictComp(self, e):
        return self._comp(e, "dict")

    # -- iteration helpers --------------------------------------------------
    def elem_of(self, src):
        if src[0] in ("sorted", "reversed"):
            return self.elem_of(src[1])
        if src[0] == "seq":
            return src[2]
        if src[0] == "zip":
            return ("lit", "tuple", tuple(self.elem_of(s) for s in src[1]))
        if src[0] == "items":
            return ("lit", "tuple", (("key", src[1]), ("val", src[1])))
        if src[0] == "vals":
            return ("val", src[1])
        if src[0] == "keys":
            return ("key", src[1])
        if src[0] == "enumerate":
            return ("lit", "tuple", (("other", "i"), self.elem_of(src[1])))
        if src[0] == "lit":
            # symbolic: any element
            return ("anyof", src[2])
        if src[0] == "dict":
            return src[1]
        return ("elem", src)

    def bind_target(self, t, v):
        if isinstance(t, ast.Name):
            self.env[t.id] = v
        elif isinstance(t, (ast.Tuple, ast.List)):
            for i, x in enumerate(t.elts):
                if v[0] == "lit" and len(v[2]) == len(t.elts):
                    self.bind_target(x, v[2][i])
                else:
                    self.bind_target(x, ("index", v, i))
        elif isinstance(t, ast.Starred):
            self.bind_target(t.value, ("other", "starred"))
        elif isinstance(t, ast.Attribute):
            base = self.ev(t.value)
            self.events.append(Event("attrwrite", t, arg=base, name=t.attr,
                                     value=v, in_loops=tuple(self.loops)))
            if base == ("selfobj",):
                if self.loops:
                    self.selfattrs.pop(t.attr, None)
                else:
                    self.selfattrs[t.attr] = v
        elif isinstance(t, ast.Subscript):
            base = self.ev(t.value)
            k = self.ev(t.slice)
            self.events.append(Event("itemwrite", t, arg=base, name=_src(t.value),
                                     value=v, args=(k,),
                                     in_loops=tuple(self.loops)))
            if isinstance(t.value, ast.Name) and t.value.id in self.env:
                src = self.loops[-1] if self.loops else None
                if base == ("litdict", (), ()):
                    self.env[t.value.id] = ("dict", k, v, src)
                else:
                    self.env[t.value.id] = ("dictextend", base, k, v, src)

    # -- calls --------------------------------------------------------------
    def ev_Call(self, e):
        f = e.func
        if isinstance(f, ast.Name) and f.id in self.method_alias and \
                self.env.get(f.id) == self.method_alias[f.id][1]:
            # lookup = self._cache.get; lookup(k, d)  ==  self._cache.get(k, d)
            attr_node = self.method_alias[f.id][0]
            e2 = ast.Call(func=attr_node, args=e.args, keywords=e.keywords)
            ast.copy_location(e2, e)
            return self.ev_Call(e2)
        # forwarding facts
        # (a local that holds the very tuple / dict -- a helper's parameter
        # after inlining, `a = args` -- forwards as well)
        fwd_a = self.sig.vararg is None or any(
            isinstance(a, ast.Starred) and isinstance(a.value, ast.Name)
            and (a.value.id == self.sig.vararg
                 or self.env.get(a.value.id) == ("varargs",)) for a in e.args)
        fwd_k = self.sig.kwarg is None or any(
            k.arg is None and isinstance(k.value, ast.Name)
            and (k.value.id == self.sig.kwarg
                 or self.env.get(k.value.id) == ("kwargs",)) for k in e.keywords)
        pos = [a for a in e.args if not isinstance(a, ast.Starred)]
        args = tuple(self.ev(a) for a in pos)
        for a in e.args:
            if isinstance(a, ast.Starred):
                sv = self.ev(a.value)
                if sv not in (("varargs",),):
                    args = args + (("star", sv),)
        kwargs = tuple((k.arg, self.ev(k.value)) for k in e.keywords)
        loops = tuple(self.loops)

        # "...".format(...) / ", ".join(...)
        if isinstance(f, ast.Attribute) and isinstance(f.value, ast.Constant) \
                and isinstance(f.value.value, str) and f.attr in ("format", "join"):
            return ("str" + f.attr, f.value.value, args, kwargs)

        # x.__class__(...)
        if isinstance(f, ast.Attribute) and f.attr == "__class__":
            callee = ("typeof", self.ev(f.value))
            self.events.append(Event("ctor", e, None, fwd_a, fwd_k, (), "typeof",
                                     args, kwargs, loops, value=callee))
            return ("ctor", callee, args, kwargs)

        # self.<something>(...)
        if isinstance(f, ast.Attribute):
            recv = self.ev(f.value)
            name = f.attr
            if recv == ("selfobj",):
                if name in self.rec_names:
                    ev = Event("rec", e, args[0] if args else None, fwd_a, fwd_k,
                               args[1:], name, args, kwargs, loops)
                    self.events.append(ev)
                    return ("rec", args[0] if args else None, fwd_a and fwd_k,
                            args[1:])
                if name in ("visit", "post_visit"):
                    self.events.append(Event(name, e, args[0] if args else None,
                                             fwd_a, fwd_k, args[1:], name, args,
                                             kwargs, loops))
                    return ("call", "self." + name, args, kwargs)
                self.events.append(Event("selfcall", e, args[0] if args else None,
                                         fwd_a, fwd_k, args[1:], name, args,
                                         kwargs, loops))
                return ("call", "self." + name, args, kwargs)
            if recv[0] == "self" and name in self.rec_names:
                # self.other_mapper.rec(...)
                self.events.append(Event("rec", e, args[0] if args else None,
                                         True, True, args[1:],
                                         f"{recv[1]}.{name}", args, kwargs, loops))
                return ("rec", args[0] if args else None, True, args[1:])
            if recv[0] == "self" and name in ("values", "keys", "items") \
                    and not args:
                return ({"values": "vals", "keys": "keys", "items": "items"}[name],
                        recv)
            if recv[0] == "self":
                # self.attr(...) : call of a stored callable / sub-mapper
                self.events.append(Event("selfattrcall", e,
                                         args[0] if args else None,
                                         fwd_a, fwd_k, args[1:], recv[1] + "." + name
                                         if False else name, args, kwargs, loops,
                                         value=recv))
                return ("call", f"self.{recv[1]}.{name}", args, kwargs)
            if isinstance(f.value, ast.Name) and f.value.id in self.env \
                    and name in ("extend", "update") and len(args) == 1 \
                    and self.env[f.value.id][0] in ("lit", "seq", "extend",
                                                    "binop", "call", "param",
                                                    "copy"):
                prior = self.env[f.value.id]
                if prior[0] == "lit":
                    self.env[f.value.id] = ("lit", prior[1],
                                            prior[2] + (("star", args[0]),))
                else:
                    self.env[f.value.id] = ("binop", "Add", prior, args[0])
            if isinstance(f.value, ast.Name) and name in ("append", "add") \
                    and len(args) == 1 and (
                        f.value.id in self.env
                        or (f.value.id in self.sig.params
                            and f.value.id not in self.assume)):
                # (a parameter that is appended to: the running value is the
                # parameter extended by the new element)
                prior = self.env.get(f.value.id, ("param", f.value.id))
                src = self.loops[-1] if self.loops else None
                if prior[0] == "lit" and not prior[2]:
                    self.env[f.value.id] = ("seq", prior[1], args[0], src, ())
                else:
                    self.env[f.value.id] = ("extend", prior, args[0], src)
            if name in ("values", "keys", "items") and not args:
                return ({"values": "vals", "keys": "keys", "items": "items"}[name],
                        recv)
            if isinstance(f.value, ast.Call) and isinstance(f.value.func, ast.Name) \
                    and f.value.func.id == "super":
                self.events.append(Event("supercall", e, args[0] if args else None,
                                         fwd_a, fwd_k, args[1:], name, args, kwargs,
                                         loops))
                return ("call", "super." + name, args, kwargs)
            if recv[0] == "global" and name.startswith("map_") and args \
                    and args[0] == ("selfobj",):
                # Base.map_x(self, expr, ...)
                self.events.append(Event("basecall", e,
                                         args[1] if len(args) > 1 else None,
                                         fwd_a, fwd_k, args[2:], name, args[1:],
                                         kwargs, loops, value=recv))
                return ("call", f"{recv[1]}.{name}", args, kwargs)
            if recv == NODE:
                self.events.append(Event("nodecall", e, args[0] if args else None,
                                         fwd_a, fwd_k, (), name, args, kwargs,
                                         loops))
                return ("call", "node." + name, args, kwargs)
            fname = _src(f)
            self.events.append(Event("call", e, args[0] if args else None, fwd_a,
                                     fwd_k, args[1:], fname, args, kwargs, loops,
                                     value=recv))
            if recv[0] not in ("global", "other"):
                return ("call", fname, args, kwargs, ("recv", recv, name))
            return ("call", fname, args, kwargs)

        if isinstance(f, ast.Name):
            n = f.id
            if n == "self" or (n in self.env and False):
                pass
            if n == self.sig.self_name and not self.self_is_node:
                ev = Event("rec", e, args[0] if args else None, fwd_a, fwd_k,
                           args[1:], "__call__", args, kwargs, loops)
                self.events.append(ev)
                return ("rec", args[0] if args else None, fwd_a and fwd_k, args[1:])
            if n in ("tuple", "list", "set", "frozenset", "sorted", "reversed") \
                    and len(args) == 1 and not kwargs:
                a = args[0]
                if a[0] == "seq":
                    return ("seq", n if n in ("tuple", "list", "set") else a[1],
                            a[2], a[3], a[4])
                if a[0] == "lit":
                    return ("lit", n, a[2])
                if a[0] in ("vals", "keys", "items", "field", "zip"):
                    if n in ("list", "tuple"):
                        return a
                    if n in ("sorted", "reversed"):
                        return (n, a)
                    return ("call", n, args, kwargs)
                if n in ("list", "tuple"):
                    return ("copy", a)      # same items, a fresh object
                return ("call", n, args, kwargs)
            if n == "immutabledict" and len(args) == 1 and not kwargs:
                return args[0]      # same content, and nobody can mutate it
            if n == "dict" and len(args) == 1 and not kwargs:
                return ("copy", args[0])    # same content, a fresh object
            # empty containers spelled as calls are the empty literals
            if not args and not kwargs:
                if n in ("list", "tuple", "set", "frozenset"):
                    return ("lit", n if n != "frozenset" else "set", ())
                if n == "dict":
                    return ("litdict", (), ())
            if n == "cast" and len(args) == 2:
                return args[1]      # typing.cast is the identity
            if n == "zip":
                return ("zip", args)
            if n == "enumerate" and args:
                return ("enumerate", args[0])
            if n == "type" and len(args) == 1:
                return ("typeof", args[0])
            if n == "iter" and len(args) == 1:
                return args[0]
            if n == "len" and len(args) == 1:
                a = args[0]
                if a[0] == "field" and a[1] in self.assume_len:
                    return ("const", self.assume_len[a[1]])
                return ("len", a)
            if n in self.localfuncs and self.env.get(n) == ("localfunc", n):
                r = self._inline(self.localfuncs[n], args, kwargs)
                if r is not None:
                    return r
            self.events.append(Event("call", e, args[0] if args else None, fwd_a,
                                     fwd_k, args[1:], n, args, kwargs, loops,
                                     value=self.env.get(n)))
            if n in self.env:
                return ("call", n, args, kwargs, self.env[n])
            return ("call", n, args, kwargs)

        # call of a call / subscript (type(expr)(...), table[x](...))
        callee = self.ev(f)
        if callee[0] == "typeof":
            self.events.append(Event("ctor", e, None, fwd_a, fwd_k, (), "typeof",
                                     args, kwargs, loops, value=callee))
            return ("ctor", callee, args, kwargs)
        self.events.append(Event("dyncall", e, args[0] if args else None, fwd_a,
                                 fwd_k, args[1:], _src(f), args, kwargs, loops,
                                 value=callee))
        return ("call", _src(f), args, kwargs, callee)

    def _inline(self, fn, args, kwargs):
        """inline a local helper whose body is a single return"""
        body = [st for st in fn.body if not (
            isinstance(st, ast.Expr) and isinstance(st.value, ast.Constant))]
        if len(body) != 1 or not isinstance(body[0], ast.Return) \
                or body[0].value is None:
            return None
        params = [a.arg for a in fn.args.args]
        if len(args) > len(params):
            return None
        saved = dict(self.env)
        for p, a in zip(params, args):
            self.env[p] = a
        for k, v in kwargs:
            if k in params:
                self.env[k] = v
        r = self.ev(body[0].value)
        self.env = saved
        return ("inlined", fn.name, r)

    # -- conditions ---------------------------------------------------------
    def cond_value(self, test):
        """Concrete truth value of *test* if it is decidable under the
        current assumptions, else None."""
        v = self.ev(test)
        return _truth(v)

    # -- statements ---------------------------------------------------------
    def exec_stmt(self, s):
        if isinstance(s, ast.Assign):
            v = self.ev(s.value)
            for t in s.targets:
                self.bind_target(t, v)
                # name = obj.method  (a bound method kept for a later call)
                if isinstance(t, ast.Name):
                    if isinstance(s.value, ast.Attribute):
                        self.method_alias[t.id] = (s.value, v)
                    else:
                        self.method_alias.pop(t.id, None)
        elif isinstance(s, ast.AnnAssign):
            if s.value is not None:
                v = self.ev(s.value)
                self.bind_target(s.target, v)
        elif isinstance(s, ast.AugAssign):
            v = self.ev(s.value)
            if isinstance(s.target, ast.Name):
                old = self.env.get(s.target.id, ("other", s.target.id))
                self.env[s.target.id] = ("binop", type(s.op).__name__, old, v)
            else:
                self.bind_target(s.target, ("binop", type(s.op).__name__,
                                            ("other", _src(s.target)), v))
        elif isinstance(s, ast.Expr):
            self.ev(s.value)
        elif isinstance(s, (ast.Import, ast.ImportFrom, ast.Pass, ast.Global,
                            ast.Nonlocal)):
            pass
        elif isinstance(s, ast.FunctionDef):
            self.env[s.name] = ("localfunc", s.name)
            self.localfuncs[s.name] = s
        elif isinstance(s, ast.Delete):
            pass
        else:
            raise AnalysisError(f"unsupported statement {type(s).__name__}")

    def run_path(self, items) -> PathSummary | None:
        retval = None
        term = "end"
        for it in items:
            k = it[0]
            if k == "stmt":
                self.exec_stmt(it[1])
            elif k == "cond":
                v = self.ev(it[1])
                t = _truth(v)
                if t is not None and t != it[2]:
                    return None   # infeasible under the assumptions
                # recorded with leading negations folded into the polarity
                pol = it[2]
                while isinstance(v, tuple) and len(v) == 3 and v[0] == "unop" \
                        and v[1] == "Not":
                    v, pol = v[2], not pol
                self.conds.append((it[1], pol, v))
            elif k == "for":
                src = self.ev(it[1].iter)
                self.bind_target(it[1].target, self.elem_of(src))
                self.loops.append(src)
            elif k == "endfor":
                if isinstance(it[1], ast.For) and self.loops:
                    self.loops.pop()
            elif k == "skipfor":
                self.ev(it[1].iter)
            elif k == "with":
                for wi in it[1].items:
                    v = self.ev(wi.context_expr)
                    if wi.optional_vars is not None:
                        self.bind_target(wi.optional_vars, v)
            elif k == "except":
                h = it[1]
                if h.name:
                    self.env[h.name] = ("other", "exc")
                self.conds.append((h, True, ("except", _src(h.type) if h.type
                                             else "BaseException")))
            elif k == "return":
                term = "return"
                retval = self.ev(it[1].value) if it[1].value is not None \
                    else ("const", None)
            elif k == "raise":
                term = "raise"
                if isinstance(it[1], ast.Raise) and it[1].exc is not None:
                    retval = self.ev(it[1].exc)
            elif k == "end":
                term = "end"
        return PathSummary(items, self.events, term, retval, self.conds,
                           dict(self.env), dict(self.gen_loads))


_PURE_STR_PREDICATES = ("startswith", "endswith", "isidentifier", "isdigit",
                        "isupper", "islower", "isalpha", "isalnum")


def _truth(v):
    if v[0] == "const":
        return bool(v[1])
    # a pure predicate method of a known string with known arguments
    if v[0] == "call" and len(v) > 4 and isinstance(v[4], tuple) and \
            v[4][0] == "recv" and v[4][1][0] == "const" and \
            isinstance(v[4][1][1], str) and v[4][2] in _PURE_STR_PREDICATES \
            and not v[3] and all(a[0] == "const" for a in v[2]):
        try:
            return bool(getattr(v[4][1][1], v[4][2])(*[a[1] for a in v[2]]))
        except (TypeError, ValueError):
            return None
    if v[0] == "unop" and v[1] == "Not":
        t = _truth(v[2])
        return None if t is None else not t
    if v[0] == "boolop":
        ts = [_truth(x) for x in v[2]]
        if v[1] == "And":
            if any(t is False for t in ts):
                return False
            return True if all(t is True for t in ts) else None
        if any(t is True for t in ts):
            return True
        return False if all(t is False for t in ts) else None
    if v[0] == "compare" and len(v[1]) == 1:
        op, left, right = v[1][0], v[2], v[3][0]
        if op in ("In", "NotIn") and left[0] == "const" and right[0] == "lit" \
                and all(x[0] == "const" for x in right[2]):
            try:
                inside = left[1] in [x[1] for x in right[2]]
            except TypeError:
                return None
            return inside if op == "In" else not inside
        if left[0] == "const" and right[0] == "const":
            a, b = left[1], right[1]
            import operator as _o
            fn_ = {"Gt": _o.gt, "GtE": _o.ge, "Lt": _o.lt, "LtE": _o.le,
                   "Eq": _o.eq, "NotEq": _o.ne, "Is": _o.is_,
                   "IsNot": _o.is_not}.get(op)
            if fn_ is None:
                return None
            try:
                return bool(fn_(a, b))
            except TypeError:
                return None
        # an indexed child is taken to be present (the all-non-None case)
        if op in ("Is", "IsNot") and right == ("const", None) \
                and left[0] in ("index", "elem") and left[1][0] == "field":
            return op == "IsNot"
    return None


def facts_of(v, pol):
    """the atomic facts a condition establishes when it evaluates to *pol*:
    yields (value, polarity) with negations pushed inwards -- a true
    conjunction makes every conjunct true, a false disjunction every disjunct
    false; what cannot be split (a true disjunction, a false conjunction) is
    yielded whole"""
    if isinstance(v, tuple) and v:
        if v[0] == "unop" and v[1] == "Not":
            yield from facts_of(v[2], not pol)
            return
        if v[0] == "boolop" and ((v[1] == "And" and pol)
                                 or (v[1] == "Or" and not pol)):
            for x in v[2]:
                yield from facts_of(x, pol)
            return
    yield v, pol


def _src(n):
    try:
        return ast.unparse(n)
    except Exception:
        return type(n).__name__


# ---------------------------------------------------------------------------
# convenience
# ---------------------------------------------------------------------------

_INLINE_HOOK = None


def set_inline_hook(hook):
    """hook(fn) -> fn with calls to new private helpers inlined (pv/inline.py)"""
    global _INLINE_HOOK
    _INLINE_HOOK = hook


def summarize(fn, *, fields=(), props=None, loop_mode="1", assume_len=None,
              rec_names=None, self_is_node=False, node_param=None, plain=False,
              assume=None):
    """All feasible path summaries of *fn*."""
    if _INLINE_HOOK is not None:
        fn = _INLINE_HOOK(fn)
    out = []
    for items in cfg.paths(fn, loop_mode):
        ev = Evaluator(fn, fields=fields, props=props, assume_len=assume_len,
                       rec_names=rec_names, self_is_node=self_is_node,
                       node_param=node_param, plain=plain, assume=assume)
        ps = ev.run_path(items)
        if ps is not None:
            out.append(ps)
    return out


def content(v):
    """*v* with every ("copy", x) replaced by x: what a value holds, whichever
    object holds it (list(x), tuple(x), dict(x) of an opaque x)"""
    if isinstance(v, CondText):
        return v
    if isinstance(v, tuple):
        if len(v) == 2 and v[0] == "copy":
            return content(v[1])
        return tuple(content(x) for x in v)
    return v


def case_split(v, limit=16):
    """the variants of *v* with every conditional expression inside it resolved
    to one of its arms (the same condition takes the same arm everywhere):
    what the value is on each of the paths an if/else statement would have
    made.  -> [value, ...]; [v] if there are too many conditions"""
    conds = []

    def collect(x):
        if isinstance(x, tuple) and not isinstance(x, CondText):
            if len(x) == 4 and x[0] == "ifexp" and str(x[1]) not in conds:
                conds.append(str(x[1]))
            for y in x:
                collect(y)
    collect(v)
    if not conds or 2 ** len(conds) > limit:
        return [v]
    import itertools
    out = []
    for bits in itertools.product((True, False), repeat=len(conds)):
        choice = dict(zip(conds, bits))

        def subst(x):
            if isinstance(x, tuple) and not isinstance(x, CondText):
                if len(x) == 4 and x[0] == "ifexp":
                    return subst(x[2] if choice[str(x[1])] else x[3])
                return tuple(subst(y) for y in x)
            return x
        out.append(subst(v))
    return out


def split_conditionals(v, limit=8, keep=None):
    """like case_split, with the condition each variant stands under:
    -> [(((abstract test, polarity), ...), value)]; conditional expressions
    whose test `keep(test value)` is true stay as they are"""
    tests = []

    def collect(x):
        if isinstance(x, tuple) and not isinstance(x, CondText):
            if len(x) == 4 and x[0] == "ifexp" and isinstance(x[1], CondText) \
                    and x[1].val is not None and not (keep and keep(x[1].val)):
                if str(x[1]) not in [str(t) for t in tests]:
                    tests.append(x[1])
            for y in x:
                collect(y)
    collect(v)
    if not tests or 2 ** len(tests) > limit:
        return [((), v)]
    import itertools
    out = []
    for bits in itertools.product((True, False), repeat=len(tests)):
        choice = {str(t): b for t, b in zip(tests, bits)}

        def subst(x):
            if isinstance(x, tuple) and not isinstance(x, CondText):
                if len(x) == 4 and x[0] == "ifexp" and str(x[1]) in choice:
                    return subst(x[2] if choice[str(x[1])] else x[3])
                r = tuple(subst(y) for y in x)
                if len(r) == 3 and r[0] == "lit" and isinstance(r[2], tuple):
                    # (*(<a>, <b>), c)  is  (a, b, c)
                    flat = []
                    for it in r[2]:
                        if isinstance(it, tuple) and len(it) == 2 and \
                                it[0] == "star" and isinstance(it[1], tuple) \
                                and len(it[1]) == 3 and it[1][0] == "lit" and \
                                it[1][1] in ("tuple", "list"):
                            flat.extend(it[1][2])
                        else:
                            flat.append(it)
                    r = (r[0], r[1], tuple(flat))
                return r
            return x
        out.append((tuple((t.val, b) for t, b in zip(tests, bits)), subst(v)))
    return out


def base_field(v, depth=0):
    """The declared field (or pseudo attribute) a value is derived from by
    element/index/value projections *without* passing through rec; None if
    it is not a pure projection of one field."""
    if v is None or depth > 12:
        return None
    t = v[0]
    if t == "field":
        return v[1]
    if t in ("elem", "vals", "val", "items", "keys", "key", "sorted", "reversed"):
        return base_field(v[1], depth + 1)
    if t in ("index", "slice"):
        return base_field(v[1], depth + 1)
    if t == "attr" and v[1] == NODE:
        return v[2]
    if t == "attr":
        return base_field(v[1], depth + 1)
    return None


def contains(v, pred, depth=0):
    if depth > 40 or not isinstance(v, tuple):
        return False
    if v and isinstance(v[0], str) and pred(v):
        return True
    return any(contains(x, pred, depth + 1) for x in v if isinstance(x, tuple))


def rec_fields(v):
    """Set of base fields f such that rec(projection of f) occurs inside v."""
    out = set()

    def walk(x, depth=0):
        if depth > 40 or not isinstance(x, tuple):
            return
        if x and x[0] == "rec":
            b = base_field(x[1])
            if b is not None:
                out.add(b)
        for y in x:
            if isinstance(y, tuple):
                walk(y, depth + 1)
    walk(v)
    return out


def mentioned_fields(v):
    out = set()

    def walk(x, depth=0):
        if depth > 40 or not isinstance(x, tuple):
            return
        if x and x[0] == "field":
            out.add(x[1])
        if x and x[0] == "attr" and x[1] == NODE:
            out.add(x[2])
        for y in x:
            if isinstance(y, tuple):
                walk(y, depth + 1)
    walk(v)
    return out
