"""Operator-grammar engine.

* ParserTable: extracted from pymbolic/parser.py (lex table, precedence
  constants, one recognised *shape* per parse_postfix / parse_prefix branch).
* ModelParser: a generic precedence-climbing parser driven only by that table.
* Tree language shared with the printer model (pv/printer.py):

    ("Var", name) ("Const", value)
    (Cls, child, ...)                for fixed-arity nodes, children in field order
    (Cls, (child, ...))              for n-ary nodes (one tuple of children)
    ("Comparison", left, op, right)
    ("Call", f, (args...)) ("CallWithKwargs", f, (args...), ((k, v)...))
    ("Lookup", agg, name) ("Subscript", agg, index)
    ("Tuple", (items...)) ("Slice", (items...))  items may be None
"""
from __future__ import annotations

import ast
import re
from dataclasses import dataclass, field

from . import AnalysisError, ModelViolation
from .summary import summarize

PARSER = "pymbolic.parser"

NARY = {"Sum", "Product", "BitwiseOr", "BitwiseXor", "BitwiseAnd", "LogicalOr",
        "LogicalAnd", "Min", "Max"}


class ModelParseError(Exception):
    pass


# ---------------------------------------------------------------------------
# extraction
# ---------------------------------------------------------------------------

@dataclass
class Branch:
    tags: tuple                 # token tags that select the branch
    guard: str | None           # precedence constant name
    guard_op: str               # ">" | ">="
    shape: str                  # INFIX | CALL | SUBSCRIPT | LOOKUP | IF | COLON | COMMA
    cls: str | None = None
    right_prec: str | int | None = None
    build: str | None = None    # BIN | BIN_REV | COMP | PAIR | FLATTEN | FLATTEN_NEG
    extra: dict = field(default_factory=dict)
    lineno: int = 0


@dataclass
class ParserTable:
    consts: dict
    lex: list                   # [(tag, rule)] rule: ("re", pat) | ("seq", [...]) | ("alt", [...]) | ("ref", tag)
    comp_table: dict            # tag -> operator string
    postfix: list               # [Branch] in source order
    prefix: dict                # tag -> (op, operand_prec)   op: "pos"|"neg"|Cls|"paren"|"bracket"|"colon"|"wildcard"
    terminals: dict             # tag -> kind
    tagvars: dict               # module variable name -> tag string
    prefix_bare_slice: tuple = (None,)   # children of the Slice for a lone ':'
    prefix_follow: str = "join"          # ':' followed by an expression
    module: object = None
    # prefix tag -> tags of literal tokens read by parse_terminal directly
    prefix_terminal_if: dict = field(default_factory=dict)
    # does "( ... )" hand back a *closed* tuple (one a following comma must
    # wrap, not extend)?  read per form from the paths of the branch
    paren_final: dict = field(default_factory=lambda: {"empty": True,
                                                       "parsed": True})

    def prec(self, name):
        if isinstance(name, int):
            return name
        if name is None:
            return 0
        try:
            return self.consts[name]
        except KeyError:
            raise AnalysisError(f"parser precedence constant {name} not found")


def _tagvars(model, m):
    out = {}
    for key, (mm, val) in model.module_assigns.items():
        if mm is m and isinstance(val, ast.Call) and ast.unparse(val.func) in (
                "intern", "sys.intern") and val.args and isinstance(
                val.args[0], ast.Constant):
            out[key.split(":")[1]] = val.args[0].value
    return out


def _consts(model, m, prefix):
    out = {}
    for st in m.tree.body:
        if isinstance(st, ast.Assign) and len(st.targets) == 1 and isinstance(
                st.targets[0], ast.Name) and st.targets[0].id.startswith(prefix):
            try:
                out[st.targets[0].id] = _fold(st.value, out)
            except AnalysisError:
                pass
    return out


def _fold(e, env):
    if isinstance(e, ast.Constant) and isinstance(e.value, (int, float)):
        return e.value
    if isinstance(e, ast.Name) and e.id in env:
        return env[e.id]
    if isinstance(e, ast.BinOp) and isinstance(e.op, (ast.Add, ast.Sub)):
        a, b = _fold(e.left, env), _fold(e.right, env)
        return a + b if isinstance(e.op, ast.Add) else a - b
    if isinstance(e, ast.UnaryOp) and isinstance(e.op, ast.USub):
        return -_fold(e.operand, env)
    raise AnalysisError(f"cannot fold {ast.unparse(e)}")


def _lex_rule(e, tagvars):
    if isinstance(e, ast.Call) and ast.unparse(e.func).endswith("RE") and e.args \
            and isinstance(e.args[0], ast.Constant):
        return ("re", e.args[0].value)
    if isinstance(e, ast.Name) and e.id in tagvars:
        return ("ref", tagvars[e.id])
    if isinstance(e, ast.Tuple):
        if e.elts and isinstance(e.elts[0], ast.Constant) and e.elts[0].value == "|":
            return ("alt", [_lex_rule(x, tagvars) for x in e.elts[1:]])
        return ("seq", [_lex_rule(x, tagvars) for x in e.elts])
    raise AnalysisError(f"lex rule not understood: {ast.unparse(e)}")


def extract_parser_table(model) -> ParserTable:
    m = model.repo.module(PARSER)
    tagvars = _tagvars(model, m)
    consts = _consts(model, m, "_PREC_")
    P = model.cls(f"{PARSER}:Parser")
    lt = P.members.get("lex_table")
    if lt is None:
        raise AnalysisError("Parser.lex_table not found")
    val = lt.node.value if isinstance(lt.node, ast.AnnAssign) else lt.node
    if not isinstance(val, ast.List):
        raise AnalysisError("Parser.lex_table is not a list literal")
    lex = []
    for el in val.elts:
        if not (isinstance(el, ast.Tuple) and len(el.elts) == 2
                and isinstance(el.elts[0], ast.Name)
                and el.elts[0].id in tagvars):
            raise AnalysisError(f"lex_table entry not understood: "
                                f"{ast.unparse(el)}")
        lex.append((tagvars[el.elts[0].id], _lex_rule(el.elts[1], tagvars)))
    ct = P.members.get("_COMP_TABLE")
    cval = ct.node.value if isinstance(ct.node, ast.AnnAssign) else ct.node
    comp = {}
    pairs = None
    if isinstance(cval, ast.Dict):
        pairs = list(zip(cval.keys, cval.values))
    elif isinstance(cval, ast.Call) and ast.unparse(cval.func) == "dict" and \
            len(cval.args) == 1 and not cval.keywords:
        # dict(<sequence of (tag, operator) pairs>), literal or module constant
        src = cval.args[0]
        if isinstance(src, ast.Name):
            key = f"{m.name}:{src.id}"
            src = model.module_assigns.get(key, (None, None))[1]
        if isinstance(src, (ast.Tuple, ast.List)) and all(
                isinstance(x, (ast.Tuple, ast.List)) and len(x.elts) == 2
                for x in src.elts):
            pairs = [(x.elts[0], x.elts[1]) for x in src.elts]
    if pairs is None or not all(
            isinstance(k, ast.Name) and k.id in tagvars
            and isinstance(v, ast.Constant) for k, v in pairs):
        raise AnalysisError("Parser._COMP_TABLE: not a table of "
                            "(tag, operator string) entries the checker can read")
    for k, v in pairs:
        comp[tagvars[k.id]] = v.value
    table = ParserTable(consts, lex, comp, [], {}, {}, tagvars, m)
    _extract_postfix(model, P, table)
    _extract_prefix(model, P, table)
    _extract_terminals(model, P, table)
    _extract_join(model, table)
    return table


def _extract_join(model, table):
    """_join_to_slice(left, right): a right operand that is a Slice has its
    children spliced in after left, anything else makes the pair (left, right)"""
    m, fn = model.func(f"{PARSER}:_join_to_slice")
    if len(fn.args.args) < 2 or len(fn.args.defaults) < len(fn.args.args) - 2:
        raise AnalysisError("_join_to_slice: arity")
    Lp, Rp = (("param", a.arg) for a in fn.args.args[:2])
    where = f"pymbolic/parser.py:{fn.lineno}"
    saw = {}
    from .summary import split_conditionals
    for ps, extra, v in [(ps, extra, v) for ps in summarize(fn, plain=True)
                         if ps.term == "return"
                         for extra, v in split_conditionals(ps.retval)]:
        is_slice = None
        for pol, c in [(pol, c) for _, pol, c in ps.conds] + [
                (b, c) for c, b in extra]:
            if isinstance(c, tuple) and c[0] == "call" and c[1] == "isinstance" \
                    and c[2][0] == Rp and _clsname(str(c[2][1][-1])) == "Slice":
                is_slice = pol
        if not (v[0] == "call" and _clsname(v[1]) == "Slice" and len(v[2]) == 1
                and v[2][0][0] == "lit"):
            raise AnalysisError(f"_join_to_slice returns {v}")
        items = v[2][0][2]
        if items == (Lp, ("star", ("attr", Rp, "children"))):
            form = "splice"
        elif items == (Lp, Rp):
            form = "pair"
        else:
            raise AnalysisError(f"_join_to_slice builds Slice from {items}")
        saw[is_slice] = form
    if saw.get(True) == "pair" or (None in saw and saw[None] == "pair"
                                   and True not in saw):
        raise ModelViolation(
            "T/parser/slice-join/following-slice-spliced", where,
            "_join_to_slice no longer splices the children of a following "
            "slice in: 'a:b:c' is read as Slice((a, Slice((b, c))))")
    if saw != {True: "splice", False: "pair"}:
        raise AnalysisError(f"_join_to_slice: paths {saw}")


def _chain(stmt):
    """flatten an if/elif chain -> [(test, body)], else-body"""
    out = []
    while True:
        out.append((stmt.test, stmt.body))
        if len(stmt.orelse) == 1 and isinstance(stmt.orelse[0], ast.If):
            stmt = stmt.orelse[0]
        else:
            return out, stmt.orelse


def _wrap(body, params, ret):
    fn = ast.FunctionDef(
        name="_branch", args=ast.arguments(
            posonlyargs=[], args=[ast.arg(arg=p) for p in params], vararg=None,
            kwonlyargs=[], kw_defaults=[], kwarg=None, defaults=[]),
        body=list(body) + [ast.Return(value=ast.Name(id=ret, ctx=ast.Load()))],
        decorator_list=[], lineno=body[0].lineno, col_offset=0)
    ast.fix_missing_locations(fn)
    return fn


LEFT = ("param", "left_exp")


def _bare_slice(vals, where):
    """the children pattern of the Slice built when nothing follows a colon:
    a tuple of "L" (the left operand) and None entries, read from the one
    returned value that is a Slice literal"""
    pats = set()
    for v in vals:
        if isinstance(v, tuple) and v[0] == "call" and \
                v[1].split(".")[-1] == "Slice" and len(v[2]) == 1 and \
                v[2][0][0] == "lit" and v[2][0][1] == "tuple":
            pat = []
            if any(_is_parse_call(x) for x in v[2][0][2]):
                continue        # the Slice around what follows: _follow_form
            for x in v[2][0][2]:
                if x == LEFT:
                    pat.append("L")
                elif x == ("const", None):
                    pat.append(None)
                else:
                    raise AnalysisError(f"{where}: slice built from {x} when "
                                        "nothing follows the colon")
            pats.add(tuple(pat))
    if len(pats) != 1:
        raise AnalysisError(f"{where}: expected one Slice literal for a colon "
                            f"with nothing after it, found {sorted(pats, key=str)}")
    return pats.pop()


def _follow_form(vals, where, left):
    """how the Slice is built when an expression follows the colon: "join"
    (through _join_to_slice: a following slice's children are spliced in) or
    "wrap" (a plain Slice((left, next)): a following slice stays nested)"""
    forms = set()
    for v in vals:
        if not (isinstance(v, tuple) and v and v[0] == "call"):
            continue
        name = v[1].split(".")[-1]
        if name == "_join_to_slice" and len(v[2]) >= 2 and v[2][0] == left \
                and _is_parse_call(v[2][1]):
            forms.add("join")
        elif name == "Slice" and len(v[2]) == 1 and v[2][0][0] == "lit" and \
                any(_is_parse_call(x) for x in v[2][0][2]):
            items = v[2][0][2]
            if len(items) == 2 and items[0] == left and _is_parse_call(items[1]):
                forms.add("wrap")
            else:
                raise AnalysisError(f"{where}: slice around the following "
                                    f"expression built from {items}")
    if len(forms) != 1:
        raise AnalysisError(f"{where}: how the following expression is joined "
                            f"was not recognised ({sorted(forms)})")
    return forms.pop()


def _is_parse_call(v):
    return isinstance(v, tuple) and v and v[0] == "call" \
        and v[1] == "self.parse_expression"


def _parse_prec(v):
    args = v[2]
    if len(args) < 2:
        return 0
    a = args[1]
    if a[0] == "global":
        return a[1]
    if a[0] == "const":
        return a[1]
    raise AnalysisError(f"parse_expression precedence not understood: {a}")


def _clsname(fname):
    return fname.split(".")[-1]


def _extract_postfix(model, P, table):
    owner, fn = model.require_method(f"{PARSER}:Parser", "parse_postfix")
    fn = resolve_negation_helpers(model, fn)
    fn = model.inlined(fn)      # (private helpers are read as their bodies)
    chains = [s for s in fn.body if isinstance(s, ast.If)]
    if len(chains) != 1:
        raise AnalysisError("parse_postfix: expected one if/elif chain")
    branches, orelse = _chain(chains[0])
    if orelse:
        raise AnalysisError("parse_postfix: unexpected else branch")
    params = [a.arg for a in fn.args.args]
    for test, body in branches:
        if not (isinstance(test, ast.BoolOp) and isinstance(test.op, ast.And)
                and len(test.values) == 2):
            raise AnalysisError(f"parse_postfix branch test not understood: "
                                f"{ast.unparse(test)}")
        t0, t1 = test.values
        tags = None
        if isinstance(t0, ast.Compare) and ast.unparse(t0.left) == "next_tag":
            if isinstance(t0.ops[0], ast.Is) and isinstance(
                    t0.comparators[0], ast.Name):
                tags = (table.tagvars[t0.comparators[0].id],)
            elif isinstance(t0.ops[0], ast.In) and ast.unparse(
                    t0.comparators[0]) == "self._COMP_TABLE":
                tags = tuple(table.comp_table)
        if tags is None:
            raise AnalysisError(f"branch tag test not understood: "
                                f"{ast.unparse(t0)}")
        if not (isinstance(t1, ast.Compare) and isinstance(t1.left, ast.Name)
                and isinstance(t1.ops[0], (ast.Gt, ast.GtE))
                and ast.unparse(t1.comparators[0]) == "min_precedence"):
            raise AnalysisError(f"branch guard not understood: "
                                f"{ast.unparse(t1)}")
        guard = t1.left.id
        gop = ">" if isinstance(t1.ops[0], ast.Gt) else ">="
        br = _recognise_postfix(tags, guard, gop, body, params, table)
        br.lineno = test.lineno
        table.postfix.append(br)


def _recognise_chain(tags, guard, gop, body, params, table):
    """A comparison branch that reads a whole chain  a < b <= c ...  in a loop
    and builds the conjunction of its links.  Recognised piecewise:
      * one `while` whose test requires the next token to be a comparison,
      * its body (analysed as a function of the running left operand): looks
        the operator up by the *current* token, advances, parses the right
        operand, appends Comparison(left, op, right) to one list and makes the
        right operand the next link's left operand,
      * after the loop the result is the only link, or the node that the
        closing expression builds over all links in order.
    -> Branch, or None if the branch has no such loop."""
    loops = [st for st in body if isinstance(st, ast.While)]
    if not loops:
        return None
    if len(loops) != 1 or any(isinstance(x, (ast.While, ast.For))
                              for st in loops[0].body for x in ast.walk(st)):
        raise AnalysisError("comparison branch: more than one loop")
    w = loops[0]
    i = body.index(w)
    pre, post = body[:i], body[i + 1:]
    if w.orelse:
        raise AnalysisError("comparison branch: while/else")
    # the loop test: (not at end) and next_tag() in the comparison table
    tests = w.test.values if isinstance(w.test, ast.BoolOp) and isinstance(
        w.test.op, ast.And) else [w.test]
    member = [t for t in tests if isinstance(t, ast.Compare)
              and isinstance(t.ops[0], ast.In)
              and ast.unparse(t.comparators[0]) == "self._COMP_TABLE"
              and ast.unparse(t.left) == "pstate.next_tag()"]
    others = [t for t in tests if t not in member]
    if len(member) != 1 or any(ast.unparse(t) != "not pstate.is_at_end()"
                               for t in others):
        raise AnalysisError("comparison branch: loop test not understood: "
                            + ast.unparse(w.test))
    # names: the list of links is the one local the loop appends to
    lists = {c.func.value.id for st in w.body for c in ast.walk(st)
             if isinstance(c, ast.Call) and isinstance(c.func, ast.Attribute)
             and c.func.attr == "append" and isinstance(c.func.value, ast.Name)}
    if len(lists) != 1:
        raise AnalysisError("comparison branch: expected one list of links")
    L = lists.pop()
    inits = [st for st in pre if isinstance(st, ast.Assign)
             and isinstance(st.targets[0], ast.Name) and st.targets[0].id == L]
    if len(inits) != 1 or not (isinstance(inits[0].value, ast.List)
                               and not inits[0].value.elts):
        raise AnalysisError("comparison branch: the list of links does not "
                            "start empty")
    for st in pre:
        if st is inits[0] or isinstance(st, (ast.Import, ast.ImportFrom)):
            continue
        raise AnalysisError("comparison branch: statement before the loop not "
                            "understood: " + ast.unparse(st))
    # ---- the loop body, as a function of (left_exp, links) ----
    fn = _wrap(w.body, [*params, L], "left_exp")
    pss = [ps for ps in summarize(fn, node_param=False) if ps.term == "return"]
    if len(pss) != 1:
        raise AnalysisError("comparison branch: the loop body branches")
    ps = pss[0]
    calls = [e for e in ps.events if e.kind in ("call", "selfcall")]
    names = [e.name for e in calls]
    if "pstate.advance" not in names or names.count("parse_expression") != 1:
        raise AnalysisError("comparison branch: the loop body does not advance "
                            "and parse exactly one operand")
    # the operator is looked up before the token is consumed
    adv = names.index("pstate.advance")
    tag_reads = [i for i, n in enumerate(names) if n == "pstate.next_tag"]
    where = f"pymbolic/parser.py:{w.lineno}"
    if not tag_reads or max(tag_reads) > adv:
        raise ModelViolation(
            "T/parser/comparison-chain/operator-token", where,
            "the comparison operator is looked up after the token has been "
            "consumed: the look-up sees the first token of the right operand")
    right = ps.retval                     # left_exp after the body
    if right == LEFT:
        raise ModelViolation(
            "T/parser/comparison-chain/links-share-operand", where,
            "the right operand of a link does not become the left operand of "
            "the next: 'a < b < c' is read as (a < b) and (a < c)")
    if not _is_parse_call(right):
        raise AnalysisError("comparison branch: the right operand does not "
                            "become the next link's left operand")
    rp = _parse_prec(right)
    link = ps.env.get(L)
    OP = ("index", ("self", "_COMP_TABLE"), None,
          ("call", "pstate.next_tag", (), ()))
    ok = (isinstance(link, tuple) and link[0] == "extend"
          and link[1] == ("param", L) and link[2][0] == "call"
          and _clsname(link[2][1]) == "Comparison")
    if ok:
        a = link[2][2]
        opv = a[1] if len(a) == 3 else None
        if len(a) == 3 and a[0] == right and a[2] == LEFT:
            raise ModelViolation(
                "T/parser/comparison-chain/operand-order", where,
                "a link is built as Comparison(right, op, left): the operands "
                "of every comparison are swapped")
        ok = len(a) == 3 and a[0] == LEFT and a[2] == right and \
            isinstance(opv, tuple) and opv[0] == "index" and \
            opv[1] == ("self", "_COMP_TABLE") and "next_tag" in str(opv[3])
    if not ok:
        raise AnalysisError("comparison branch: a link is not Comparison(left, "
                            "table[token], right) appended to the list: "
                            f"{link}")
    # ---- after the loop ----
    fn2 = _wrap(post, [*params, L], "left_exp")
    pss2 = [ps for ps in summarize(fn2, node_param=False) if ps.term == "return"]
    if len(pss2) != 1 or pss2[0].env.get("did_something") != ("const", True):
        raise AnalysisError("comparison branch: closing statements not "
                            "understood / did_something not set")
    res = pss2[0].retval
    LL = ("param", L)
    joined = None
    if isinstance(res, tuple) and res[0] == "ifexp" and len(res) == 4:
        cond = getattr(res[1], "val", None)
        one = ("compare", ("Eq",), ("len", LL), (("const", 1),))
        single, many = (res[2], res[3]) if cond == one else (None, None)
        if single == ("index", LL, 0) and isinstance(many, tuple) and \
                many[0] == "call" and many[2] in ((("copy", LL),), (LL,)):
            joined = _clsname(many[1])
    if joined not in NARY:
        raise AnalysisError("comparison branch: the result is not 'the only "
                            "link, else <n-ary node>(all links)': "
                            f"{res}")
    return Branch(tags, guard, gop, "INFIX", "Comparison", rp, "COMP",
                  extra={"chain": joined})


def _recognise_postfix(tags, guard, gop, body, params, table):
    if tags == tuple(table.comp_table):
        br = _recognise_chain(tags, guard, gop, body, params, table)
        if br is not None:
            return br
        # no loop: a branch that decides by the *class* of what stands to the
        # left whether it continues a chain cannot tell  (a < b) < c  -- a
        # comparison whose left operand is a parenthesised comparison -- from
        # a < b < c: the parentheses are gone by the time the tree is looked at
        for st in body:
            for c in ast.walk(st):
                if isinstance(c, ast.Call) and ast.unparse(c.func) == \
                        "isinstance" and len(c.args) == 2 and \
                        ast.unparse(c.args[0]).split(".")[0] == "left_exp" and \
                        {"Comparison", "LogicalAnd"} & {
                            x.id if isinstance(x, ast.Name) else x.attr
                            for x in ast.walk(c.args[1])
                            if isinstance(x, (ast.Name, ast.Attribute))}:
                    raise ModelViolation(
                        "T/parser/comparison-chain/decided-by-tokens",
                        f"pymbolic/parser.py:{c.lineno}",
                        "the comparison branch continues a chain when the "
                        "left operand *is* a comparison "
                        f"({ast.unparse(c)}): '(a < b) < c' is then read as "
                        "(a < b) and (b < c) -- what was parsed in parentheses "
                        "is indistinguishable from the links read so far")
    wrapped = _wrap(body, params, "left_exp")
    pss = [ps for ps in summarize(wrapped, node_param=False)
           if ps.term == "return"]
    src = "\n".join(ast.unparse(s) for s in body)
    tag = tags[0]
    # every path must set did_something = True
    for ps in pss:
        if ps.env.get("did_something") != ("const", True):
            raise AnalysisError(f"branch for {tag}: a path does not set "
                                "did_something")
    vals = [ps.retval for ps in pss]
    evs = [[e for e in ps.events if e.kind in ("selfcall", "call")]
           for ps in pss]

    def calls(ps_events, name):
        return [e for e in ps_events if e.name == name]

    first = evs[0]
    advances = [e for e in first if e.name == "pstate.advance"]
    if not advances:
        raise AnalysisError(f"branch for {tag} never advances")
    # --- call ---------------------------------------------------------------
    if "parse_arglist" in src:
        clss = set()
        for v in vals:
            if v[0] == "call":
                clss.add(_clsname(v[1]))
        if clss != {"Call", "CallWithKwargs"}:
            raise AnalysisError(f"call branch builds {clss}")
        # argument roles
        for v in vals:
            args = v[2]
            okc = args[0] == LEFT and args[1][0] == "index" and args[1][2] == 0
            if _clsname(v[1]) == "CallWithKwargs":
                okc = okc and len(args) == 3 and str(args[2]).count(
                    "parse_arglist") >= 1 and args[2] != args[1]
            if not okc:
                raise AnalysisError("call branch: argument roles not "
                                    "(function, args, kwargs)")
        return Branch(tags, guard, gop, "CALL")
    parse_calls_per_path = [
        [e for e in es if e.kind == "selfcall" and e.name == "parse_expression"]
        for es in evs]
    # --- lookup ---------------------------------------------------------------
    if all(v[0] == "call" and _clsname(v[1]) == "Lookup" for v in vals):
        v = vals[0]
        if v[2][0] != LEFT or "next_str" not in str(v[2][1]):
            raise AnalysisError("lookup branch: roles")
        if not any(e.name == "pstate.expect" for e in first):
            raise AnalysisError("lookup branch does not expect an identifier")
        return Branch(tags, guard, gop, "LOOKUP", "Lookup")
    # --- subscript --------------------------------------------------------------
    if all(v[0] == "call" and _clsname(v[1]) == "Subscript" for v in vals):
        v = vals[0]
        if v[2][0] != LEFT or not _is_parse_call(v[2][1]):
            raise AnalysisError("subscript branch: roles")
        expects = [e for e in first if e.name == "pstate.expect"]
        if not expects or expects[-1].args[0] != ("global", "_closebracket"):
            raise AnalysisError("subscript branch: missing expect(])")
        return Branch(tags, guard, gop, "SUBSCRIPT", "Subscript",
                      right_prec=_parse_prec(v[2][1]))
    # --- ternary ------------------------------------------------------------------
    if all(v[0] == "call" and _clsname(v[1]) == "If" for v in vals):
        v = vals[0]
        c, t, e = v[2]
        if t != LEFT or not _is_parse_call(c) or not _is_parse_call(e):
            raise AnalysisError("if branch: roles are not If(condition, "
                                "then=left, else)")
        pcs = parse_calls_per_path[0]
        # condition is parsed first, then 'else' expected, then else-branch
        order_ok = len(pcs) == 2 and pcs[0].node is _call_node_of(first, c)
        expects = [x for x in first if x.name == "pstate.expect"
                   and x.args and x.args[0] == ("global", "_else")]
        if not expects:
            raise AnalysisError("if branch: 'else' not expected")
        return Branch(tags, guard, gop, "IF", "If", extra={
            "cond_prec": _parse_prec(c), "else_prec": _parse_prec(e),
            "cond_first": _src_pos(pcs, c) < _src_pos(pcs, e)})
    # --- colon / comma --------------------------------------------------------------
    if "_join_to_slice" in src:
        precs = {_parse_prec(ast_call_value(e)) for es in parse_calls_per_path
                 for e in es}
        return Branch(tags, guard, gop, "COLON", "Slice",
                      right_prec=precs.pop() if len(precs) == 1 else None,
                      extra={"bare": _bare_slice(vals, "postfix colon"),
                             "follow": _follow_form(vals, "postfix colon", LEFT)})
    if tag == "comma":
        precs = {_parse_prec(ast_call_value(e)) for es in parse_calls_per_path
                 for e in es}
        # a container that has been closed by its bracket is a finished value:
        # a following comma must wrap it, not absorb / extend it

        def not_final(ps):
            from .summary import facts_of
            for _, pol, c in ps.conds:
                for x, p_ in facts_of(c, pol):
                    if isinstance(x, tuple) and x and x[0] == "call" and \
                            x[1] == "isinstance" and x[2][0] == LEFT and \
                            "FinalizedContainer" in str(x[2][1]) and not p_:
                        return True
            return False

        # which tokens (besides the end of input) end a list after a comma
        closers = set()
        n_tests = 0
        for st in body:
            for c in ast.walk(st):
                if isinstance(c, ast.Compare) and len(c.ops) == 1 and \
                        ast.unparse(c.left) == "pstate.next_tag()":
                    n_tests += 1
                    rhs = c.comparators[0]
                    names = rhs.elts if isinstance(rhs, (ast.Tuple, ast.List,
                                                         ast.Set)) else [rhs]
                    # (`is X` / `in (X, Y)` ends the list, `is not X` /
                    # `not in (X, Y)` continues it: the same set of closers)
                    if not isinstance(c.ops[0], (ast.Is, ast.Eq, ast.In, ast.IsNot,
                                                 ast.NotEq, ast.NotIn)) or \
                            not all(isinstance(n_, ast.Name)
                                    and n_.id in table.tagvars for n_ in names):
                        raise AnalysisError("comma branch: look-ahead test not "
                                            "understood: " + ast.unparse(c))
                    closers |= {table.tagvars[n_.id] for n_ in names}
        if n_tests != 1:
            raise AnalysisError("comma branch: expected one look-ahead test on "
                                f"the token after the comma, found {n_tests}")
        flags = {"trailing": True, "extend": True}
        seen = set()
        for ps in pss:
            rv = ps.retval
            if rv == LEFT:
                seen.add("trailing")
                flags["trailing"] &= not_final(ps)
            elif rv[0] == "lit" and rv[1] == "tuple" and rv[2] and \
                    rv[2][0] == ("star", LEFT):
                seen.add("extend")
                flags["extend"] &= not_final(ps)
        if seen != {"trailing", "extend"}:
            raise AnalysisError("comma branch: absorb/extend paths not recognised")
        return Branch(tags, guard, gop, "COMMA", "Tuple",
                      right_prec=precs.pop() if len(precs) == 1 else None,
                      extra={"final_respected": flags,
                             "closers": frozenset(closers)})
    # --- infix operators ----------------------------------------------------------------
    clss = {(_clsname(v[1]) if v[0] == "call" else None) for v in vals}
    if len(clss) != 1 or None in clss:
        raise AnalysisError(f"branch for {tag}: builds {clss}")
    cls = clss.pop()
    precs = set()
    for v in vals:
        for sub in _walk(v):
            if _is_parse_call(sub):
                precs.add(_parse_prec(sub))
    if len(precs) != 1:
        raise AnalysisError(f"branch for {tag}: operand precedences {precs}")
    rp = precs.pop()
    builds = set()
    for ps, v in zip(pss, vals):
        args = v[2]
        b = _classify_build(cls, args, ps)
        builds.add(b)
    if len(builds) == 1 and next(iter(builds)) in (
            "BIN", "COMP", "PAIR", "BIN_REV", "COMP_REV", "PAIR_REV", "PAIR_NEG"):
        return Branch(tags, guard, gop, "INFIX", cls, rp, builds.pop())
    splice = builds & {"SPLICE", "SPLICE_NEG"}
    pair = builds & {"PAIR", "PAIR_NEG"}
    if len(builds) == 2 and len(splice) == 1 and len(pair) == 1:
        return Branch(tags, guard, gop, "INFIX", cls, rp, "FLATTEN", extra={
            "neg_splice": "SPLICE_NEG" in splice, "neg_pair": "PAIR_NEG" in pair})
    raise AnalysisError(f"branch for {tag}: build shapes {builds} not recognised")


def ast_call_value(e):
    # Event -> abstract value of the call (args of the event)
    return ("call", "self.parse_expression", e.args, ())


def _src_pos(pcs, v):
    for i, e in enumerate(pcs):
        if e.args == v[2]:
            return i
    return -1


def _call_node_of(events, v):
    for e in events:
        if e.kind == "selfcall" and e.name == "parse_expression" and e.args == v[2]:
            return e.node
    return None


def _walk(v, depth=0):
    if not isinstance(v, tuple) or depth > 30:
        return
    yield v
    for x in v:
        if isinstance(x, tuple):
            yield from _walk(x, depth + 1)


def resolve_negation_helpers(model, fn):
    """Calls `h(x)` of module-level one-argument helpers of the parser module
    inside *fn* are judged by interpretation (pv/opjudge.py): a helper that is
    `-x` for every operand is read as the unary minus it stands for; one that
    negates some operands and not others is a violation."""
    from .opjudge import judge_negation_helper
    m = model.repo.module(PARSER)
    helpers = {}
    for st in m.tree.body:
        if isinstance(st, ast.FunctionDef) and len(st.args.args) == 1 and \
                not st.args.vararg and not st.args.kwarg:
            helpers[st.name] = st
    used = {c.func.id for c in ast.walk(fn) if isinstance(c, ast.Call)
            and isinstance(c.func, ast.Name) and c.func.id in helpers
            and len(c.args) == 1 and not c.keywords}
    verdicts = {}
    for name in sorted(used):
        try:
            is_neg, wit = judge_negation_helper(model, m, helpers[name])
        except AnalysisError:
            continue
        if is_neg and wit:
            raise ModelViolation(
                f"T/parser/negation-helper/{name}",
                f"pymbolic/parser.py:{helpers[name].lineno}",
                f"{name}() stands for unary minus in {fn.name} but is not "
                "the negation of every operand: " + "; ".join(wit[:2])
                + " (the parser flattens -b*c into one product, so "
                "'a - -b*c' loses c)")
        verdicts[name] = is_neg and not wit
    if not any(verdicts.values()):
        return fn
    import copy

    class _R(ast.NodeTransformer):
        def visit_Call(self, node):
            self.generic_visit(node)
            if isinstance(node.func, ast.Name) and verdicts.get(node.func.id) \
                    and len(node.args) == 1 and not node.keywords:
                return ast.copy_location(
                    ast.UnaryOp(op=ast.USub(), operand=node.args[0]), node)
            return node
    out = _R().visit(copy.deepcopy(fn))
    ast.fix_missing_locations(out)
    return out


def _classify_build(cls, args, ps):
    """how does the constructor combine left_exp and the right operand?"""
    def is_right(x):
        return _is_parse_call(x)

    def is_neg_right(x):
        return x[0] == "unop" and x[1] == "USub" and is_right(x[2])

    guarded_same = any(
        pol and isinstance(v, tuple) and v[0] == "call" and v[1] == "isinstance"
        and v[2][0] == LEFT and str(v[2][1]).endswith(f"{cls}')")
        for _, pol, v in ps.conds)
    if len(args) == 2 and args[0] == LEFT and is_right(args[1]):
        return "BIN"
    if len(args) == 2 and is_right(args[0]) and args[1] == LEFT:
        return "BIN_REV"
    if len(args) == 3 and args[0] == LEFT and is_right(args[2]) \
            and args[1][0] == "index" and args[1][1] == ("self", "_COMP_TABLE"):
        return "COMP"
    if len(args) == 3 and args[2] == LEFT and is_right(args[0]) \
            and args[1][0] == "index" and args[1][1] == ("self", "_COMP_TABLE"):
        return "COMP_REV"
    if len(args) == 1:
        a = args[0]
        if a[0] == "lit" and a[1] == "tuple":
            items = a[2]
            if len(items) == 2 and items[0] == LEFT and is_right(items[1]):
                return "PAIR"
            if len(items) == 2 and items[0] == LEFT and is_neg_right(items[1]):
                return "PAIR_NEG"
            if len(items) == 2 and is_right(items[0]) and items[1] == LEFT:
                return "PAIR_REV"
            if len(items) == 2 and items[0] == ("star", ("attr", LEFT, "children")) \
                    and is_right(items[1]) and guarded_same:
                return "SPLICE"
            if len(items) == 2 and items[0] == ("star", ("attr", LEFT, "children")) \
                    and is_neg_right(items[1]) and guarded_same:
                return "SPLICE_NEG"
        if a[0] == "binop" and a[1] == "Add" and a[2] == ("attr", LEFT, "children") \
                and a[3][0] == "lit" and len(a[3][2]) == 1 and guarded_same:
            if is_right(a[3][2][0]):
                return "SPLICE"
            if is_neg_right(a[3][2][0]):
                return "SPLICE_NEG"
    return "UNKNOWN:" + str(args)[:120]


def _extract_prefix(model, P, table):
    owner, fn = model.require_method(f"{PARSER}:Parser", "parse_prefix")
    fn = resolve_negation_helpers(model, fn)
    fn = model.inlined(fn)      # (private helpers are read as their bodies)
    chains = [s for s in fn.body if isinstance(s, ast.If)]
    if len(chains) != 1:
        raise AnalysisError("parse_prefix: expected one if/elif chain")
    branches, orelse = _chain(chains[0])
    if "parse_terminal" not in "\n".join(ast.unparse(s) for s in orelse):
        raise AnalysisError("parse_prefix: else branch is not parse_terminal")
    params = [a.arg for a in fn.args.args]
    for test, body in branches:
        if not (isinstance(test, ast.Call) and ast.unparse(test.func) ==
                "pstate.is_next" and isinstance(test.args[0], ast.Name)):
            raise AnalysisError(f"parse_prefix test not understood: "
                                f"{ast.unparse(test)}")
        tag = table.tagvars[test.args[0].id]
        src = "\n".join(ast.unparse(s) for s in body)
        wrapped = _wrap(body, params, "left_exp")
        pss = [ps for ps in summarize(wrapped, node_param=False)
               if ps.term == "return"]
        if tag == "colon":
            table.prefix[tag] = ("colon", "_PREC_SLICE" if "_PREC_SLICE" in src
                                 else None)
            table.prefix_bare_slice = _bare_slice(
                [ps.retval for ps in pss], "prefix colon")
            table.prefix_follow = _follow_form(
                [ps.retval for ps in pss], "prefix colon", ("const", None))
            continue
        if tag in ("openpar", "openbracket"):
            close = "_closepar" if tag == "openpar" else "_closebracket"
            if f"pstate.expect({close})" not in src:
                raise AnalysisError(f"prefix {tag}: closing delimiter not "
                                    "expected")
            inner = [e for ps in pss for e in ps.events
                     if e.kind == "selfcall" and e.name == "parse_expression"]
            precs = {(_parse_prec(ast_call_value(e))) for e in inner}
            if precs != {0}:
                raise AnalysisError(f"prefix {tag}: inner precedence {precs}")
            table.prefix[tag] = ("paren" if tag == "openpar" else "bracket", 0)
            if tag == "openpar":
                table.paren_final = _paren_finalization(pss)
            continue
        vals = {ps.retval for ps in pss}
        if len(vals) != 1:
            ent = _prefix_with_terminal_shortcut(tag, pss, table)
            if ent is None:
                raise AnalysisError(f"prefix {tag}: several results")
            table.prefix[tag] = ent[:2]
            table.prefix_terminal_if[tag] = ent[2]
            continue
        v = vals.pop()
        if v[0] == "call" and _clsname(v[1]) == "Wildcard":
            table.prefix[tag] = ("wildcard", None)
        elif _is_parse_call(v):
            table.prefix[tag] = ("pos", _parse_prec(v))
        elif v[0] == "unop" and v[1] == "USub" and _is_parse_call(v[2]):
            table.prefix[tag] = ("neg", _parse_prec(v[2]))
        elif v[0] == "call" and len(v[2]) == 1 and _is_parse_call(v[2][0]):
            table.prefix[tag] = (_clsname(v[1]), _parse_prec(v[2][0]))
        else:
            raise AnalysisError(f"prefix {tag}: result {v} not recognised")


def _paren_finalization(pss):
    """Which of the two forms of a parenthesised group -- "()" and "(<parsed>)"
    -- come back wrapped in the closed-tuple class whenever they are tuples.
    A path that returns the bare value although nothing on it says the value is
    not a tuple hands an *open* tuple to the comma handler."""
    out = {"empty": True, "parsed": True}
    seen = set()

    def is_empty_lit(v):
        return v == ("lit", "tuple", ())

    for ps in pss:
        rv = ps.retval
        inner = rv
        wrapped = False
        if isinstance(rv, tuple) and rv and rv[0] == "call" and \
                "Finalized" in str(rv[1]) and len(rv[2]) == 1:
            inner, wrapped = rv[2][0], True
        form = "empty" if is_empty_lit(inner) else "parsed"
        not_tuple = False
        infeasible = False
        for _, pol, c in ps.conds:
            if isinstance(c, tuple) and c and c[0] == "call" and \
                    c[1] == "isinstance" and len(c[2]) == 2 and \
                    c[2][0] == inner and "tuple" in str(c[2][1]):
                if not pol:
                    if is_empty_lit(inner):
                        infeasible = True
                    not_tuple = True
        if infeasible:
            continue
        seen.add(form)
        if not wrapped and not not_tuple:
            out[form] = False
    if seen != {"empty", "parsed"}:
        raise AnalysisError("prefix '(': the empty and the non-empty form "
                            f"were not both recognised ({sorted(seen)})")
    return out


def _prefix_with_terminal_shortcut(tag, pss, table):
    """A prefix operator whose operand is read by parse_terminal when the next
    token is one of a few literal tags and by parse_expression(prec) otherwise
    -> (kind, prec, frozenset(tags)); None if the branch is something else."""
    def split(v):
        """-> (kind, operand value)"""
        if v[0] == "unop" and v[1] == "USub":
            return "neg", v[2]
        if v[0] == "call" and len(v[2]) == 1 and _clsname(v[1]):
            return _clsname(v[1]), v[2][0]
        return "pos", v

    def is_terminal_call(v):
        return isinstance(v, tuple) and v[0] == "call" and \
            v[1] == "self.parse_terminal"

    kinds, precs, tags = set(), set(), set()
    for ps in pss:
        kind, operand = split(ps.retval)
        kinds.add(kind)
        nexts = set()
        for _, pol, c in ps.conds:
            for sub in _walk(c):
                if isinstance(sub, tuple) and sub and sub[0] == "call" and \
                        sub[1] == "pstate.is_next" and sub[2] and \
                        sub[2][0][0] == "global":
                    nexts.add((table.tagvars.get(sub[2][0][1]), pol))
        if is_terminal_call(operand):
            if not nexts or not all(pol for _, pol in nexts):
                return None
            tags.update(t for t, _ in nexts)
        elif _is_parse_call(operand):
            precs.add(_parse_prec(operand))
            if any(pol for _, pol in nexts):
                return None
        else:
            return None
    if len(kinds) != 1 or len(precs) != 1 or not tags or None in tags:
        return None
    return kinds.pop(), precs.pop(), frozenset(tags)


def _extract_terminals(model, P, table):
    owner, fn = model.require_method(f"{PARSER}:Parser", "parse_terminal")
    fn = resolve_negation_helpers(model, fn)
    fn = model.inlined(fn)      # (private helpers are read as their bodies)
    chains = [s for s in fn.body if isinstance(s, ast.If)]
    branches, orelse = _chain(chains[0])
    for test, body in branches:
        if isinstance(test, ast.Compare) and isinstance(test.ops[0], ast.Is) \
                and isinstance(test.comparators[0], ast.Name):
            tag = table.tagvars[test.comparators[0].id]
            src = "\n".join(ast.unparse(s) for s in body)
            if "int(" in src and tag == "int":
                table.terminals[tag] = "int"
            elif "parse_float" in src:
                table.terminals[tag] = "float"
            elif "complex(" in src:
                table.terminals[tag] = "complex"
            elif "return True" in src:
                table.terminals[tag] = "true"
            elif "return False" in src:
                table.terminals[tag] = "false"
            elif "Variable(" in src:
                table.terminals[tag] = "variable"
            else:
                table.terminals[tag] = "other"


# ---------------------------------------------------------------------------
# lexer model (pytools.lex semantics: first rule with a non-empty match wins)
# ---------------------------------------------------------------------------

class ModelLexer:
    def __init__(self, table: ParserTable):
        self.table = table
        self.rules = table.lex
        self.by_tag = {}
        for tag, rule in table.lex:
            self.by_tag.setdefault(tag, rule)
        self._re = {}

    def _match(self, rule, s, start):
        kind = rule[0]
        if kind == "re":
            rx = self._re.get(rule[1])
            if rx is None:
                rx = self._re[rule[1]] = re.compile(rule[1])
            m = rx.match(s, start)
            return m.end() - start if m else 0
        if kind == "ref":
            return self._match(self.by_tag[rule[1]], s, start)
        if kind == "alt":
            for sub in rule[1]:
                n = self._match(sub, s, start)
                if n:
                    return n
            return 0
        if kind == "seq":
            total = 0
            for sub in rule[1]:
                n = self._match(sub, s, start)
                if not n:
                    return 0
                total += n
                start += n
            return total
        raise AnalysisError(f"lex rule kind {kind}")

    def lex(self, s):
        out = []
        i = 0
        while i < len(s):
            for tag, rule in self.rules:
                n = self._match(rule, s, i)
                if n:
                    if tag != "whitespace":
                        out.append((tag, s[i:i + n]))
                    i += n
                    break
            else:
                raise ModelParseError(f"invalid token at {i}: {s[i:i+10]!r}")
        return out


# ---------------------------------------------------------------------------
# generic precedence-climbing parser over the table
# ---------------------------------------------------------------------------

def neg(x):
    """model of unary minus on a parsed operand (Expression.__neg__ is
    (-1)*self; Product.__rmul__ splices; numbers negate)"""
    if x[0] == "Const" and isinstance(x[1], (int, float, complex)) \
            and not isinstance(x[1], bool):
        return ("Const", -x[1])
    if x[0] == "Product":
        return ("Product", (("Const", -1),) + tuple(x[1]))
    return ("Product", (("Const", -1), x))


class ModelParser:
    def __init__(self, table: ParserTable):
        self.t = table
        self.lexer = ModelLexer(table)

    def parse(self, s, min_prec=0):
        self.toks = self.lexer.lex(s)
        self.pos = 0
        r = self.expression(min_prec)
        if self.pos != len(self.toks):
            raise ModelParseError("leftover input")
        return _definalize(r)

    # token helpers
    def at_end(self, k=0):
        return self.pos + k >= len(self.toks)

    def tag(self, k=0):
        if self.at_end(k):
            raise ModelParseError("unexpected end")
        return self.toks[self.pos + k][0]

    def text(self):
        return self.toks[self.pos][1]

    def expect(self, tag):
        if self.at_end() or self.tag() != tag:
            raise ModelParseError(f"expected {tag}")

    def expression(self, min_prec=0):
        left = self.prefix()
        did = True
        while did:
            did = False
            if self.at_end():
                return left
            left, did = self.postfix(min_prec, left)
        if left[0] == "FinalTuple":
            return ("Tuple", left[1])
        return left

    def terminal(self):
        tag = self.tag()
        kind = self.t.terminals.get(tag)
        txt = self.text()
        if kind is None:
            raise ModelParseError(f"terminal expected, got {tag}")
        self.pos += 1
        if kind == "int":
            return ("Const", int(txt))
        try:
            if kind == "float":
                return ("Const", float(txt.replace("d", "e").replace("D", "e")))
            if kind == "complex":
                return ("Const", complex(txt))
        except ValueError:
            raise ModelParseError(f"token {txt!r} lexes as {kind} but does not "
                                  "convert (ValueError)") from None
        if kind == "true":
            return ("Const", True)
        if kind == "false":
            return ("Const", False)
        return ("Var", txt)

    def prefix(self):
        if self.at_end():
            raise ModelParseError("unexpected end")
        tag = self.tag()
        ent = self.t.prefix.get(tag)
        if ent is None:
            return self.terminal()
        op, prec = ent
        if op == "colon":
            self.pos += 1
            save = self.pos
            try:
                nxt = self.expression(self.t.prec(prec))
            except ModelParseError:
                self.pos = save
                return ("Slice", tuple(self.t.prefix_bare_slice))
            if self.t.prefix_follow == "wrap":
                return ("Slice", (None, nxt))
            return _join_slice(None, nxt)
        if op == "wildcard":
            self.pos += 1
            return ("Wildcard",)
        if op in ("paren", "bracket"):
            close = "closepar" if op == "paren" else "closebracket"
            self.pos += 1
            if not self.at_end() and self.tag() == close:
                inner = ("Tuple", ())
            else:
                inner = self.expression(0)
            self.expect(close)
            self.pos += 1
            if op == "paren":
                if inner[0] == "Tuple":
                    pf = getattr(self.t, "paren_final", None) or {}
                    if not pf.get("empty" if not inner[1] else "parsed", True):
                        return inner        # an open tuple: commas extend it
                    return ("FinalTuple", inner[1])
                return inner
            if inner[0] == "Tuple":
                return ("FinalList", inner[1])
            return ("FinalList", (inner,))
        self.pos += 1
        short = getattr(self.t, "prefix_terminal_if", {}).get(tag)
        if short and not self.at_end() and self.tag() in short:
            operand = self.terminal()
        else:
            operand = self.expression(self.t.prec(prec))
        if op == "pos":
            return operand
        if op == "neg":
            return neg(operand)
        return (op, operand)

    def postfix(self, min_prec, left):
        tag = self.tag()
        for br in self.t.postfix:
            if tag not in br.tags:
                continue
            g = self.t.prec(br.guard)
            ok = g > min_prec if br.guard_op == ">" else g >= min_prec
            if not ok:
                continue    # the elif chain falls through to later branches
            return self.apply(br, tag, left), True
        return left, False

    def apply(self, br, tag, left):
        t = self.t
        if br.shape == "INFIX" and br.build == "COMP" and br.extra.get("chain"):
            links = []
            while not self.at_end() and self.tag() in t.comp_table:
                op = t.comp_table[self.tag()]
                self.pos += 1
                right = self.expression(t.prec(br.right_prec))
                links.append(("Comparison", left, op, right))
                left = right
            return links[0] if len(links) == 1 else (br.extra["chain"],
                                                     tuple(links))
        if br.shape == "INFIX":
            self.pos += 1
            right = self.expression(t.prec(br.right_prec))
            b = br.build
            if b == "BIN":
                return (br.cls, left, right)
            if b == "BIN_REV":
                return (br.cls, right, left)
            if b == "COMP":
                return ("Comparison", left, t.comp_table[tag], right)
            if b == "COMP_REV":
                return ("Comparison", right, t.comp_table[tag], left)
            if b == "PAIR":
                return (br.cls, (left, right))
            if b == "PAIR_REV":
                return (br.cls, (right, left))
            if b == "PAIR_NEG":
                return (br.cls, (left, neg(right)))
            if b == "FLATTEN":
                if left[0] == br.cls:
                    r = neg(right) if br.extra.get("neg_splice") else right
                    return (br.cls, tuple(left[1]) + (r,))
                r = neg(right) if br.extra.get("neg_pair") else right
                return (br.cls, (left, r))
            raise AnalysisError(f"build {b}")
        if br.shape == "CALL":
            self.pos += 1
            args, kwargs = self.arglist()
            if kwargs:
                return ("CallWithKwargs", left, tuple(args), tuple(kwargs))
            return ("Call", left, tuple(args))
        if br.shape == "SUBSCRIPT":
            self.pos += 1
            if self.at_end():
                raise ModelParseError("unexpected end")
            idx = self.expression(t.prec(br.right_prec))
            self.expect("closebracket")
            self.pos += 1
            return ("Subscript", left, idx)
        if br.shape == "LOOKUP":
            self.pos += 1
            self.expect("identifier")
            name = self.text()
            self.pos += 1
            return ("Lookup", left, name)
        if br.shape == "IF":
            self.pos += 1
            if self.at_end():
                raise ModelParseError("unexpected end")
            cond = self.expression(t.prec(br.extra["cond_prec"]))
            self.expect("else")
            self.pos += 1
            els = self.expression(t.prec(br.extra["else_prec"]))
            return ("If", cond, left, els)
        if br.shape == "COLON":
            self.pos += 1
            save = self.pos
            try:
                nxt = self.expression(t.prec(br.right_prec))
            except ModelParseError:
                self.pos = save
                return ("Slice", tuple(left if x == "L" else None
                                       for x in br.extra["bare"]))
            if br.extra.get("follow") == "wrap":
                return ("Slice", (left, nxt))
            return _join_slice(left, nxt)
        if br.shape == "COMMA":
            self.pos += 1
            fr = (br.extra or {}).get("final_respected",
                                      {"trailing": True, "extend": True})
            is_final = left[0] in ("FinalTuple", "FinalList")
            if self.at_end() or self.tag() in (br.extra or {}).get(
                    "closers", {"closepar"}):
                if left[0] == "Tuple" or (is_final and not fr["trailing"]):
                    return left
                return ("Tuple", (left,))
            new = self.expression(t.prec(br.right_prec))
            if left[0] == "Tuple" or (is_final and not fr["extend"]):
                return ("Tuple", tuple(left[1]) + (new,))
            return ("Tuple", (left, new))
        raise AnalysisError(f"shape {br.shape}")

    def arglist(self):
        args, kwargs = [], []
        comma_allowed = False
        comma_prec = self.t.prec("_PREC_COMMA")
        while True:
            if self.at_end():
                raise ModelParseError("unexpected end")
            saw = False
            if self.tag() == "comma":
                saw = True
                if not comma_allowed:
                    raise ModelParseError("comma not expected")
                self.pos += 1
                if self.at_end():
                    raise ModelParseError("unexpected end")
            if self.tag() == "closepar":
                self.pos += 1
                return args, kwargs
            if not saw and comma_allowed:
                raise ModelParseError("comma expected")
            if self.tag() == "identifier" and not self.at_end(1) \
                    and self.tag(1) == "assign":
                kw = self.text()
                self.pos += 2
                kwargs.append((kw, self.expression(comma_prec)))
            else:
                if kwargs:
                    raise ModelParseError("positional after keyword")
                args.append(self.expression(comma_prec))
            comma_allowed = True


def _join_slice(left, right):
    if right[0] == "Slice":
        return ("Slice", (left,) + tuple(right[1]))
    return ("Slice", (left, right))


def _definalize(t):
    if not isinstance(t, tuple) or not t:
        return t
    if t[0] == "FinalTuple":
        return ("Tuple", tuple(_definalize(x) for x in t[1]))
    if t[0] == "FinalList":
        return ("List", tuple(_definalize(x) for x in t[1]))
    return tuple(_definalize(x) if isinstance(x, tuple) else x for x in t)


# ---------------------------------------------------------------------------
# tree utilities
# ---------------------------------------------------------------------------

def flatten(t):
    """flatten Sum-in-Sum and Product-in-Product (the equivalence the
    property allows)"""
    if not isinstance(t, tuple) or not t:
        return t
    if isinstance(t[0], str):
        name = t[0]
        rest = tuple(flatten(x) if isinstance(x, tuple) else x for x in t[1:])
        if name in ("Sum", "Product"):
            out = []
            for c in rest[0]:
                if isinstance(c, tuple) and c and c[0] == name:
                    out.extend(c[1])
                else:
                    out.append(c)
            return (name, tuple(out))
        return (name,) + rest
    return tuple(flatten(x) if isinstance(x, tuple) else x for x in t)


def show(t):
    if not isinstance(t, tuple):
        return repr(t)
    if not t:
        return "()"
    if t[0] == "Var":
        return t[1]
    if t[0] == "Const":
        return repr(t[1])
    if isinstance(t[0], str):
        return t[0] + "(" + ", ".join(show(x) for x in t[1:]) + ")"
    return "(" + ", ".join(show(x) for x in t) + ("," if len(t) == 1 else "") + ")"
