"""Hand-written specifications (oracles) with their provenance."""
from __future__ import annotations

import ast

from .grammar import neg

# ---------------------------------------------------------------------------
# AST-OPS: ast operator class <-> operator symbol.  Provenance: the
# interpreter's own ast._Unparser tables, with a frozen copy as a fallback.
# ---------------------------------------------------------------------------

_FROZEN_BINOP = {"Add": "+", "Sub": "-", "Mult": "*", "MatMult": "@", "Div": "/",
                 "Mod": "%", "LShift": "<<", "RShift": ">>", "BitOr": "|",
                 "BitXor": "^", "BitAnd": "&", "FloorDiv": "//", "Pow": "**"}
_FROZEN_UNOP = {"Invert": "~", "Not": "not", "UAdd": "+", "USub": "-"}
_FROZEN_CMP = {"Eq": "==", "NotEq": "!=", "Lt": "<", "LtE": "<=", "Gt": ">",
               "GtE": ">=", "Is": "is", "IsNot": "is not", "In": "in",
               "NotIn": "not in"}
_FROZEN_BOOL = {"And": "and", "Or": "or"}


def ast_ops():
    up = getattr(ast, "_Unparser", None)
    b = dict(getattr(up, "binop", _FROZEN_BINOP))
    u = dict(getattr(up, "unop", _FROZEN_UNOP))
    c = dict(getattr(up, "cmpops", _FROZEN_CMP))
    bo = dict(getattr(up, "boolops", _FROZEN_BOOL))
    for name, frozen, live in (("binop", _FROZEN_BINOP, b), ("unop", _FROZEN_UNOP, u),
                               ("cmpops", _FROZEN_CMP, c),
                               ("boolops", _FROZEN_BOOL, bo)):
        for k, v in frozen.items():
            if live.get(k, v) != v:
                from . import AnalysisError
                raise AnalysisError(f"AST-OPS oracle: interpreter table {name} "
                                    f"disagrees with the frozen copy on {k}")
    return {"binop": b, "unop": u, "cmpops": c, "boolops": bo}


# DENOT: pymbolic node class -> the Python construct it denotes
#   (kind, python operator symbol / construct, operand fields in order)
DENOT = {
    "Sum": ("nary", "+", "children"),
    "Product": ("nary", "*", "children"),
    "Quotient": ("binary", "/", ("numerator", "denominator")),
    "FloorDiv": ("binary", "//", ("numerator", "denominator")),
    "Remainder": ("binary", "%", ("numerator", "denominator")),
    "Power": ("binary", "**", ("base", "exponent")),
    "LeftShift": ("binary", "<<", ("shiftee", "shift")),
    "RightShift": ("binary", ">>", ("shiftee", "shift")),
    "BitwiseNot": ("unary", "~", ("child",)),
    "BitwiseOr": ("nary", "|", "children"),
    "BitwiseXor": ("nary", "^", "children"),
    "BitwiseAnd": ("nary", "&", "children"),
    "LogicalNot": ("unary", "not", ("child",)),
    "LogicalOr": ("nary-lazy", "or", "children"),
    "LogicalAnd": ("nary-lazy", "and", "children"),
    "Comparison": ("compare", None, ("left", "right")),
    "If": ("ifexp", None, ("condition", "then", "else_")),
    "Min": ("nary-call", "min", "children"),
    "Max": ("nary-call", "max", "children"),
    "Call": ("call", None, ("function", "parameters")),
    "CallWithKwargs": ("call", None, ("function", "parameters", "kw_parameters")),
    "Subscript": ("getitem", None, ("aggregate", "index")),
    "Lookup": ("getattr", None, ("aggregate", "name")),
    "CommonSubexpression": ("identity", None, ("child",)),
    "Variable": ("lookup", None, ("name",)),
}

# python operator symbol -> pymbolic node class, derived from DENOT
SYMBOL_TO_NODE = {v[1]: k for k, v in DENOT.items()
                  if v[1] and v[0] in ("nary", "binary", "unary", "nary-lazy")}

# operator module function name for each symbol (used by the evaluator check)
OPERATOR_FUNCS = {"+": "add", "*": "mul", "/": "truediv", "//": "floordiv",
                  "%": "mod", "**": "pow", "<<": "lshift", ">>": "rshift",
                  "|": "or_", "^": "xor", "&": "and_", "~": "invert",
                  "not": "not_", "==": "eq", "!=": "ne", "<": "lt", "<=": "le",
                  ">": "gt", ">=": "ge"}


# ---------------------------------------------------------------------------
# PY-GRAMMAR: how Python groups an operator skeleton.  Primary source: the
# interpreter's own parser applied to a string the checker built.
# ---------------------------------------------------------------------------

class NotShared(Exception):
    """the skeleton uses syntax outside the fragment shared with pymbolic"""


_BIN = {"Add": "Sum", "Mult": "Product", "Div": "Quotient",
        "FloorDiv": "FloorDiv", "Mod": "Remainder", "Pow": "Power",
        "LShift": "LeftShift", "RShift": "RightShift", "BitOr": "BitwiseOr",
        "BitXor": "BitwiseXor", "BitAnd": "BitwiseAnd"}
_NARY_PAIR = {"Sum", "Product", "BitwiseOr", "BitwiseXor", "BitwiseAnd"}


def py_tree(s: str):
    """model tree (pv.grammar tree language) of the Python expression *s*"""
    try:
        node = ast.parse(s, mode="eval").body
    except SyntaxError as e:
        raise NotShared(f"Python rejects it: {e.msg}") from None
    return _conv(node)


def _conv(n):
    ops = ast_ops()
    if isinstance(n, ast.Name):
        return ("Var", n.id)
    if isinstance(n, ast.Constant):
        if isinstance(n.value, (int, float, complex, bool)):
            return ("Const", n.value)
        raise NotShared("non-numeric constant")
    if isinstance(n, ast.BinOp):
        k = type(n.op).__name__
        left, right = _conv(n.left), _conv(n.right)
        if k == "Sub":
            return ("Sum", (left, neg(right)))
        if k not in _BIN:
            raise NotShared(f"operator {k}")
        cls = _BIN[k]
        if cls in _NARY_PAIR:
            return (cls, (left, right))
        return (cls, left, right)
    if isinstance(n, ast.UnaryOp):
        k = type(n.op).__name__
        x = _conv(n.operand)
        if k == "USub":
            return neg(x)
        if k == "UAdd":
            return x
        if k == "Invert":
            return ("BitwiseNot", x)
        if k == "Not":
            return ("LogicalNot", x)
    if isinstance(n, ast.BoolOp):
        cls = "LogicalAnd" if isinstance(n.op, ast.And) else "LogicalOr"
        vals = [_conv(v) for v in n.values]
        acc = vals[0]
        for v in vals[1:]:
            acc = (cls, (acc, v))     # left-nested: same evaluation order
        return acc
    if isinstance(n, ast.Compare):
        # language reference 6.10: a op1 b op2 c  is  (a op1 b) and (b op2 c)
        # with b evaluated once -- the same value for the side-effect free
        # operands of the expression language
        operands = [_conv(n.left)] + [_conv(c) for c in n.comparators]
        links = []
        for left, op, right in zip(operands, n.ops, operands[1:]):
            sym = ops["cmpops"][type(op).__name__]
            if sym not in ("==", "!=", "<", "<=", ">", ">="):
                raise NotShared(f"comparison {sym}")
            links.append(("Comparison", left, sym, right))
        return links[0] if len(links) == 1 else ("LogicalAnd", tuple(links))
    if isinstance(n, ast.IfExp):
        return ("If", _conv(n.test), _conv(n.body), _conv(n.orelse))
    if isinstance(n, ast.Call):
        if any(isinstance(a, ast.Starred) for a in n.args) or any(
                k.arg is None for k in n.keywords):
            raise NotShared("star arguments")
        f = _conv(n.func)
        args = tuple(_conv(a) for a in n.args)
        if n.keywords:
            return ("CallWithKwargs", f, args,
                    tuple((k.arg, _conv(k.value)) for k in n.keywords))
        return ("Call", f, args)
    if isinstance(n, ast.Attribute):
        return ("Lookup", _conv(n.value), n.attr)
    if isinstance(n, ast.Subscript):
        return ("Subscript", _conv(n.value), _conv_index(n.slice))
    if isinstance(n, ast.Tuple):
        return ("Tuple", tuple(_conv(e) for e in n.elts))
    if isinstance(n, ast.List):
        return ("List", tuple(_conv(e) for e in n.elts))
    raise NotShared(type(n).__name__)


def slice_meaning(t):
    """*t* with every Slice padded to (start, stop, step)"""
    if isinstance(t, tuple):
        if len(t) == 2 and t[0] == "Slice" and isinstance(t[1], tuple):
            kids = tuple(slice_meaning(x) for x in t[1])
            return ("Slice", kids + (None,) * (3 - len(kids)))
        return tuple(slice_meaning(x) for x in t)
    return t


def _conv_index(sl):
    if isinstance(sl, ast.Slice):
        # Python's tree does not say how many colons were written (a[:] and
        # a[::] are the same ast.Slice): slices are compared by meaning, as
        # (start, stop, step) -- see slice_meaning()
        parts = [sl.lower, sl.upper, sl.step]
        return ("Slice", tuple(None if p is None else _conv(p) for p in parts))
    if isinstance(sl, ast.Tuple):
        return ("Tuple", tuple(_conv_index(e) for e in sl.elts))
    return _conv(sl)


# PY-PREC: table model of Python's grammar, secondary source used to cross
# check the primary one (language reference 6.17, frozen).
PY_LEVELS = [
    ("if",), ("or",), ("and",), ("not",),
    ("==", "!=", "<", "<=", ">", ">="),
    ("|",), ("^",), ("&",), ("<<", ">>"), ("+", "-"),
    ("*", "/", "//", "%"), ("u+", "u-", "u~"), ("**",),
]


def py_level(sym):
    for i, lv in enumerate(PY_LEVELS):
        if sym in lv:
            return i
    raise KeyError(sym)


def py_prec_crosscheck():
    """the frozen level table must order every operator pair the way the
    interpreter's parser groups 'a op1 b op2 c'"""
    from . import AnalysisError
    binsyms = [s for lv in PY_LEVELS for s in lv
               if s not in ("if", "not") and not s.startswith("u")]
    for o1 in binsyms:
        for o2 in binsyms:
            if py_level(o1) == py_level(o2) == py_level("=="):
                continue
            s = f"a {o1} b {o2} c"
            node = ast.parse(s, mode="eval").body
            # which operator is at the root?
            root_left_is_compound = not isinstance(
                getattr(node, "left", None) or getattr(node, "values", [None])[0],
                ast.Name)
            l1, l2 = py_level(o1), py_level(o2)
            if o1 == o2 == "**":
                expect_left_compound = False
            elif l1 >= l2:
                expect_left_compound = True      # (a o1 b) o2 c
            else:
                expect_left_compound = False
            if isinstance(node, ast.BoolOp) and len(node.values) == 3:
                continue
            if root_left_is_compound != expect_left_compound:
                raise AnalysisError(
                    f"PY-GRAMMAR oracle: interpreter and frozen table disagree "
                    f"on '{s}'")
