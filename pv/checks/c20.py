"""C20 -- statement-stream utilities keep programs well-formed (structure)."""
from __future__ import annotations

import ast

from .. import AnalysisError
from ..model import ClassInfo
from ..summary import contains, content, summarize

ST = "pymbolic.imperative.statement"
TR = "pymbolic.imperative.transform"
AN = "pymbolic.imperative.analysis"

EXPR_ATTRS = {"Assignment": {"lhs", "rhs"},
              "ConditionalAssignment": {"lhs", "rhs", "condition"},
              "ConditionalStatement": {"condition"},
              "Nop": set(), "Statement": set()}


def run(ctx):
    model = ctx.model
    ctx.decide("read/written sets: the value returned by get_read_variables "
               "depends on each expression attribute of the statement class "
               "through the dependency mapper; get_written_variables covers "
               "Variable and Subscript targets and raises otherwise")
    ctx.decide("map_expressions maps the same attribute set get_read_variables "
               "consults, through each concrete class's MRO")
    ctx.decide("fusion def-use: id generator seeded with all first-stream ids, "
               "fresh id per second-stream statement, the mapping filled there "
               "rewrites depends_on, first stream passed through")
    ctx.decide("disambiguation def-use: clash set = intersection under the "
               "filter, fresh names from a generator seeded with the union, "
               "substitution applied through map_expressions incl. lhs")
    ctx.decide("dependency-graph export: the transitive closure is a fixed-point "
               "iteration whose change flag is reset once per sweep, only ever "
               "raised inside the sweep, and ends the loop only when a whole "
               "sweep changed nothing")
    ctx.decline("that the drawn edges are exactly the transitive reduction "
                "(beyond the fixed-point structure of the closure)")
    ctx.assume("pytools.UniqueNameGenerator returns names outside its seed set "
               "and never repeats one")

    _check_reads(ctx, model)
    _check_writes(ctx, model)
    _check_map_expressions(ctx, model)
    _check_dep_mapper(ctx, model)
    _check_fuse(ctx, model)
    _check_disambiguate(ctx, model)
    _check_used_identifiers(ctx, model)
    _check_dot_export(ctx, model)
    _streams_consumed_once(ctx, model)
    _dot_ids_quoted_alike(ctx, model)


# ---------------------------------------------------------------------------

def _dep_call_attrs(v):
    """attributes a of self such that <dependency mapper>(self.a) occurs in v,
    with .name read off the elements"""
    out = set()

    def walk(x, depth=0):
        if depth > 60 or not isinstance(x, tuple) or not x:
            return
        if isinstance(x[0], str) and x[0] == "call" and len(x) >= 5 \
                and isinstance(x[4], tuple) and x[4] and x[4][0] == "call" \
                and x[4][1] == "self.get_dependency_mapper":
            for a in x[2]:
                if isinstance(a, tuple) and a and a[0] == "self":
                    out.add(a[1])
        for y in x:
            if isinstance(y, tuple):
                walk(y, depth + 1)
    walk(v)
    return out


def _chain(model, cls: ClassInfo, name):
    """methods reached from cls.<name> through super().<name>() calls, in
    order: [(owner, fn)]"""
    out = []
    mro = [k for k in model.mro(cls) if isinstance(k, ClassInfo)]
    i = 0
    while i < len(mro):
        k = mro[i]
        mem = k.members.get(name)
        if mem is None or mem.kind != "func":
            i += 1
            continue
        out.append((k, mem.node))
        calls_super = any(
            isinstance(c, ast.Call) and isinstance(c.func, ast.Attribute)
            and c.func.attr == name and isinstance(c.func.value, ast.Call)
            and isinstance(c.func.value.func, ast.Name)
            and c.func.value.func.id == "super" for c in ast.walk(mem.node))
        if not calls_super:
            break
        i += 1
    return out


def _read_attrs_of(model, owner, fn):
    """(attrs consulted through the dep mapper, super result used?, problems)"""
    attrs = set()
    uses_super = True
    problems = []
    for ps in summarize(fn, node_param=False):
        if ps.term != "return":
            continue
        rv = ps.retval
        attrs |= _dep_call_attrs(rv)
        calls_super = any(e.kind == "supercall" and e.name == fn.name
                          for e in ps.events)
        if calls_super and not contains(
                rv, lambda t: t[0] == "call" and t[1] == f"super.{fn.name}"):
            uses_super = False
    # helper functions ignoring their parameter
    for inner in ast.walk(fn):
        if isinstance(inner, ast.FunctionDef) and inner is not fn:
            params = [a.arg for a in inner.args.args]
            loaded = {n.id for n in ast.walk(inner) if isinstance(n, ast.Name)
                      and isinstance(n.ctx, ast.Load)}
            calls = [c for c in ast.walk(fn) if isinstance(c, ast.Call)
                     and isinstance(c.func, ast.Name) and c.func.id == inner.name]
            argsrc = {ast.unparse(c.args[0]) for c in calls if c.args}
            for p in params:
                if p not in loaded and len(argsrc) > 1:
                    problems.append(
                        f"helper {inner.name}({p}) never uses its parameter but "
                        f"is called with different arguments {sorted(argsrc)}")
    return attrs, uses_super, problems


def _judge_reads(model, cls, want):
    """interpretive judge: get_read_variables() of a statement class interpreted
    along the class's MRO (super() goes to the next definition) on a statement
    whose expression attributes hold distinct tokens; the dependency mapper is
    a hook that answers one variable per token.  The result must be exactly the
    variables of the statement's expressions.  -> witnesses"""
    from ..absint import Interp, Obj, Opaque, Raised, StepBound, module_env
    chain = []
    for k in model.mro(cls):
        if isinstance(k, ClassInfo):
            mem = k.members.get("get_read_variables")
            if mem is not None and mem.kind == "func":
                chain.append(mem.node)
    if not chain:
        raise AnalysisError(f"{cls.name}.get_read_variables not found")

    class Tok:
        def __init__(self, nm):
            self.nm = nm

    class Dep:
        def __init__(self, name):
            self.name = name
    fields = {a: Tok(a) for a in ("lhs", "rhs", "condition")}
    stmt = Obj(cls.name, dict(fields, id="s0", depends_on=frozenset()))
    level = [0]
    glob = module_env(cls.module.tree, {})

    def dep_mapper(expr):
        if isinstance(expr, Tok):
            return frozenset([Dep(f"v_{expr.nm}")])
        if expr is True or expr is None:
            return frozenset()
        raise AnalysisError(f"dependency mapper applied to {expr!r}")

    def attrs(it, nd, base, attr):
        if isinstance(base, Dep) and attr == "name":
            return base.name
        return Opaque(ast.unparse(nd))

    def resolve(c, nm):
        for k in model.mro(cls):
            if isinstance(k, ClassInfo) and nm in k.members and \
                    k.members[nm].kind == "func" and nm != "get_read_variables":
                return ("func", k.members[nm].node)
        return None
    it = None

    def sup(it_, nd, a, k):
        level[0] += 1
        try:
            if level[0] >= len(chain):
                return frozenset()
            return it_.call_function(chain[level[0]], [stmt], dict(glob))
        finally:
            level[0] -= 1
    me = chain[0].args.args[0].arg
    calls = {"super().get_read_variables": sup,
             f"{me}.get_dependency_mapper":
                 lambda it_, nd, a, k: dep_mapper}
    it = Interp(calls=calls, attrs=attrs, resolve=resolve, globals_=glob,
                max_steps=20000)
    try:
        res = it.call_function(chain[0], [stmt], dict(glob))
    except Raised as r:
        return [f"{cls.name}.get_read_variables raises at line "
                f"{getattr(r.node, 'lineno', '?')}"]
    except StepBound:
        return [f"{cls.name}.get_read_variables does not terminate"]
    expect = {f"v_{a}" for a in want}
    got = set(res) if isinstance(res, (set, frozenset, list, tuple)) else None
    if got != expect:
        return [f"{cls.name}.get_read_variables reports "
                f"{sorted(got) if got is not None else res!r} for a statement "
                f"whose expressions hold the variables {sorted(expect)}"]
    return []


def _check_reads(ctx, model):
    for cname in ("Assignment", "ConditionalAssignment", "Nop"):
        cls = model.cls(f"{ST}:{cname}")
        try:
            jw = _judge_reads(model, cls, EXPR_ATTRS[cname])
        except AnalysisError as e:
            jw = None
            ctx.extra[f"judge_unavailable:{cname}.get_read_variables"] = \
                str(e)[:100]
        if jw is not None:
            ctx.ob(f"S0/{cname}/get_read_variables/semantics", not jw, cls.loc(),
                   f"{cname}.get_read_variables interpreted along the MRO: "
                   "exactly the variables of " + ", ".join(
                       sorted(EXPR_ATTRS[cname])) if not jw else jw[0])
        mark = len(ctx.obs)
        try:
            _check_reads_structural(ctx, model, cname, cls)
        except AnalysisError:
            if jw is None or jw:
                raise
        if jw is not None and not jw:
            ctx.withdraw_failures_since(
                mark, "decided by interpreting the method along the MRO",
                f"S/{cname}/get_read_variables/")
    _check_reads_after_assignment(ctx, model)


def _check_reads_structural(ctx, model, cname, cls):
    if True:
        chain = _chain(model, cls, "get_read_variables")
        attrs = set()
        where = cls.loc()
        for owner, fn in chain:
            a, uses_super, problems = _read_attrs_of(model, owner, fn)
            attrs |= a
            for p in problems:
                ctx.ob(f"S/{owner.name}.get_read_variables/helper-ignores-param",
                       False, owner.module.loc(fn), p)
            if not uses_super and owner.name != "Assignment":
                ctx.ob(f"S/{owner.name}.get_read_variables/super-dropped", False,
                       owner.module.loc(fn),
                       f"{owner.name}.get_read_variables calls super() but its "
                       "result does not reach the return value")
        want = EXPR_ATTRS[cname]
        ctx.ob(f"S/{cname}/get_read_variables/attrs", attrs == want, where,
               f"reads scanned in {sorted(attrs)}" if attrs == want else
               f"{cname}.get_read_variables consults the dependency mapper on "
               f"{sorted(attrs)} but the statement's expressions are "
               f"{sorted(want)}", {"consulted": sorted(attrs),
                                   "chain": [o.name for o, _ in chain]})


def _check_reads_after_assignment(ctx, model):
    # Assignment drops super()'s result: harmless only while the next class in
    # every MRO chain after Assignment contributes nothing
    asg = model.cls(f"{ST}:Assignment")
    for cls in model.subclasses(asg):
        mro = [k for k in model.mro(cls) if isinstance(k, ClassInfo)]
        after = mro[mro.index(asg) + 1:]
        nxt = next((k for k in after if "get_read_variables" in k.members), None)
        ok = nxt is None or nxt.name == "Statement"
        ctx.ob(f"S/{cls.name}/get_read_variables/after-assignment", ok, cls.loc(),
               "nothing after Assignment in the MRO contributes reads" if ok else
               f"in {cls.name}'s MRO {nxt.name}.get_read_variables comes after "
               "Assignment, whose implementation discards super()'s result")


def _check_writes(ctx, model):
    cls = model.cls(f"{ST}:Assignment")
    mem = cls.members.get("get_written_variables")
    if mem is None:
        raise AnalysisError("Assignment.get_written_variables not found")
    kinds = set()
    for ps in summarize(mem.node, node_param=False):
        guards = []
        for _, pol, v in ps.conds:
            if isinstance(v, tuple) and v[0] == "call" and v[1] == "isinstance":
                guards.append((ast.unparse(ast.parse("x").body[0].value)
                               if False else (v[2][0], v[2][1][-1], pol)))
        loc = cls.module.loc(ps.items[-1][1]) if ps.items[-1][1] is not None \
            else cls.loc()
        if ps.term == "raise":
            kinds.add("raise")
            continue
        if ps.term != "return":
            ctx.ob("P/Assignment.get_written_variables/falls-off", False, loc,
                   "get_written_variables can fall off the end")
            continue
        rv = ps.retval
        pos = [(t, c) for t, c, p in guards if p]
        if rv == ("lit", "frozenset", (("attr", ("self", "lhs"), "name"),)):
            ok = (("self", "lhs"), "Variable") in pos
            kinds.add("variable")
            ctx.ob("P/Assignment.get_written_variables/variable", ok, loc,
                   "Variable target -> {lhs.name}" if ok else
                   "lhs.name is returned without an isinstance(lhs, Variable) "
                   "guard")
        elif rv == ("lit", "frozenset",
                    (("attr", ("attr", ("self", "lhs"), "aggregate"), "name"),)):
            # the guard must establish a class that has an aggregate: a
            # subscript, or (outside the property's statement kinds) a look-up
            gcls = [c for t, c in pos if t == ("self", "lhs")]
            ok = bool(gcls) and all(
                model.nodes.get(c) is not None
                and "aggregate" in model.nodes.get(c).field_names for c in gcls)
            if "Subscript" in gcls:
                kinds.add("subscript")
            for c in gcls or ["?"]:
                ctx.ob(f"P/Assignment.get_written_variables/{c.lower()}", ok, loc,
                       f"{c} target -> {{lhs.aggregate.name}}" if ok else
                       "lhs.aggregate.name is returned without a guard "
                       "establishing that lhs has an aggregate (Subscript)")
        else:
            ctx.ob(f"P/Assignment.get_written_variables/exit:"
                   f"{ast.unparse(ps.items[-1][1])}", False, loc,
                   f"unexpected written-set {ast.unparse(ps.items[-1][1])}")
    need = {"variable", "subscript", "raise"}
    ctx.ob("P/Assignment.get_written_variables/exits", need <= kinds, cls.loc(),
           f"exits {sorted(kinds)}" if need <= kinds else
           f"get_written_variables lacks exits {sorted(need - kinds)}")


def _mapped_attrs(fn):
    """{attr: 'always'|'if include_lhs'} for .copy(attr=mapper(self.attr))"""
    out = {}
    params = [a.arg for a in fn.args.args]
    mapper = params[1] if len(params) > 1 else "mapper"
    for c in ast.walk(fn):
        if isinstance(c, ast.Call) and isinstance(c.func, ast.Attribute) \
                and c.func.attr == "copy":
            for kw in c.keywords:
                v = kw.value
                cond = "always"
                if isinstance(v, ast.IfExp):
                    if ast.unparse(v.test) == "include_lhs" and \
                            ast.unparse(v.orelse) == f"self.{kw.arg}":
                        cond = "if include_lhs"
                        v = v.body
                    else:
                        out[kw.arg] = "bad:" + ast.unparse(kw.value)
                        continue
                if ast.unparse(v) == f"{mapper}(self.{kw.arg})":
                    out[kw.arg] = cond
                else:
                    out[kw.arg] = "bad:" + ast.unparse(kw.value)
    return out


def _check_map_expressions(ctx, model):
    for cname in ("Assignment", "ConditionalAssignment", "Nop"):
        cls = model.cls(f"{ST}:{cname}")
        chain = _chain(model, cls, "map_expressions")
        mapped = {}
        for owner, fn in chain:
            for k, v in _mapped_attrs(fn).items():
                mapped[k] = v
            # super() must be called with include_lhs passed on
            for c in ast.walk(fn):
                if isinstance(c, ast.Call) and isinstance(c.func, ast.Attribute) \
                        and c.func.attr == "map_expressions" \
                        and isinstance(c.func.value, ast.Call) \
                        and ast.unparse(c.func.value.func) == "super":
                    kws = {k.arg: ast.unparse(k.value) for k in c.keywords}
                    ok = kws.get("include_lhs") == "include_lhs" or (
                        len(c.args) > 1 and ast.unparse(c.args[1]) == "include_lhs")
                    ctx.ob(f"S/{owner.name}.map_expressions/super-include-lhs", ok,
                           owner.module.loc(fn),
                           "include_lhs passed up the chain" if ok else
                           f"{owner.name}.map_expressions does not pass "
                           "include_lhs to super()")
        want = EXPR_ATTRS[cname]
        bad = {k: v for k, v in mapped.items() if v.startswith("bad:")}
        ok = set(mapped) == want and not bad and all(
            v == "always" or k == "lhs" for k, v in mapped.items())
        ctx.ob(f"S/{cname}/map_expressions/attrs", ok, cls.loc(),
               f"maps {sorted(mapped)}" if ok else
               f"{cname}.map_expressions maps {mapped} but the statement's "
               f"expressions are {sorted(want)} (each must be mapper(self.attr); "
               "only lhs may depend on include_lhs)",
               {"mapped": mapped, "chain": [o.name for o, _ in chain]})


def _check_dep_mapper(ctx, model):
    cls = model.cls(f"{ST}:Statement")
    mem = cls.members.get("get_dependency_mapper")
    if mem is None:
        raise AnalysisError("Statement.get_dependency_mapper not found")
    ok = False
    for c in ast.walk(mem.node):
        if isinstance(c, ast.Call) and ast.unparse(c.func).endswith(
                "DependencyMapper"):
            kws = {k.arg: ast.unparse(k.value) for k in c.keywords}
            default_calls = None
            args = mem.node.args
            names = [a.arg for a in args.args]
            if "include_calls" in names:
                d = args.defaults[names.index("include_calls") -
                                  (len(names) - len(args.defaults))]
                default_calls = ast.unparse(d)
            ok = (kws.get("include_subscripts") == "False"
                  and kws.get("include_lookups") == "False"
                  and (kws.get("composite_leaves") in (None, "False"))
                  and kws.get("include_cses") in (None, "False")
                  and (kws.get("include_calls") in ("False", "'descend_args'")
                       or (kws.get("include_calls") == "include_calls"
                           and default_calls in ("'descend_args'", "False"))))
    ctx.ob("T/Statement.get_dependency_mapper/variables-only", ok, cls.loc(),
           "dependency mapper yields Variables only, so .name is defined on "
           "every element" if ok else
           "get_dependency_mapper can yield composite leaves (subscripts/"
           "lookups/calls), on which the read-set code reads .name")


# ---------------------------------------------------------------------------

def _p(name):
    return ("param", name)


def _is_copy_of(v, param):
    return v in (("call", "list", (_p(param),), ()),
                 ("call", "tuple", (_p(param),), ()),
                 ("copy", _p(param))) or (
        v[0] == "call" and v[1] == f"{param}.copy")


def _judge_fuse(model, fn, module):
    """interpretive judge (pv/absint.py): fuse_statement_streams_with_unique_ids
    interpreted on small streams of abstract statements (an id, a set of
    dependency ids, copy(**changes)), with pytools' UniqueNameGenerator modelled
    as documented (the requested name if it is free, else name_0, name_1, ...;
    every name handed out is taken from then on).  Checked on what comes back:
    all ids distinct; the first stream is the head of the result, unchanged;
    the i-th statement of the second stream follows with the id the returned
    mapping gives it; its dependencies are the mapped dependencies.  The
    streams include ones that are themselves the result of an earlier fusion
    (ids that look like generated ones).  -> witnesses"""
    from ..absint import Closure, Interp, Opaque, Raised, StepBound, module_env
    wit = []
    glob = module_env(module.tree, {})
    an = model.repo.modules.get("pymbolic.imperative.analysis")
    if an is not None:
        for st in an.tree.body:
            if isinstance(st, ast.FunctionDef):
                glob.setdefault(st.name, Closure(st, glob))
                glob[st.name] = Closure(st, glob)

    class Stmt:
        def __init__(self, id, depends_on=(), origin=None):
            self.id = id
            self.depends_on = frozenset(depends_on)
            self.origin = origin if origin is not None else self

        def copy(self, **kw):
            unknown = set(kw) - {"id", "depends_on"}
            if unknown:
                raise AnalysisError(f"Statement.copy({sorted(unknown)}=...)")
            return Stmt(kw.get("id", self.id),
                        kw.get("depends_on", self.depends_on), self.origin)

    class Gen:
        def __init__(self, existing=()):
            self.existing = set(existing)

        def is_name_conflicting(self, name):
            return name in self.existing

        def add_name(self, name, **kw):
            self.existing.add(name)

        def add_names(self, names, **kw):
            self.existing.update(names)

        def __call__(self, based_on="id"):
            cand, i = based_on, 0
            while cand in self.existing:
                cand = f"{based_on}_{i}"
                i += 1
            self.existing.add(cand)
            return cand

    def attrs(it, n_, base, attr):
        if isinstance(base, (Stmt, Gen)) and hasattr(base, attr):
            return getattr(base, attr)
        return Opaque(ast.unparse(n_))

    def S(*specs):
        return [Stmt(i, d) for i, d in specs]
    P = (("x", ()), ("y", ("x",)))
    scenarios = [
        ("clashing and free ids", S(("s0", ()), ("s1", ("s0",))),
         S(("s0", ()), ("s2", ("s0",)))),
        ("no clash at all", S(("a", ())), S(("b", ()), ("c", ("b",)))),
        ("P + P", S(*P), S(*P)),
        ("P + (P + P): the second stream already holds generated-looking ids",
         S(*P), S(("x", ()), ("y", ("x",)), ("x_0", ()), ("y_0", ("x_0",)))),
        ("a generated-looking id first, its base name after it",
         S(("x", ())), S(("x_0", ()), ("x", ("x_0",)))),
        ("the first stream holds name and name_0", S(("s", ()), ("s_0", ())),
         S(("s", ()), ("t", ("s",)))),
        ("dependents listed before what they depend on, ids clashing",
         S(("x", ()), ("y", ("x",))), S(("y", ("x",)), ("x", ()))),
        ("a diamond listed bottom-up", S(("top", ())),
         S(("bottom", ("l", "r")), ("l", ("top",)), ("r", ("top",)),
           ("top", ()))),
        ("empty second stream", S(("a", ())), []),
        ("empty first stream", [], S(("a", ()), ("b", ("a",)))),
    ]
    for label, sa, sb in scenarios:
        it = Interp(calls={
            "UniqueNameGenerator": lambda it_, n_, a, k: Gen(
                *(a[:1] or ([k["existing_names"]] if "existing_names" in k
                            else []))),
        }, attrs=attrs, globals_=glob, max_steps=60000)
        try:
            res = it.call_function(fn, [list(sa), list(sb)], dict(glob))
        except Raised as r:
            wit.append(f"{label}: raises at line {r.node.lineno}")
            continue
        except StepBound:
            wit.append(f"{label}: does not terminate")
            continue
        if not (isinstance(res, tuple) and len(res) == 2
                and isinstance(res[1], dict)):
            wit.append(f"{label}: returns {res!r}")
            continue
        out, mp = list(res[0]), res[1]
        if not all(isinstance(x, Stmt) for x in out):
            wit.append(f"{label}: the fused stream holds something that is no "
                       "statement")
            continue
        ids = [x.id for x in out]
        if len(set(ids)) != len(ids):
            dup = sorted({i for i in ids if ids.count(i) > 1})
            wit.append(f"{label}: the fused stream holds the id(s) {dup} twice")
            continue
        if len(out) != len(sa) + len(sb) or any(
                o.id != s_.id or o.depends_on != s_.depends_on
                for o, s_ in zip(out, sa)):
            wit.append(f"{label}: the result does not begin with the first "
                       "stream as it was")
            continue
        if set(mp) != {s_.id for s_ in sb}:
            wit.append(f"{label}: the id mapping covers {sorted(mp)}, the second "
                       f"stream's ids are {sorted(s_.id for s_ in sb)}")
            continue
        for o, s_ in zip(out[len(sa):], sb):
            if o.origin is not s_ or o.id != mp[s_.id]:
                wit.append(f"{label}: statement '{s_.id}' of the second stream "
                           f"does not follow with the id the mapping gives it")
                break
            if o.depends_on != frozenset(mp[d] for d in s_.depends_on):
                wit.append(f"{label}: the dependencies of '{s_.id}' are "
                           f"{sorted(o.depends_on)}, the mapped ones "
                           f"{sorted(mp[d] for d in s_.depends_on)}")
                break
    return wit, len(scenarios)


def _check_fuse(ctx, model):
    m, fn = model.func(f"{TR}:fuse_statement_streams_with_unique_ids")
    loc = m.loc(fn)
    try:
        wit, n_sc = _judge_fuse(model, fn, m)
    except AnalysisError as e:
        wit = None
        ctx.extra["judge_unavailable:fuse_statement_streams_with_unique_ids"] = \
            str(e)
    if wit is not None:
        ctx.ob("P0/fuse/semantics", not wit, loc,
               f"fuse_statement_streams_with_unique_ids interpreted on {n_sc} "
               "pairs of abstract streams (clashing / free / generated-looking "
               "ids, repeated fusion): ids distinct, first stream unchanged, "
               "second stream renamed by the returned mapping, dependencies "
               "remapped" if not wit else
               "fuse_statement_streams_with_unique_ids: " + "; ".join(wit[:3]))
    mark = len(ctx.obs)
    try:
        _check_fuse_structural(ctx, model)
    except AnalysisError:
        if wit is None:
            raise
    if wit is not None and not wit:
        ctx.withdraw_failures_since(mark, "decided by interpreting the function "
                                    "on abstract streams", "P/fuse/")


def _check_fuse_structural(ctx, model):
    m, fn = model.func(f"{TR}:fuse_statement_streams_with_unique_ids")
    loc = m.loc(fn)
    a, b = [x.arg for x in fn.args.args][:2]
    pss = [ps for ps in summarize(fn, plain=True) if ps.term == "return"]
    if len(pss) != 1:
        raise AnalysisError("fuse_statement_streams_with_unique_ids: expected "
                            "one returning path")
    rv = pss[0].retval
    if not (rv[0] == "lit" and len(rv[2]) == 2):
        raise AnalysisError("fuse: return value is not a pair")
    S, Mp = rv[2]
    # the id mapping
    if Mp[0] != "dict":
        raise AnalysisError("fuse: second result is not a mapping filled in a "
                            "loop")
    K, V, src = Mp[1], Mp[2], Mp[3]
    old_id = ("attr", ("elem", _p(b)), "id")
    ctx.ob("P/fuse/mapping-domain", src == _p(b) and K == old_id, loc,
           "mapping has one entry per second-stream statement, keyed by its old "
           "id" if src == _p(b) and K == old_id else
           "the id mapping is not keyed by the old id of every second-stream "
           "statement")
    gen_ok = V[0] == "call" and len(V) >= 5 and V[2] == (old_id,) \
        and V[4][0] == "call" and V[4][1].endswith("UniqueNameGenerator")
    ctx.ob("P/fuse/fresh-id-from-generator", gen_ok, loc,
           "new id = generator(old id)" if gen_ok else
           "the new id of a second-stream statement does not come from the "
           "unique-name generator applied to its old id")
    if gen_ok:
        seed = V[4][2][0] if V[4][2] else None
        seed_ok = (seed is not None and seed[0] == "seq" and seed[1] in
                   ("set", "list", "tuple", "gen") and not seed[4]
                   and seed[2][0] == "attr" and seed[2][2] == "id"
                   and seed[2][1] == ("elem", seed[3])
                   and (_is_copy_of(seed[3], a) or seed[3] == _p(a)))
        ctx.ob("P/fuse/generator-seeded-with-first-stream", seed_ok, loc,
               "generator is seeded with every id of the first stream"
               if seed_ok else
               "the id generator is not seeded with the ids of all first-stream "
               "statements (unfiltered)")
    # the fused stream
    if S[0] == "binop" and S[1] == "Add" and S[3][0] == "seq" and not S[3][4]:
        # first.extend([f(x) for x in src])  ==  for x in src: first.append(f(x))
        S = ("extend", S[2], S[3][2], S[3][3])
    if S[0] != "extend":
        raise AnalysisError("fuse: first result is not <first stream> extended "
                            "in a loop")
    prior, E, src2 = S[1], S[2], S[3]
    ctx.ob("P/fuse/first-stream-unchanged", _is_copy_of(prior, a), loc,
           "result starts with the first stream, unchanged" if
           _is_copy_of(prior, a) else
           "the fused stream does not start from an unmodified copy of the "
           "first stream")
    # src2: statements of b re-id'd
    ok2 = src2[0] == "seq" and src2[3] == _p(b) and not src2[4]
    renamed = src2[2] if ok2 else None
    ok2 = ok2 and renamed[0] == "call" and renamed[1].endswith(".copy") \
        and len(renamed) >= 5 and renamed[4][1] == ("elem", _p(b)) \
        and dict(renamed[3]).get("id") == V
    ctx.ob("P/fuse/second-stream-renamed", ok2, loc,
           "every second-stream statement is copied with its generated id"
           if ok2 else
           "second-stream statements are not all copied with id=<generated id>")
    # E: copy(depends_on=frozenset(map[d] for d in stmt.depends_on))
    okE = E[0] == "call" and E[1].endswith(".copy") and len(E) >= 5 \
        and E[4][1] == renamed
    dep = dict(E[3]).get("depends_on") if okE else None
    okD = False
    if dep is not None and dep[0] == "seq" and not dep[4]:
        want_src = ("attr", renamed, "depends_on")
        el = dep[2]
        okD = dep[3] == want_src and el == ("dictget", Mp, ("elem", want_src))
    ctx.ob("P/fuse/depends-on-remapped", okE and okD, loc,
           "depends_on of every renamed statement is rewritten through the "
           "same mapping" if okE and okD else
           "depends_on of the renamed statements is not rewritten id by id "
           "through the mapping that was filled while renaming")
    extra_ids = dict(E[3]).get("id") if okE else None
    ctx.ob("P/fuse/id-kept-in-second-pass", extra_ids is None, loc,
           "second pass keeps the generated id" if extra_ids is None else
           "the second pass overwrites the id again")
    # deprecated alias forwards
    m2, fn2 = model.func(f"{TR}:fuse_instruction_streams_with_unique_ids")
    from ..rules import sole_result
    ok = sole_result(fn2, plain=True) == (
        "call", "fuse_statement_streams_with_unique_ids",
        tuple(("param", a_.arg) for a_ in fn2.args.args[:2]), ())
    ctx.ob("P/fuse/deprecated-alias", ok, m2.loc(fn2),
           "old name forwards both streams in order" if ok else
           "fuse_instruction_streams_with_unique_ids does not forward its "
           "arguments unchanged")
    # disambiguate_and_fuse wiring
    m3, fn3 = model.func(f"{TR}:disambiguate_and_fuse")
    ok = False
    pss3 = [ps for ps in summarize(fn3, plain=True) if ps.term == "return"]
    if len(pss3) == 1:
        pss3[0].retval = content(pss3[0].retval)
    if len(pss3) == 1 and pss3[0].retval[0] == "lit" \
            and len(pss3[0].retval[2]) == 3:
        pa, pb, pf = [x.arg for x in fn3.args.args][:3]
        # (further options are handed to disambiguate_identifiers under their
        # own names)
        rv3 = pss3[0].retval[2]
        dis = None
        if rv3[1][0] == "index" and rv3[1][1][0] == "call" and \
                rv3[1][1][1] == "disambiguate_identifiers":
            cand = rv3[1][1]
            params3 = {x.arg for x in fn3.args.args} | {
                x.arg for x in fn3.args.kwonlyargs}
            if cand[2][:3] == (_p(pa), _p(pb), _p(pf)) and all(
                    v[0] == "param" and v[1] in params3 for v in cand[2][3:]
            ) and all(k in params3 and v == _p(k) for k, v in cand[3]):
                dis = cand
        if dis is not None:
            fu = ("call", "fuse_statement_streams_with_unique_ids",
                  (_p(pa), ("index", dis, 0)), ())
            ok = rv3 == (("index", fu, 0), ("index", dis, 1), ("index", fu, 1))
    ctx.ob("P/disambiguate_and_fuse/wiring", ok, m3.loc(fn3),
           "disambiguates the second stream, then fuses, returns both maps"
           if ok else "disambiguate_and_fuse wiring changed")


def _judge_disambiguate(model, fn, module):
    """interpretive judge (pv/absint.py): disambiguate_identifiers interpreted
    on abstract streams.  The identifier sets of the streams, the filter and
    the unique-name generator are supplied; checked: exactly the identifiers
    used by both streams that pass the filter are renamed, each to a variable
    whose name is used by neither stream and by no other renaming, and every
    statement of the second stream is rewritten through map_expressions with
    that very substitution (left-hand sides included).  -> witnesses"""
    from ..absint import Closure, Interp, Opaque, Raised, StepBound
    wit = []
    glob = {}
    for st in module.tree.body:
        if isinstance(st, ast.FunctionDef):
            glob[st.name] = Closure(st, glob)
    scenarios = [
        ({"x", "y", "t"}, {"x", "t", "z"}, lambda n: True, None),
        ({"x", "y"}, {"x", "y", "x_0"}, lambda n: n != "y", None),
        ({"x"}, {"z"}, lambda n: True, None),
        ({"x", "x_0", "x_1"}, {"x"}, lambda n: True, None),
        # a caller-supplied generator that first proposes names in use
        ({"x", "n1"}, {"x", "n2"}, lambda n: True, ["n1", "n2", "n3", "n4"]),
    ]
    params = [a.arg for a in fn.args.args]
    for ida, idb, filt, proposals in scenarios:
        class Stmt:
            def __init__(self, nm):
                self.nm = nm
        sa = [Stmt("a0"), Stmt("a1")]
        sb = [Stmt("b0"), Stmt("b1"), Stmt("b2")]
        mapped = []

        class Gen:
            def __init__(self, seed):
                self.seen = set(seed)

            def __call__(self, base):
                i = 0
                while f"{base}_{i}" in self.seen:
                    i += 1
                self.seen.add(f"{base}_{i}")
                return f"{base}_{i}"

        def used(it, n_, a, k):
            lst = list(a[0])
            if lst and all(x in sa for x in lst):
                return set(ida)
            if lst and all(x in sb for x in lst):
                return set(idb)
            raise AnalysisError("get_all_used_identifiers on a mixed stream")

        def attrs(it, n_, base, attr):
            if isinstance(base, Stmt) and attr == "map_expressions":
                def me(mapper, include_lhs=True):
                    mapped.append((base, mapper, include_lhs))
                    return ("mapped", base.nm)
                return me
            return Opaque(ast.unparse(n_))
        props = list(proposals) if proposals else None

        def supplied(base):
            return props.pop(0) if props else base + "_zz"
        it = Interp(calls={
            "get_all_used_identifiers": used,
            "UniqueNameGenerator": lambda it_, n_, a, k: Gen(a[0] if a else ()),
            "var": lambda it_, n_, a, k: ("var", a[0]),
            "make_subst_func": lambda it_, n_, a, k: ("subst_func", a[0]),
            "SubstitutionMapper": lambda it_, n_, a, k: ("mapper", a[0]),
        }, attrs=attrs, globals_=glob, max_steps=50000)
        label = f"streams using {sorted(ida)} / {sorted(idb)}" + (
            ", caller's generator" if proposals else "")
        args = [sa, iter(sb) if False else sb, filt]
        kw = {}
        if proposals:
            gen_params = [p_ for p_ in params[3:]] + [
                a.arg for a in fn.args.kwonlyargs]
            if not gen_params:
                continue        # no such parameter on this tree
            kw[gen_params[0]] = supplied
        try:
            res = it.call_function(fn, args, {"__kwargs__": kw})
        except Raised as r:
            wit.append(f"{label}: raises at line {r.node.lineno}")
            continue
        except StepBound:
            wit.append(f"{label}: does not terminate")
            continue
        if not (isinstance(res, tuple) and len(res) == 2):
            wit.append(f"{label}: returns {res!r}")
            continue
        new_b, subst = res
        want_keys = {n for n in ida & idb if filt(n)}
        if not isinstance(subst, dict) or set(subst) != want_keys:
            wit.append(f"{label}: renames {sorted(subst) if isinstance(subst, dict) else subst!r}"
                       f", expected {sorted(want_keys)}")
            continue
        fresh = [v[1] if isinstance(v, tuple) and v[0] == "var" else None
                 for v in subst.values()]
        if None in fresh or len(set(fresh)) != len(fresh) or any(
                f_ in ida | idb for f_ in fresh):
            wit.append(f"{label}: new names {fresh} are not fresh and distinct")
            continue
        if list(new_b) != [("mapped", s_.nm) for s_ in sb] or any(
                not (m_[1] == ("mapper", ("subst_func", subst)) and m_[2])
                for m_ in mapped) or len(mapped) != len(sb):
            wit.append(f"{label}: the second stream is not rewritten statement "
                       "by statement with the returned substitution (lhs "
                       "included)")
    return wit


def _check_disambiguate(ctx, model):
    m, fn = model.func(f"{TR}:disambiguate_identifiers")
    try:
        wit = _judge_disambiguate(model, fn, m)
    except AnalysisError as e:
        ctx.extra["judge_unavailable:disambiguate_identifiers"] = str(e)
        _check_disambiguate_structural(ctx, model)
        return
    ctx.ob("P0/disambiguate/semantics", not wit, m.loc(fn),
           "disambiguate_identifiers interpreted on abstract streams: exactly "
           "the shared identifiers that pass the filter are renamed, to fresh "
           "distinct names, consistently through map_expressions" if not wit else
           "disambiguate_identifiers: " + "; ".join(wit[:3]))
    mark = len(ctx.obs)
    try:
        _check_disambiguate_structural(ctx, model)
    except AnalysisError:
        if wit:
            raise
    if not wit:
        ctx.withdraw_failures_since(mark, "decided by interpreting the function "
                                    "on abstract streams")


def _check_disambiguate_structural(ctx, model):
    m, fn = model.func(f"{TR}:disambiguate_identifiers")
    loc = m.loc(fn)
    a, b, filt = [x.arg for x in fn.args.args][:3]
    ida = ("call", "get_all_used_identifiers", (_p(a),), ())
    idb = ("call", "get_all_used_identifiers", (_p(b),), ())
    inter = (("binop", "BitAnd", ida, idb), ("binop", "BitAnd", idb, ida))
    union = (("binop", "BitOr", ida, idb), ("binop", "BitOr", idb, ida))
    judged = 0
    for ps in summarize(fn, plain=True):
        if ps.term != "return":
            continue
        # (a stream materialised with list(...) holds the same statements)
        rv = content(ps.retval)
        if not (rv[0] == "lit" and len(rv[2]) == 2):
            raise AnalysisError("disambiguate_identifiers: return is not a pair")
        stmts, subst = rv[2]
        # the statements: map_expressions(SubstitutionMapper(make_subst_func(subst)))
        ok = (stmts[0] == "seq" and stmts[3] == _p(b) and not stmts[4]
              and stmts[2][0] == "call" and stmts[2][1].endswith(".map_expressions")
              and len(stmts[2]) >= 5 and stmts[2][4][1] == ("elem", _p(b)))
        if ok:
            margs, mkw = stmts[2][2], dict(stmts[2][3])
            incl = mkw.get("include_lhs", margs[1] if len(margs) > 1 else None)
            ok = (len(margs) >= 1 and margs[0][0] == "call"
                  and margs[0][1].endswith("SubstitutionMapper")
                  and margs[0][2] and margs[0][2][0][0] == "call"
                  and margs[0][2][0][1] == "make_subst_func"
                  and margs[0][2][0][2] == (subst,)
                  and incl in (None, ("const", True)))
        ctx.ob("P/disambiguate/applied-everywhere", ok, loc,
               "every second-stream statement is rewritten through "
               "map_expressions (lhs included) with the returned substitution"
               if ok else
               "the returned substitution is not the one applied to every "
               "second-stream statement via map_expressions with the lhs "
               "included")
        if subst == ("litdict", (), ()):
            continue   # the path on which the filter rejected the clash
        if subst[0] != "dict":
            raise AnalysisError("disambiguate_identifiers: substitution is not "
                                "filled in a loop")
        judged += 1
        K, V, src = subst[1], subst[2], subst[3]
        ctx.ob("P/disambiguate/clash-set", src in inter and K == ("elem", src),
               loc, "renames exactly the identifiers used by both streams"
               if src in inter and K == ("elem", src) else
               "the set of renamed identifiers is not the intersection of the "
               "two streams' identifier sets")
        okv = (V[0] == "call" and V[1] == "var" and V[2] and V[2][0][0] == "call"
               and len(V[2][0]) >= 5 and V[2][0][2] == (K,)
               and V[2][0][4][0] == "call"
               and V[2][0][4][1].endswith("UniqueNameGenerator")
               and V[2][0][4][2] and V[2][0][4][2][0] in union)
        if not okv:
            okv = _fresh_by_retry_loop(fn, V, K, union)
        ctx.ob("P/disambiguate/fresh-names", okv, loc,
               "fresh name = generator(clash), generator seeded with the union "
               "of both identifier sets" if okv else
               "replacement names do not come from a unique-name generator "
               "seeded with the union of both streams' identifiers")
        # filter consulted on the clash
        def is_filter_call(v):
            return isinstance(v, tuple) and (
                (v[0] == "call" and v[1] == filt and v[2] == (K,))
                or (v[0] == "inlined" and v[1] == filt))
        filt_ok = any(pol and is_filter_call(
            content(v) if isinstance(v, tuple) else v) for _, pol, v in ps.conds)
        # ... or as the filter of a comprehension
        if not filt_ok and len(subst) > 4:
            filt_ok = any(is_filter_call(content(c.val) if isinstance(
                getattr(c, "val", None), tuple) else getattr(c, "val", None))
                for c in subst[4])
        ctx.ob("P/disambiguate/filter", filt_ok, loc,
               "a clash is renamed only if the caller's filter accepts it"
               if filt_ok else
               "the caller's filter is not consulted on the clashing name")
    ctx.ob("P/disambiguate/paths", judged >= 1, loc,
           f"{judged} renaming path(s) analysed" if judged else
           "no path of disambiguate_identifiers fills the substitution")


def _fresh_by_retry_loop(fn, V, K, union):
    """Freshness by construction instead of by the generator's seed:
        name = gen(clash)
        while name in used: name = gen(clash)
    with `used` holding (at least) the union of both streams' identifiers and
    growing by every name handed out.  A `while` without `break` is left only
    when its test is false, so the name that goes on is not in `used`."""
    if not (V[0] == "call" and V[1] == "var" and len(V[2]) == 1):
        return False
    loops = [w for w in ast.walk(fn) if isinstance(w, ast.While)
             and isinstance(w.test, ast.Compare) and len(w.test.ops) == 1
             and isinstance(w.test.ops[0], ast.In)
             and isinstance(w.test.left, ast.Name)
             and isinstance(w.test.comparators[0], ast.Name)
             and not any(isinstance(b, ast.Break) for st in w.body
                         for b in ast.walk(st))]
    if len(loops) != 1:
        return False
    w = loops[0]
    cand, used = w.test.left.id, w.test.comparators[0].id
    # the candidate is what is wrapped into the replacement variable
    wraps = any(isinstance(c, ast.Call) and isinstance(c.func, ast.Name)
                and c.func.id == "var" and len(c.args) == 1
                and isinstance(c.args[0], ast.Name) and c.args[0].id == cand
                for c in ast.walk(fn))
    # the loop body only draws a new candidate for the same clash
    body_ok = all(isinstance(st, ast.Assign) and len(st.targets) == 1
                  and isinstance(st.targets[0], ast.Name)
                  and st.targets[0].id == cand and isinstance(st.value, ast.Call)
                  for st in w.body)
    # `used` starts as the union of both identifier sets and is only added to
    inits = [st for st in ast.walk(fn) if isinstance(st, ast.Assign)
             and len(st.targets) == 1 and isinstance(st.targets[0], ast.Name)
             and st.targets[0].id == used]
    grows = [c for c in ast.walk(fn) if isinstance(c, ast.Call)
             and isinstance(c.func, ast.Attribute)
             and isinstance(c.func.value, ast.Name) and c.func.value.id == used]
    seeded = False
    for ps in summarize(fn, plain=True, loop_mode="01"):
        for _, pol, c in ps.conds:
            if isinstance(c, tuple) and c[0] == "compare" and c[1] == ("In",) \
                    and not pol:
                u = content(c[3][0])
                if u in union or contains(u, lambda t: t in union):
                    seeded = True
    return wraps and body_ok and len(inits) == 1 and seeded and all(
        c.func.attr in ("add", "update") for c in grows) and any(
        c.func.attr == "add" and len(c.args) == 1
        and isinstance(c.args[0], ast.Name) and c.args[0].id == cand
        for c in grows)


def _check_used_identifiers(ctx, model):
    m, fn = model.func(f"{AN}:get_all_used_identifiers")
    param = fn.args.args[0].arg
    ok = False
    for ps in summarize(fn, plain=True, loop_mode="1"):
        if ps.term != "return":
            continue
        terms = _or_terms(ps.retval)
        el = ("elem", ("param", param))
        reads = any(t[0] == "call" and t[1].endswith(".get_read_variables")
                    and len(t) >= 5 and t[4][1] == el for t in terms)
        writes = any(t[0] == "call" and t[1].endswith(".get_written_variables")
                     and len(t) >= 5 and t[4][1] == el for t in terms)
        ok = reads and writes
    ctx.ob("P/get_all_used_identifiers/union", ok, m.loc(fn),
           "union of read and written variables of every statement" if ok else
           "get_all_used_identifiers is not the union of reads and writes over "
           "the whole stream")


def _or_terms(v):
    if isinstance(v, tuple) and v and v[0] == "binop" and v[1] == "BitOr":
        return _or_terms(v[2]) + _or_terms(v[3])
    if isinstance(v, tuple) and v and v[0] == "call" and v[1].endswith(".union"):
        out = []
        if len(v) >= 5:
            out += _or_terms(v[4][1])
        for a in v[2]:
            out += _or_terms(a)
        return out
    return [v]


def _edge_updates(node):
    """(statement, name of the index X) for every  G[X].add(..) / G[X].update(..)
    / G[X] |= ..  below *node*"""
    out = []
    for c in ast.walk(node):
        tgt = None
        if isinstance(c, ast.Call) and isinstance(c.func, ast.Attribute) and \
                c.func.attr in ("add", "update") and isinstance(
                c.func.value, ast.Subscript):
            tgt = c.func.value
        elif isinstance(c, ast.AugAssign) and isinstance(c.op, ast.BitOr) and \
                isinstance(c.target, ast.Subscript):
            tgt = c.target
        if tgt is not None and isinstance(tgt.slice, ast.Name):
            out.append((c, tgt.slice.id, ast.unparse(tgt.value)))
    return out


def _single_sweep_closure(ctx, m, fn):
    """no `while` loop at all: the closure is computed by plain for-nests.  That
    is right only in Warshall's arrangement (the *intermediate* statement is the
    outermost loop); with the updated statement outermost, one sweep closes the
    relation only for inputs listed dependencies-first."""
    nests = []
    for st in fn.body:
        if isinstance(st, ast.For) and isinstance(st.target, ast.Name):
            ups = _edge_updates(st)
            removes = any(isinstance(c, ast.Call) and isinstance(
                c.func, ast.Attribute) and c.func.attr in ("remove", "discard")
                for c in ast.walk(st))
            builds = any(isinstance(c, ast.Attribute) and c.attr == "depends_on"
                         for c in ast.walk(st))
            if ups and not removes and not builds:
                nests.append((st, ups))
    if not nests:
        raise AnalysisError("get_dot_dependency_graph: neither a fixed-point loop "
                            "nor a closure sweep was found")
    for st, ups in nests:
        outer = st.target.id
        for c, idx, graph in ups:
            if idx == outer:
                ctx.ob("P/closure/fixed-point", False, m.loc(c),
                       f"the dependency relation is closed in a single sweep with "
                       f"the updated statement ({outer}) as the outermost loop and "
                       "no iteration to a fixed point: dependencies of a "
                       "statement that is visited later are not propagated, so "
                       "for statements listed dependents-first the closure is "
                       "incomplete and redundant edges are drawn")
            else:
                # Warshall: outer loop variable must be the intermediate whose
                # dependencies are copied
                src = ast.unparse(c)
                ok = f"{graph}[{outer}]" in src or f"{graph}.get({outer}" in src
                if not ok:
                    raise AnalysisError("get_dot_dependency_graph: closure sweep "
                                        "not recognised")
                ctx.ob("P/closure/fixed-point", True, m.loc(c),
                       "single sweep with the intermediate statement outermost "
                       "(Warshall)")


def _judge_dot(model):
    """interpretive judge (pv/absint.py): get_dot_dependency_graph interpreted
    on small acyclic dependency graphs -- chains with shortcut edges (listed
    dependents-first and dependencies-first), a diamond with a shortcut,
    disconnected parts, a graph that is sparse and still has a redundant edge
    -- and the edges written into the returned text compared with the
    transitive reduction (unique for an acyclic graph).  -> (witnesses, n)"""
    import re
    from ..absint import Interp, Opaque, Raised, StepBound, module_env
    UT = "pymbolic.imperative.utils"
    m, fn = model.func(f"{UT}:get_dot_dependency_graph")
    glob = module_env(m.tree, {})

    class Stmt:
        def __init__(self, id, deps):
            self.id, self.depends_on = id, frozenset(deps)
            self.then_depends_on = self.else_depends_on = frozenset()

        def __str__(self):
            return f"stmt {self.id}"

    def attrs(it, nd, base, attr):
        if isinstance(base, Stmt) and hasattr(base, attr):
            return getattr(base, attr)
        return Opaque(ast.unparse(nd))

    def reduction(edges):
        succ = {}
        for a, b in edges:
            succ.setdefault(a, set()).add(b)

        def reach(a, seen=None):
            seen = set() if seen is None else seen
            for b in succ.get(a, ()):
                if b not in seen:
                    seen.add(b)
                    reach(b, seen)
            return seen
        out = set()
        for a, b in edges:
            if not any(b in reach(c) for c in succ[a] if c != b):
                out.add((a, b))
        return out
    G = {
        "chain of 5 with shortcuts, dependencies first":
            [("s1", ()), ("s2", ("s1",)), ("s3", ("s2", "s1")),
             ("s4", ("s3", "s1")), ("s5", ("s4", "s2", "s1"))],
        "chain of 5 with shortcuts, dependents first":
            [("s5", ("s4", "s2", "s1")), ("s4", ("s3", "s1")),
             ("s3", ("s2", "s1")), ("s2", ("s1",)), ("s1", ())],
        "diamond with a shortcut":
            [("top", ()), ("l", ("top",)), ("r", ("top",)),
             ("bottom", ("l", "r", "top"))],
        "two parts, one of them with a redundant edge":
            [("a", ()), ("b", ()), ("c", ()), ("d", ()), ("load", ("a",)),
             ("calc", ("load",)), ("store", ("calc", "load"))],
        "chain of 9 with one long shortcut, dependents first":
            [(f"m{i}", (f"m{i-1}",) if i > 1 else ()) for i in range(9, 0, -1)][:0]
            + [("m9", ("m8", "m1"))] + [(f"m{i}", (f"m{i-1}",))
                                        for i in range(8, 1, -1)] + [("m1", ())],
        "chain of 9 with one long shortcut, dependencies first":
            [("k1", ())] + [(f"k{i}", (f"k{i-1}",)) for i in range(2, 9)]
            + [("k9", ("k8", "k1"))],
        "chain of 9, shortcut, interleaved listing":
            [("j5", ("j4",)), ("j9", ("j8", "j1")), ("j2", ("j1",)),
             ("j7", ("j6",)), ("j1", ()), ("j4", ("j3",)), ("j8", ("j7",)),
             ("j3", ("j2",)), ("j6", ("j5",))],
        "chain of 18 with a long shortcut, dependents first":
            [("c18", ("c17", "c01"))] + [(f"c{i:02d}", (f"c{i-1:02d}",))
                                         for i in range(17, 1, -1)]
            + [("c01", ())],
        "ids that are not plain identifiers":
            [("s 1", ()), ("s-2", ("s 1",)), ("s.3", ("s-2", "s 1"))],
        "no dependencies at all": [("a", ()), ("b", ())],
        "one edge": [("a", ()), ("b", ("a",))],
        "a chain of 6 listed in a mixed order":
            [("n3", ("n2",)), ("n6", ("n5", "n1")), ("n1", ()), ("n5", ("n4",)),
             ("n2", ("n1",)), ("n4", ("n3", "n1"))],
    }
    wit = []
    for label, spec in G.items():
        stmts = [Stmt(i, d) for i, d in spec]
        it = Interp(calls={"str": lambda it_, nd, a, k: str(a[0])},
                    attrs=attrs, globals_=glob, max_steps=4000000)
        try:
            res = it.call_function(fn, [stmts], {"__kwargs__": {
                "use_stmt_ids": True,
                "preamble_hook": lambda: ['node [shape="box"];'],
                "additional_lines_hook": lambda: []}})
        except Raised as r:
            wit.append(f"{label}: raises at line {getattr(r.node, 'lineno', '?')}")
            continue
        except StepBound:
            wit.append(f"{label}: does not terminate")
            continue
        if not isinstance(res, str):
            raise AnalysisError("get_dot_dependency_graph: the result is not "
                                "text the judge can read")
        got = set()
        declared = set()
        for ln in res.splitlines():
            m_e = re.match(r'^\s*("?)([^"\[\]>]+?)\1\s*->\s*("?)([^"\[\];]+?)\3'
                           r'\s*(?:\[.*\])?;?\s*$', ln)
            if m_e:
                got.add((m_e.group(2).strip(), m_e.group(4).strip()))
                for q_, id_ in ((m_e.group(1), m_e.group(2)),
                                (m_e.group(3), m_e.group(4))):
                    if not q_ and not re.fullmatch(r"[A-Za-z_]\w*", id_.strip()):
                        wit.append(f"{label}: the edge line '{ln.strip()}' "
                                   f"spells the id {id_.strip()!r} without "
                                   "quotes: not one dot identifier")
                continue
            m_n = re.match(r'^\s*("?)([^"\[\]>]+?)\1\s*\[', ln)
            if m_n:
                declared.add((m_n.group(1), m_n.group(2).strip()))
        # every edge endpoint is spelled the way a declared node is
        for e_ in sorted(got):
            for id_ in e_:
                if declared and id_ not in {i for _, i in declared}:
                    wit.append(f"{label}: the edge {e_} names {id_!r}, which "
                               "no node line declares")
        want = reduction({(i, d) for i, ds in spec for d in ds})
        if got != want:
            extra, missing = sorted(got - want), sorted(want - got)
            wit.append(f"{label}: " + (f"draws {extra}, which other edges imply"
                                       if extra else "") +
                       (" and " if extra and missing else "") +
                       (f"does not draw {missing}" if missing else ""))
    return wit, len(G)


def _check_dot_export(ctx, model):
    UT = "pymbolic.imperative.utils"
    m, fn = model.func(f"{UT}:get_dot_dependency_graph")
    try:
        jw, jn = _judge_dot(model)
    except AnalysisError as e:
        jw = None
        ctx.extra["judge_unavailable:get_dot_dependency_graph"] = str(e)[:120]
    if jw is not None:
        ctx.ob("P0/closure/transitive-reduction", not jw, m.loc(fn),
               f"get_dot_dependency_graph interpreted on {jn} acyclic graphs: "
               "the edges drawn are exactly the transitive reduction" if not jw
               else "get_dot_dependency_graph: " + "; ".join(jw[:2]))
    mark = len(ctx.obs)
    try:
        _check_closure_loop(ctx, model)
    except AnalysisError:
        if jw is None or jw:
            raise
    if jw is not None and not jw:
        ctx.withdraw_failures_since(
            mark, "decided by interpreting the export on small graphs",
            "P/closure/")


def _check_closure_loop(ctx, model):
    UT = "pymbolic.imperative.utils"
    m, fn = model.func(f"{UT}:get_dot_dependency_graph")
    loc = m.loc(fn)
    fn = model.inlined(fn)
    loops = [w for w in ast.walk(fn) if isinstance(w, ast.While)]
    if not loops:
        _single_sweep_closure(ctx, m, fn)
        return
    if len(loops) != 1:
        raise AnalysisError("get_dot_dependency_graph: fixed-point loop not found")
    w = loops[0]
    flag = None
    if isinstance(w.test, ast.Constant) and w.test.value is True:
        # while True: ...; if not <flag>: break
        for st in w.body:
            if isinstance(st, ast.If) and st.body and isinstance(
                    st.body[0], ast.Break) and isinstance(
                    st.test, ast.UnaryOp) and isinstance(
                    st.test.op, ast.Not) and isinstance(st.test.operand,
                                                        ast.Name):
                flag = st.test.operand.id
                exit_idx = w.body.index(st)
        ok_exit = flag is not None and exit_idx == len(w.body) - 1
    elif isinstance(w.test, ast.Name):
        # <flag> = True; while <flag>: <flag> = False; ...
        flag = w.test.id
        ok_exit = not any(isinstance(n_, ast.Break) for n_ in ast.walk(w))
    else:
        raise AnalysisError("get_dot_dependency_graph: fixed-point loop test "
                            f"'{ast.unparse(w.test)}' not recognised")
    ctx.ob("P/closure/exit-only-when-unchanged", ok_exit, loc,
           "the loop ends only after a sweep that changed nothing" if ok_exit else
           "the closure loop can end although the last sweep changed something")
    if flag is None:
        return
    first = w.body[0]
    ok_reset = isinstance(first, ast.Assign) and ast.unparse(first.targets[0]) == \
        flag and isinstance(first.value, ast.Constant) and first.value.value is False
    ctx.ob("P/closure/flag-reset-per-sweep", ok_reset, loc,
           "the change flag is reset at the start of every sweep" if ok_reset else
           "the change flag is not reset to False at the start of each sweep")
    bad = []
    n_raise = 0
    for st in ast.walk(w):
        if st is first:
            continue
        if isinstance(st, ast.Assign) and any(
                isinstance(t, ast.Name) and t.id == flag for t in st.targets):
            v = st.value
            mono = (isinstance(v, ast.Constant) and v.value is True) or (
                isinstance(v, ast.BoolOp) and isinstance(v.op, ast.Or) and any(
                    isinstance(x, ast.Name) and x.id == flag for x in v.values))
            if mono:
                n_raise += 1
            else:
                bad.append(ast.unparse(st))
        if isinstance(st, ast.AugAssign) and isinstance(st.target, ast.Name) \
                and st.target.id == flag:
            if isinstance(st.op, ast.BitOr):
                n_raise += 1
            else:
                bad.append(ast.unparse(st))
    ctx.ob("P/closure/flag-monotone", not bad and n_raise >= 1, loc,
           "inside a sweep the flag is only ever raised" if not bad and n_raise
           else f"inside the sweep the change flag is overwritten ({bad}): a later "
           "pair that adds nothing hides an earlier change, the fixed point stops "
           "early and the closure stays incomplete (redundant edges are drawn)")
    # a new edge is added exactly when it is missing
    adds = [c for c in ast.walk(w) if (isinstance(c, ast.Call) and isinstance(
        c.func, ast.Attribute) and c.func.attr in ("add", "update")) or (
        isinstance(c, ast.AugAssign) and isinstance(c.op, ast.BitOr)
        and not (isinstance(c.target, ast.Name) and c.target.id == flag))]
    ctx.ob("P/closure/adds-edges", bool(adds), loc,
           "the sweep adds the discovered edges")


def _streams_consumed_once(ctx, model):
    """a statement stream may be a one-shot iterable (a generator): a function
    that walks a stream parameter twice sees nothing the second time.  Each
    stream parameter is either materialised first (p = list(p) / tuple(p) as
    the first thing done with it) or used at most once."""
    n = 0
    for fname, streams in (("disambiguate_identifiers", 2),
                           ("disambiguate_and_fuse", 2),
                           ("fuse_statement_streams_with_unique_ids", 2)):
        m, fn = model.func(f"{TR}:{fname}")
        params = [a.arg for a in fn.args.args][:streams]
        for p_ in params:
            n += 1
            uses = []
            materialised = False
            for st in fn.body:
                if isinstance(st, ast.Assign) and len(st.targets) == 1 and \
                        isinstance(st.targets[0], ast.Name) and \
                        st.targets[0].id == p_ and isinstance(st.value, ast.Call) \
                        and ast.unparse(st.value.func) in ("list", "tuple") and \
                        len(st.value.args) == 1 and ast.unparse(
                            st.value.args[0]) == p_ and not uses:
                    materialised = True
                    break
                for x in ast.walk(st):
                    if isinstance(x, ast.Name) and x.id == p_ and isinstance(
                            x.ctx, ast.Load):
                        uses.append(x)
                if any(isinstance(x, ast.Name) and x.id == p_
                       for a_ in ast.walk(st) if isinstance(a_, ast.Assign)
                       for t in a_.targets for x in ast.walk(t)):
                    break        # rebound to something else: later uses are
                    #              uses of the new value
            ok = materialised or len(uses) <= 1
            ctx.ob(f"P/{fname}/stream-walked-once:{p_}", ok, m.loc(fn),
                   f"{p_} is materialised first" if materialised else
                   f"{p_} is walked once" if ok else
                   f"{fname} walks the stream '{p_}' {len(uses)} times without "
                   "materialising it: given as a generator, the second walk is "
                   "empty (disambiguate_identifiers([x <- 1], (s for s in "
                   "[x <- 2])) returns no statements)")
    ctx.floor("stream parameters", n, 6)


def _dot_ids_quoted_alike(ctx, model):
    try:
        return _dot_ids_quoted_alike_structural(ctx, model)
    except AnalysisError:
        # the lines are built in a way the textual rule does not read: the
        # judge has drawn a graph whose ids need quoting and read the text
        if any(o.key == "P0/closure/transitive-reduction" and o.ok
               for o in ctx.obs):
            ctx.ob("T/dot/edge-ids-spelled-like-node-ids", True,
                   "pymbolic/imperative/utils.py",
                   "[shape not recognised] decided by reading the text the "
                   "interpreted export writes for ids that need quoting",
                   nontrivial=False)
            return
        raise


def _dot_ids_quoted_alike_structural(ctx, model):
    """A node is declared as "<id>" [...]; dot reads a quoted and an unquoted
    spelling as the same id only for plain identifiers.  The edge lines must
    spell the ids the way the node lines do, or the edges of a statement whose
    id is not a plain identifier (a blank, a dash) attach to other nodes / are
    not dot at all."""
    m, fn = model.func("pymbolic.imperative.utils:get_dot_dependency_graph")

    def template(e):
        """string-building expression -> text with {} for each hole"""
        if isinstance(e, ast.JoinedStr):
            return "".join(v.value if isinstance(v, ast.Constant) else "{}"
                           for v in e.values)
        if isinstance(e, ast.Call) and isinstance(e.func, ast.Attribute) and \
                e.func.attr == "format" and isinstance(e.func.value, ast.Constant):
            return e.func.value.value
        if isinstance(e, ast.BinOp) and isinstance(e.op, ast.Mod) and \
                isinstance(e.left, ast.Constant):
            return e.left.value.replace("%s", "{}")
        return None
    node_t, edge_t = [], []
    for c in ast.walk(fn):
        if isinstance(c, ast.Call) and isinstance(c.func, ast.Attribute) and \
                c.func.attr == "append" and len(c.args) == 1:
            t = template(c.args[0])
            if t is None:
                continue
            if "->" in t:
                edge_t.append((t, c))
            elif "[" in t and "{}" in t:
                node_t.append((t, c))
    if not node_t or not edge_t:
        raise AnalysisError("get_dot_dependency_graph: node / edge lines not "
                            "recognised")

    def quoted(t, k):
        """is the k-th hole wrapped in double quotes"""
        parts = t.split("{}")
        return parts[k].endswith('"') and parts[k + 1].startswith('"')
    nq = quoted(node_t[0][0], 0)
    for t, c in edge_t:
        same = quoted(t, 0) == nq and quoted(t, 1) == nq
        ctx.ob(f"T/dot/edge-ids-spelled-like-node-ids:{t.strip()[:24]}", same,
               m.loc(c),
               "edge lines spell statement ids as the node lines do" if same
               else f"nodes are declared as {node_t[0][0].split(' ')[0]} but "
               f"edges are written as '{t}': for an id that is not a plain "
               "identifier ('s 2', 's-1') the edge does not join the declared "
               "nodes (or is not dot at all), so the drawn graph is not the "
               "transitive reduction")
