"""C03 -- operator overloading builds trees that mean what the operators mean."""
from __future__ import annotations

import ast

from .. import AnalysisError
from ..model import ClassInfo
from ..summary import summarize

PRIM = "pymbolic.primitives"

S, O = ("selfobj",), ("param", "other")

# IDENT: valid construction-time shortcuts.  (operator method, guard) ->
# {allowed result}.  A guard is a sorted tuple of atoms.  "Z" marks rows that
# hold on the integers only (// and %), the domain these two operators have in
# this library and the reading the property text takes for x//1.
IDENT = {
    ("__add__", "other==0"): ({"S"}, "x + 0 = x"),
    ("__add__", "self==0"): ({"O"}, "0 + y = y"),
    ("__radd__", "other==0"): ({"S"}, "0 + x = x"),
    ("__radd__", "self==0"): ({"O"}, "y + 0 = y"),
    ("__sub__", "other==0"): ({"S"}, "x - 0 = x"),
    ("__rsub__", "other==0"): ({"-S"}, "0 - x = -x"),
    ("__mul__", "other==1"): ({"S"}, "x * 1 = x"),
    ("__mul__", "other==0"): ({"0"}, "x * 0 = 0"),
    ("__rmul__", "other==1"): ({"S"}, "1 * x = x"),
    ("__rmul__", "other==0"): ({"0"}, "0 * x = 0"),
    ("__truediv__", "other==1"): ({"S"}, "x / 1 = x"),
    ("__rtruediv__", "other==0"): ({"0"}, "0 / x = 0 wherever it is defined"),
    ("__rfloordiv__", "other==0"): ({"0"}, "0 // x = 0 wherever it is defined"),
    ("__rmod__", "other==0"): ({"0"}, "0 % x = 0 wherever it is defined"),
    ("__rlshift__", "other==0"): ({"0"}, "0 << x = 0"),
    ("__rrshift__", "other==0"): ({"0"}, "0 >> x = 0"),
    ("__lshift__", "other==0"): ({"S"}, "x << 0 = x"),
    ("__rshift__", "other==0"): ({"S"}, "x >> 0 = x"),
    ("__floordiv__", "other==1"): ({"S"}, "x // 1 = x  [Z]"),
    ("__rfloordiv__", "self==1"): ({"O"}, "y // 1 = y  [Z]"),
    ("__mod__", "other==1"): ({"0"}, "x % 1 = 0  [Z]"),
    ("__pow__", "other==0"): ({"1"}, "x ** 0 = 1"),
    ("__pow__", "other==1"): ({"S"}, "x ** 1 = x"),
    ("__rpow__", "other==1"): ({"1"}, "1 ** x = 1"),
}

# general (no-shortcut) results: method -> (node, operand order)
GENERAL = {
    "__add__": ("Sum", ["S", "O"]), "__radd__": ("Sum", ["O", "S"]),
    "__sub__": ("Sum", ["S", "-O"]), "__rsub__": ("Sum", ["O", "-S"]),
    "__mul__": ("Product", ["S", "O"]), "__rmul__": ("Product", ["O", "S"]),
    "__truediv__": ("quotient", ["S", "O"]),
    "__rtruediv__": ("quotient", ["O", "S"]),
    "__floordiv__": ("FloorDiv", ["S", "O"]),
    "__rfloordiv__": ("FloorDiv", ["O", "S"]),
    "__mod__": ("Remainder", ["S", "O"]), "__rmod__": ("Remainder", ["O", "S"]),
    "__pow__": ("Power", ["S", "O"]), "__rpow__": ("Power", ["O", "S"]),
    "__lshift__": ("LeftShift", ["S", "O"]),
    "__rlshift__": ("LeftShift", ["O", "S"]),
    "__rshift__": ("RightShift", ["S", "O"]),
    "__rrshift__": ("RightShift", ["O", "S"]),
    "__or__": ("BitwiseOr", ["S", "O"]), "__ror__": ("BitwiseOr", ["O", "S"]),
    "__xor__": ("BitwiseXor", ["S", "O"]), "__rxor__": ("BitwiseXor", ["O", "S"]),
    "__and__": ("BitwiseAnd", ["S", "O"]), "__rand__": ("BitwiseAnd", ["O", "S"]),
}
NARY = {"Sum", "Product", "BitwiseOr", "BitwiseXor", "BitwiseAnd", "LogicalAnd",
        "LogicalOr"}
GATES = {"is_valid_operand", "is_arithmetic_expression", "is_constant",
         "is_number"}


def _atom(v, pol):
    """normalise one branch condition to an atom string"""
    if not isinstance(v, tuple):
        return None
    if v[0] == "unop" and v[1] == "Not":
        inner = v[2]
        if inner[0] == "call" and inner[1] in GATES and inner[2] == (O,):
            return "gate-fail" if pol else "gate-ok"
        if inner == O:
            return "other==0" if pol else "other!=0"
        if inner == S:
            return "self==0" if pol else "self!=0"
        a = _atom(inner, not pol)
        return a
    if v[0] == "call" and v[1] in GATES and v[2] == (O,):
        return "gate-ok" if pol else "gate-fail"
    if v[0] == "call" and v[1] == "is_nonzero" and v[2] == (O,):
        return "other!=0" if pol else "other==0"
    if v[0] == "call" and v[1] == "is_zero" and len(v[2]) == 1:
        a = v[2][0]
        if a == O:
            return "other==0" if pol else "other!=0"
        if a == S:
            return "self==0" if pol else "self!=0"
        if a == ("binop", "Sub", O, ("const", 1)):
            return "other==1" if pol else "other!=1"
        if a == ("binop", "Sub", S, ("const", 1)):
            return "self==1" if pol else "self!=1"
    if v == S:
        return "self!=0" if pol else "self==0"
    if v == O:
        return "other!=0" if pol else "other==0"
    if v[0] == "call" and v[1] == "isinstance" and v[2][0] == O and \
            v[2][1][0] == "global":
        return f"other:{v[2][1][1]}" if pol else f"other!:{v[2][1][1]}"
    return None


def _item(x):
    if x == S:
        return "S"
    if x == O:
        return "O"
    if x == ("unop", "USub", O):
        return "-O"
    if x == ("unop", "USub", S):
        return "-S"
    if x == ("star", ("self", "children")) or x == ("self", "children"):
        return "*S"
    if x == ("star", ("attr", O, "children")) or x == ("attr", O, "children"):
        return "*O"
    if x[0] == "const":
        return repr(x[1])
    return f"?{x}"


def _result(rv):
    """normalise a returned value -> (kind, payload)"""
    if rv == S:
        return ("S",)
    if rv == O:
        return ("O",)
    if rv == ("global", "NotImplemented"):
        return ("NotImplemented",)
    if rv[0] == "const":
        return (repr(rv[1]),)
    if rv == ("unop", "USub", S):
        return ("-S",)
    if rv == ("binop", "Mult", ("const", -1), S):
        return ("(-1)*S",)
    if rv[0] == "call":
        name = rv[1].split(".")[-1]
        args = rv[2]
        if name in NARY and len(args) == 1:
            a = args[0]
            if a[0] == "lit":
                return ("node", name, [_item(x) for x in a[2]])
            if a[0] == "binop" and a[1] == "Add":
                return ("node", name, [_item(a[2]), _item(a[3])])
        if name == "__add__" and rv[1] == "self.__add__" and len(args) == 1:
            return ("delegate-add", _item(args[0]))
        return ("node", name, [_item(x) for x in args])
    return ("?", str(rv)[:80])


def run(ctx):
    model = ctx.model
    ctx.decide("every arithmetic/shift/bitwise dunder of Expression, Sum and "
               "Product, path by path: operand order (forward builds "
               "Node(self, other), reflected Node(other, self), splices keep "
               "left before right), node identity per operator, every "
               "neutral-element shortcut is a valid identity, unsupported "
               "operands return NotImplemented before anything is built")
    ctx.decide("ordering comparisons of Expression only raise and no node class "
               "overrides them; call/subscript/attribute/abs/logical/comparison "
               "constructors build the node they name with operands in order")
    ctx.decline("value equality itself (follows with C02 by induction); numpy "
                "scalar corner cases")
    ctx.assume("identities on // and % are read over the integers (tagged [Z] in "
               "the evidence), as the property text does for x//1")

    operator_rules(ctx, model)


_WORLDS = {}


def _world(model):
    from .. import opjudge
    if id(model) not in _WORLDS:
        _WORLDS.clear()
        _WORLDS[id(model)] = opjudge.World(model)
    return _WORLDS[id(model)]


def _operator_judge(ctx, model, world, cls, name, node, order):
    """-> witnesses ([] = holds), or None when the judge cannot interpret"""
    from .. import opjudge
    try:
        wit, n_ = opjudge.judge_operator(model, cls, name, node, order, world)
    except AnalysisError as e:
        ctx.extra.setdefault("judge_unavailable:operators", []).append(
            f"{cls.name}.{name}: {str(e)[:80]}")
        return None
    ctx.ob(f"E0/{cls.name}.{name}/operator-semantics", not wit, cls.loc(),
           f"{cls.name}.{name} interpreted on {n_} operand combinations: the "
           f"result equals {node}({', '.join(order)}) in the value normal form "
           "(only value-preserving shortcuts and splices, operands in order); "
           "unsupported operands are refused" if not wit else
           f"{cls.name}.{name}: " + "; ".join(wit[:2]), {"cases": n_},
           nontrivial=bool(wit))
    return wit


def operator_rules(ctx, model):
    """the rule instances about the overloaded operators; other properties whose
    code *builds its results with these operators* (the parser's unary minus,
    the differentiator's rules, the smart constructors' zero tests) carry them
    too: an operator that changes the value of what it builds breaks them all"""
    E = model.cls(f"{PRIM}:Expression")
    n_methods = 0
    accepted_z = []
    from .. import opjudge
    world = opjudge.World(model)
    for name, (node, order) in GENERAL.items():
        jwit = _operator_judge(ctx, model, world, E, name, node, order)
        mark = len(ctx.obs)
        mem = E.members.get(name)
        if name in ("__truediv__", "__rtruediv__"):
            mem = model.lookup(E, name)
        if mem is None or mem.kind != "func":
            if jwit is not None:
                n_methods += 1      # (a method made by a factory: judged above)
                continue
            ctx.ob(f"E/Expression.{name}/present", False, E.loc(),
                   f"Expression.{name} is missing")
            continue
        n_methods += 1
        try:
            _check_method(ctx, model, E, name, mem, node, order, accepted_z)
        except AnalysisError:
            if jwit is None or jwit:
                raise
        if jwit is not None and not jwit:
            for pre in (f"E/Expression.{name}/", f"I/Expression.{name}/"):
                ctx.withdraw_failures_since(
                    mark, "decided by interpreting the operator on abstract "
                    "operands", pre)
    ctx.floor("Expression operator methods", n_methods, 24)
    _admission(ctx, model, E)
    ctx.extra["Z_tagged_identities_accepted"] = accepted_z
    _unary(ctx, model, E)
    _overrides(ctx, model)
    _ordering(ctx, model, E)
    _constructors(ctx, model, E)
    _quotient_shortcut(ctx, model)
    _truthiness(ctx, model)
    _unary_overrides(ctx, model, E)


def _admission(ctx, model, E):
    """The property's operands include the booleans (True is listed among the
    special operands), and `x - True`, `x * True`, `x ** True` ... build trees.
    Every operator method must admit what its siblings admit: the gate of each
    is read (the predicate applied to `other` before anything else), and the
    predicates are classified by reading their bodies -- does the predicate
    reject the classes in _BOOL_CLASSES?"""
    rejects_bool = {}
    for g in GATES:
        key = f"{PRIM}:{g}"
        if key not in model.functions:
            continue
        _, fn = model.functions[key]
        rejects_bool[g] = any(isinstance(n_, ast.Name) and n_.id == "_BOOL_CLASSES"
                              for n_ in ast.walk(fn))
    gates = {}
    for name in GENERAL:
        mem = E.members.get(name) or model.lookup(E, name)
        if mem is None or mem.kind != "func":
            continue
        used = [c.func.id for st in mem.node.body[:2] for c in ast.walk(st)
                if isinstance(c, ast.Call) and isinstance(c.func, ast.Name)
                and c.func.id in GATES and len(c.args) == 1
                and isinstance(c.args[0], ast.Name)
                and c.args[0].id == mem.node.args.args[1].arg]
        if len(used) != 1:
            raise AnalysisError(f"Expression.{name}: operand gate not found at "
                                "the head of the method")
        gates[name] = used[0]
    judged_ok = sum(1 for o in ctx.obs if o.key.startswith("E0/Expression.")
                    and o.ok)
    if judged_ok < len(GENERAL):
        ctx.floor("operator methods with an operand gate", len(gates), 20)
    else:
        # every operator method was interpreted with an unsupported and a
        # boolean operand (E0/*): the gates need not be found by shape
        ctx.extra["operand_gates_found_by_shape"] = len(gates)
    admitting = [m for m, g in gates.items() if rejects_bool.get(g) is False]
    if len(admitting) < len(gates) // 2:
        raise AnalysisError("most operator methods refuse boolean operands: "
                            "the sibling-agreement rule has lost its majority")
    for name, g in sorted(gates.items()):
        ok = rejects_bool.get(g) is False
        ctx.ob(f"S/Expression.{name}/admits-boolean-operands", ok,
               E.module.loc(E.members[name].node if name in E.members
                            else model.lookup(E, name).node),
               f"gate {g} admits every operand kind its siblings admit" if ok
               else f"Expression.{name} gates on {g}, which refuses bool: "
               f"'{'True' if name.startswith('__r') else 'x'} "
               f"{_OPSYM.get(name, '?')} "
               f"{'x' if name.startswith('__r') else 'True'}' raises although "
               f"{len(admitting)} of the {len(gates)} operator methods (x - True, "
               "x * True, x ** True, ...) accept a boolean operand and the "
               "plain computation is defined")


_OPSYM = {"__add__": "+", "__radd__": "+", "__sub__": "-", "__rsub__": "-",
          "__mul__": "*", "__rmul__": "*", "__truediv__": "/",
          "__rtruediv__": "/", "__floordiv__": "//", "__rfloordiv__": "//",
          "__mod__": "%", "__rmod__": "%", "__pow__": "**", "__rpow__": "**",
          "__lshift__": "<<", "__rlshift__": "<<", "__rshift__": ">>",
          "__rrshift__": ">>", "__or__": "|", "__ror__": "|", "__xor__": "^",
          "__rxor__": "^", "__and__": "&", "__rand__": "&"}


def _check_method(ctx, model, cls, name, mem, node, order, accepted_z,
                  splice_self=False, lenient=False):
    loc = cls.module.loc(mem.node)
    tag = f"{cls.name}.{name}"
    pss = summarize(mem.node, node_param=False)
    saw_general = False
    for ps in pss:
        atoms = []
        unknown = None
        for t_, pol, v in ps.conds:
            a = _atom(v, pol)
            if a is None:
                unknown = v
            else:
                atoms.append(a)
        if unknown is not None and not lenient:
            raise AnalysisError(f"{loc} {tag}: condition not understood: "
                                f"{str(unknown)[:100]}")
        if unknown is not None:
            # an override with a guard outside the recognised atoms: the
            # guard cannot be judged, the constructed result still can
            res = _result(ps.retval) if ps.term == "return" else None
            if res is None or res == ("NotImplemented",):
                continue
            rvv = ps.retval
            if rvv[0] == "call" and (rvv[1] == f"super.{name}" or (
                    rvv[1].endswith(f".{name}") and rvv[2][:1] == (S,))):
                continue        # falls back to the inherited operator
            if res[0] == "node":
                want_items = [("*S" if x == "S" and splice_self else x)
                              for x in order]
                ok = res[1] == node and res[2] in (want_items, list(order))
                if not ok:
                    ctx.ob(f"E/{tag}/general:guarded", False, loc,
                           f"{tag} builds {res[1]}({', '.join(res[2])}) under a "
                           f"condition of its own; the operator denotes "
                           f"{node}({', '.join(order)}) -- wrong node or operands")
                continue
            if ps.retval[0] == "call" and ps.retval[1].startswith("super"):
                continue
            ctx.ob(f"I/{tag}/rewrite-outside-identity-table", False, loc,
                   f"{tag} returns {ast.unparse(ps.items[-1][1].value)} under a "
                   "condition of its own: a construction-time rewrite that is "
                   "not one of the valid neutral-element identities (the only "
                   "shortcuts known to preserve the value for every operand)")
            continue
        if ps.term == "raise":
            # assert-style gate
            ok = "gate-fail" in atoms
            ctx.ob(f"E/{tag}/gate", ok, loc,
                   "unsupported operands are rejected" if ok else
                   f"{tag} raises on a path that is not the operand-type gate")
            continue
        if ps.term != "return":
            ctx.ob(f"E/{tag}/falls-off", False, loc, f"{tag} can return None")
            continue
        res = _result(ps.retval)
        rvv = ps.retval
        if lenient and rvv[0] == "call" and (rvv[1] == f"super.{name}" or (
                rvv[1].endswith(f".{name}") and rvv[2][:1] == (S,))):
            saw_general = True
            continue            # falls back to the inherited operator
        if "gate-fail" in atoms:
            ok = res == ("NotImplemented",) and atoms[0] == "gate-fail"
            ctx.ob(f"E/{tag}/gate", ok, loc,
                   "unsupported operand -> NotImplemented, first thing" if ok else
                   f"{tag}: the operand-type gate does not return NotImplemented "
                   "before anything else")
            continue
        if res == ("NotImplemented",):
            ctx.ob(f"E/{tag}/gate", False, loc,
                   f"{tag} returns NotImplemented on a non-gate path")
            continue
        if not atoms or atoms[0] != "gate-ok":
            ctx.ob(f"E/{tag}/gate-first", False, loc,
                   f"{tag} builds or returns something before testing the "
                   "operand type")
            continue
        guards = [a for a in atoms[1:] if "==" in a]
        shortcut = res[0] in ("S", "O", "-S", "0", "1", "-1") or (
            len(res) == 1 and res[0] not in ("node",))
        base = name if cls.name == "Expression" else name
        if shortcut:
            # the deciding guard is the positive equality atom
            if not guards:
                ctx.ob(f"I/{tag}/shortcut:{res[0]}", False, loc,
                       f"{tag} returns {res[0]} without a guard on a neutral "
                       "element")
                continue
            g = guards[-1]
            row = IDENT.get((base, g))
            ok = row is not None and res[0] in row[0]
            key = f"I/{tag}/{g}->{res[0]}"
            if ok and "[Z]" in row[1]:
                accepted_z.append(f"{tag}: {row[1]}")
            ctx.ob(key, ok, loc,
                   f"shortcut {row[1]}" if ok else
                   f"{tag}: when {g} the result is {_pretty(res[0])}, which is "
                   "not a valid identity for this operator"
                   + (f" (valid would be {sorted(row[0])}: {row[1]})" if row
                      else " (no identity allows a shortcut on this guard)"),
                   {"guard": g, "result": res[0]})
            continue
        # general result
        if res[0] == "delegate-add":
            ok = name == "__sub__" and res[1] == "-O"
            saw_general = saw_general or ok
            ctx.ob(f"E/{tag}/general", ok, loc,
                   "x - y is built as x + (-y)" if ok else
                   f"{tag} delegates to __add__ with {res[1]}")
            continue
        if res[0] != "node":
            ctx.ob(f"E/{tag}/general", False, loc,
                   f"{tag}: unrecognised result {res}")
            continue
        _, built, items = res
        want_items = list(order)
        splice = [a for a in atoms if a.startswith("other:")]
        if splice:
            # other is of the same n-ary class: its children are spliced
            want_items = [("*O" if x == "O" else x) for x in want_items]
        if splice_self:
            want_items = [("*S" if x == "S" else x) for x in want_items]
        ok = built == node and items == want_items
        saw_general = saw_general or ok
        ctx.ob(f"E/{tag}/general" + (":splice" if splice else ""), ok, loc,
               f"builds {node}({', '.join(want_items)})" if ok else
               f"{tag} builds {built}({', '.join(items)}), expected "
               f"{node}({', '.join(want_items)}) -- wrong node or operand order",
               {"built": built, "operands": items})
    ctx.ob(f"E/{tag}/has-general-path", saw_general, loc,
           "general construction path present" if saw_general else
           f"{tag} has no path that builds {node} from both operands")


def _pretty(r):
    return {"S": "self", "O": "other", "-S": "-self"}.get(r, r)


def _unary(ctx, model, E):
    for name, want, what in (("__neg__", ("(-1)*S",), "-x = (-1)*x"),
                             ("__pos__", ("S",), "+x = x")):
        mem = E.members.get(name)
        ok = mem is not None and all(
            _result(ps.retval) == want
            for ps in summarize(mem.node, node_param=False))
        ctx.ob(f"E/Expression.{name}", ok, E.loc(), what if ok else
               f"Expression.{name} is not {what}")
    mem = E.members.get("__invert__")
    def invert_path_ok(ps):
        if _result(ps.retval) == ("node", "BitwiseNot", ["S"]):
            return True
        # ~~x = x: the operand of an existing inversion is handed back, on a
        # path that knows self to be exactly such a node (~ is an involution)
        if ps.retval == ("self", "child") or ps.retval == ("attr", S, "child"):
            for _, pol, v in ps.conds:
                if pol and isinstance(v, tuple) and (
                        (v[0] == "compare" and v[1] == ("Is",)
                         and v[2] == ("typeof", S)
                         and "BitwiseNot" in str(v[3]))
                        or (v[0] == "call" and v[1] == "isinstance"
                            and v[2][0] == S and "BitwiseNot" in str(v[2][1]))):
                    return True
        return False
    pss_inv = [ps for ps in summarize(mem.node, node_param=False)
               if ps.term == "return"] if mem is not None else []
    ok = bool(pss_inv) and all(invert_path_ok(ps) for ps in pss_inv) and any(
        _result(ps.retval) == ("node", "BitwiseNot", ["S"]) for ps in pss_inv)
    ctx.ob("E/Expression.__invert__", ok, E.loc(),
           "~x = BitwiseNot(x)" if ok else "Expression.__invert__ is not "
           "BitwiseNot(self)")
    # aliases
    for alias, target in (("__truediv__", "__div__"),
                          ("__rtruediv__", "__rdiv__")):
        raw = E.members.get(alias)
        ok = raw is not None and raw.kind == "alias" and \
            ast.unparse(raw.node) == target
        ctx.ob(f"E/Expression.{alias}/alias", ok, E.loc(),
               f"{alias} is {target}" if ok else
               f"Expression.{alias} is no longer an alias of {target}")


def _overrides(ctx, model):
    """Sum.__add__/__radd__/__sub__ and Product.__mul__/__rmul__ splice"""
    table = {
        ("Sum", "__add__"): ("Sum", ["S", "O"]),
        ("Sum", "__radd__"): ("Sum", ["O", "S"]),
        ("Sum", "__sub__"): ("Sum", ["S", "-O"]),
        ("Product", "__mul__"): ("Product", ["S", "O"]),
        ("Product", "__rmul__"): ("Product", ["O", "S"]),
    }
    dummy = []
    for (cname, name), (node, order) in table.items():
        cls = model.cls(f"{PRIM}:{cname}")
        mem = cls.members.get(name)
        if mem is None or mem.kind != "func":
            ctx.ob(f"E/{cname}.{name}/present", True, cls.loc(),
                   f"{cname} does not override {name}", nontrivial=False)
            continue
        jwit = _operator_judge(ctx, model, _world(model), cls, name, node, order)
        mark = len(ctx.obs)
        try:
            _check_method(ctx, model, cls, name, mem, node, order, dummy,
                          splice_self=True)
        except AnalysisError:
            if jwit is None or jwit:
                raise
        if jwit is not None and not jwit:
            for pre in (f"E/{cname}.{name}/", f"I/{cname}.{name}/"):
                ctx.withdraw_failures_since(
                    mark, "decided by interpreting the operator on abstract "
                    "operands", pre)
    # any other node class that overrides an arithmetic dunder is held to the
    # same rules (same node for the operator, operands in order, only valid
    # shortcuts); the legacy exact-arithmetic classes implement their own
    # algebra and are out of scope
    nt = model.nodes
    for n in nt.all():
        if n.name in ("Sum", "Product", "Polynomial", "Rational", "MultiVector"):
            continue
        over = sorted(set(n.cls.members) & set(GENERAL))
        if not over:
            ctx.ob(f"S/no-operator-override/{n.name}", True, n.cls.loc(),
                   "inherits Expression's operators", nontrivial=False)
            continue
        for name in over:
            mem = n.cls.members[name]
            if mem.kind != "func":
                continue
            node, order = GENERAL[name]
            jwit = _operator_judge(ctx, model, _world(model), n.cls, name, node,
                                   order)
            mark = len(ctx.obs)
            try:
                _check_method(ctx, model, n.cls, name, mem, node, order, dummy,
                              splice_self=(n.name == node), lenient=True)
            except AnalysisError:
                if jwit is None or jwit:
                    raise
            if jwit is not None and not jwit:
                for pre in (f"E/{n.name}.{name}/", f"I/{n.name}.{name}/"):
                    ctx.withdraw_failures_since(
                        mark, "decided by interpreting the operator on abstract "
                        "operands", pre)


def _is_typeerror(model, module, name, _depth=0):
    """TypeError, or a class of the package that derives from it"""
    if name == "TypeError":
        return True
    if _depth > 6 or not isinstance(name, str):
        return False
    try:
        ci = model.resolve_in_module(module, ast.parse(name, mode="eval").body)
    except SyntaxError:
        return False
    if ci is None or not hasattr(ci, "node"):
        return False
    return any(_is_typeerror(model, ci.module, ast.unparse(b), _depth + 1)
               for b in ci.node.bases)


def _ordering(ctx, model, E):
    for name in ("__lt__", "__le__", "__gt__", "__ge__"):
        mem = model.lookup(E, name)         # (follows class-body aliases)
        ok = False
        if mem is not None and mem.kind == "func":
            # (a module-level helper that raises is read as its body)
            def always_raises_typeerror(fn_, depth=0):
                pss_ = summarize(fn_, node_param=False)
                if not pss_:
                    return False
                for ps in pss_:
                    if ps.term == "raise" and ps.retval is not None and \
                            ps.retval[0] == "call" and _is_typeerror(
                                model, E.module, ps.retval[1]):
                        continue
                    # ... or ends in a call of a module-level helper that
                    # always does
                    last = ps.items[-2][1] if len(ps.items) >= 2 else None
                    callee = None
                    # (the summaries spell an inlined raising helper as
                    # __raises__(<exception>))
                    if isinstance(last, ast.Expr) and isinstance(
                            last.value, ast.Call) and isinstance(
                            last.value.func, ast.Name) and \
                            last.value.func.id == "__raises__" and \
                            last.value.args and isinstance(
                                last.value.args[0], ast.Call) and \
                            _is_typeerror(model, E.module, ast.unparse(
                                last.value.args[0].func)):
                        continue
                    if isinstance(last, ast.Expr) and isinstance(
                            last.value, ast.Call) and isinstance(
                            last.value.func, ast.Name):
                        callee = last.value.func.id
                    elif isinstance(last, ast.Return) and isinstance(
                            last.value, ast.Call) and isinstance(
                            last.value.func, ast.Name):
                        callee = last.value.func.id
                    key = f"{E.module.name}:{callee}"
                    if depth < 3 and callee and key in model.functions and \
                            always_raises_typeerror(model.functions[key][1],
                                                    depth + 1):
                        continue
                    return False
                return True
            ok = always_raises_typeerror(mem.node)
        ctx.ob(f"P/Expression.{name}/raises-typeerror", ok, E.loc(),
               "ordering comparison raises TypeError" if ok else
               f"Expression.{name} does not unconditionally raise TypeError: "
               "ordering two expressions yields a truth value")
    nt = model.nodes
    for n in nt.all():
        if n.name == "MultiVector":
            continue
        over = sorted(set(n.cls.members) & {"__lt__", "__le__", "__gt__",
                                            "__ge__"})
        ctx.ob(f"S/no-ordering-override/{n.name}", not over, n.cls.loc(),
               "no ordering override" if not over else
               f"{n.name} overrides {over}: expressions of this type can be "
               "ordered", nontrivial=False)
    # positive control for the zero-count rule
    ctx.floor("node classes scanned for ordering overrides", len(nt.all()), 43)


def _spliced_nary(rv, want):
    """Cls((*lhs, *rhs)) where lhs is `self.children if isinstance(self, Cls)
    else (self,)` and rhs likewise for other: operands in order, an operand of
    the same associative class spliced in place (as sums and products are)"""
    _, cls, order = want
    if not (isinstance(rv, tuple) and rv[0] == "call" and rv[1] == cls
            and len(rv[2]) == 1 and rv[2][0][0] == "lit"
            and rv[2][0][1] == "tuple"):
        return False
    items = rv[2][0][2]
    if len(items) != len(order):
        return False
    for it, who in zip(items, order):
        x = {"S": S, "O": O}[who]
        plain = it == x
        spl = it[0] == "star" and it[1][0] == "ifexp" and len(it[1]) == 4
        if spl:
            cond = getattr(it[1][1], "val", None)
            spl = cond == ("call", "isinstance", (x, ("global", cls)), ()) and \
                it[1][2] == ("attr", x, "children") if x != S else \
                cond == ("call", "isinstance", (x, ("global", cls)), ()) and \
                it[1][2] in (("attr", x, "children"), ("self", "children"))
            spl = spl and it[1][3] == ("lit", "tuple", (x,))
        if not (plain or spl):
            return False
    return True


def _constructors(ctx, model, E):
    table = {
        "not_": ("node", "LogicalNot", ["S"]),
        "and_": ("node", "LogicalAnd", ["S", "O"]),
        "or_": ("node", "LogicalOr", ["S", "O"]),
        "__abs__": None,
    }
    for name, want in table.items():
        if want is None:
            continue
        mem = E.members.get(name)
        ok = mem is not None and all(
            _result(ps.retval) == want or _spliced_nary(ps.retval, want)
            for ps in summarize(mem.node, node_param=False))
        ctx.ob(f"E/Expression.{name}", ok, E.loc(),
               f"{name} builds {want[1]}({', '.join(want[2])})" if ok else
               f"Expression.{name} does not build {want[1]} with operands in "
               "order")
    for name, sym in (("eq", "=="), ("ne", "!="), ("lt", "<"), ("le", "<="),
                      ("gt", ">"), ("ge", ">=")):
        mem = E.members.get(name)
        ok = mem is not None and all(
            ps.retval == ("call", "Comparison", (S, ("const", sym), O), ())
            for ps in summarize(mem.node, node_param=False))
        ctx.ob(f"E/Expression.{name}", ok, E.loc(),
               f"{name}() builds Comparison(self, '{sym}', other)" if ok else
               f"Expression.{name} does not build Comparison(self, '{sym}', "
               "other)")
    # call / subscript / attribute / abs
    mem = E.members.get("__call__")
    saw = set()
    for ps in summarize(mem.node, node_param=False):
        rv = ps.retval
        kw = any(v == ("kwargs",) and pol for _, pol, v in ps.conds)
        if kw:
            saw.add("kw")
            ok = rv[0] == "call" and rv[1] == "CallWithKwargs" and \
                rv[2] == (S, ("varargs",), ("kwargs",))
        else:
            saw.add("plain")
            ok = rv == ("call", "Call", (S, ("varargs",)), ())
        ctx.ob(f"E/Expression.__call__/{'kwargs' if kw else 'plain'}", ok,
               E.loc(), "call builds Call/CallWithKwargs(self, args[, kwargs])"
               if ok else "Expression.__call__ does not build the call node from "
               "(self, args, kwargs) in order")
    ctx.ob("E/Expression.__call__/paths", saw == {"kw", "plain"}, E.loc(),
           f"paths {sorted(saw)}")
    mem = E.members.get("__getitem__")
    general = [ps for ps in summarize(mem.node, node_param=False)
               if ps.retval == ("call", "Subscript",
                                (S, ("param", "subscript")), ())]
    ctx.ob("E/Expression.__getitem__", bool(general), E.loc(),
           "x[i] builds Subscript(x, i)" if general else
           "Expression.__getitem__ has no path building Subscript(self, "
           "subscript)")
    mem = E.members.get("attr")
    # (a refusal of a name that is no string builds nothing)
    pss_attr = [ps for ps in summarize(mem.node, node_param=False)
                if ps.term != "raise"]
    ok = bool(pss_attr) and all(
        ps.retval == ("call", "Lookup", (S, ("param", "name")), ())
        for ps in pss_attr)
    ctx.ob("E/Expression.attr", ok, E.loc(), "attr builds Lookup(self, name)")
    mem = E.members.get("__abs__")
    ok = all(ps.retval == ("call", "Call", (
        ("call", "Variable", (("const", "abs"),), ()),
        ("lit", "tuple", (S,))), ()) for ps in summarize(mem.node,
                                                          node_param=False))
    ctx.ob("E/Expression.__abs__", ok, E.loc(), "abs(x) builds abs(x) as a call")


def _quotient_shortcut(ctx, model):
    """quotient(n, d): the only shortcut is d == 1 -> n"""
    m, fn = model.func(f"{PRIM}:quotient")
    NUM, DEN = ("param", "numerator"), ("param", "denominator")
    for ps in summarize(fn, plain=True):
        if ps.term == "return" and ps.retval == NUM:
            ok = any((pol and v == ("unop", "Not", ("binop", "Sub", DEN,
                                                    ("const", 1))))
                     or (not pol and v == ("binop", "Sub", DEN, ("const", 1)))
                     for _, pol, v in ps.conds)
            ctx.ob("I/quotient/denominator==1->numerator", ok, m.loc(fn),
                   "n / 1 = n" if ok else
                   "quotient() returns the numerator under a guard other than "
                   "denominator == 1")
        elif ps.term == "return" and ps.retval[0] == "const":
            ctx.ob(f"I/quotient/constant-result:{ps.retval[1]}", False,
                   m.loc(fn), "quotient() folds to a constant")


# truthiness: the shortcuts above read `not other`, `if self:` and is_zero() as
# "this operand is zero".  A node class that defines __bool__ takes part in
# that test, so a falsy node must evaluate to zero in every environment.
# (class, field) -> the node's value is 0 wherever it is defined once that
# operand is 0
ABSORBING = {("Product", "children"), ("Quotient", "numerator"),
             ("FloorDiv", "numerator"), ("Remainder", "numerator"),
             ("LeftShift", "shiftee"), ("RightShift", "shiftee"),
             ("BitwiseAnd", "children")}
# the value can be non-zero although that operand is 0
NOT_ABSORBING = {("Power", "base"): "0 ** 0 == 1",
                 ("Power", "exponent"): "x ** 0 == 1",
                 ("Quotient", "denominator"): "x / 0 is undefined, not 0",
                 ("FloorDiv", "denominator"): "x // 0 is undefined, not 0",
                 ("Remainder", "denominator"): "x % 0 is undefined, not 0",
                 ("Sum", "children"): "0 + y == y",
                 ("BitwiseOr", "children"): "0 | y == y",
                 ("BitwiseXor", "children"): "0 ^ y == y",
                 ("LeftShift", "shift"): "x << 0 == x",
                 ("RightShift", "shift"): "x >> 0 == x"}
SINGLETON_IS_CHILD = {"Sum", "Product", "BitwiseOr", "BitwiseXor", "BitwiseAnd"}


def _short_rv(v):
    s_ = repr(v)
    return s_ if len(s_) < 90 else s_[:87] + "..."


def _truthiness(ctx, model):
    nt = model.nodes
    E = nt.expression
    n_judged = 0
    for n in nt.all():
        if n.name in ("Polynomial", "Rational", "MultiVector") or n.legacy:
            continue
        mem = model.lookup(n.cls, "__bool__")
        if mem is None:
            continue
        if any(k is not n.cls for k in model.subclasses(n.cls)) and \
                n.name not in SINGLETON_IS_CHILD and \
                not any((n.name, f) in ABSORBING for f in n.field_names):
            # an abstract family base (QuotientBase): its concrete subclasses
            # are judged one by one
            continue
        if mem.kind != "func":
            raise AnalysisError(f"{n.name}.__bool__ is not a plain method")
        n_judged += 1
        me = mem.node.args.args[0].arg
        bad = None

        def operand(x, conds):
            """-> (field, why-ok) | raises; x is the value whose zero-ness
            decides"""
            if x[0] == "self":
                return x[1], "scalar"
            if x[0] == "elem" and x[1][0] == "self":
                return x[1][1], "any"
            if x[0] == "index" and x[1][0] == "self" and x[2] == 0:
                one = any(pol and v == ("compare", ("Eq",),
                                        ("len", x[1]), (("const", 1),))
                          for _, pol, v in conds)
                return x[1][1], "single" if one else "first"
            raise AnalysisError(f"{n.name}.__bool__ tests {x}: not an operand "
                                "form the truthiness rule reads")

        def judge(x, conds):
            f, how = operand(x, conds)
            if how == "single" and n.name in SINGLETON_IS_CHILD:
                return None
            if how == "first":
                return (f"it tests only the first of {f} without knowing there "
                        "is exactly one")
            if (n.name, f) in ABSORBING and how in ("scalar", "any"):
                return None
            if (n.name, f) in NOT_ABSORBING:
                return (f"a zero '{f}' does not make a {n.name} zero "
                        f"({NOT_ABSORBING[(n.name, f)]})")
            raise AnalysisError(f"{n.name}.__bool__ depends on '{f}': the rule "
                                "has no algebraic fact about that operand")

        has_absorbing = any((n.name, f) in ABSORBING for f in n.field_names)
        if not has_absorbing and n.name not in SINGLETON_IS_CHILD:
            # no operand of this node forces its value to zero, so the node may
            # never be falsy: whatever the method computes, any way out that
            # is not the constant True is unsound
            for ps in summarize(mem.node, node_param=False, loop_mode="01"):
                if ps.term == "return" and ps.retval != ("const", True):
                    why = "; ".join(f"{n.name}: {v}" for (c_, f_), v in
                                    NOT_ABSORBING.items() if c_ == n.name)
                    bad = (f"it can answer False ({_short_rv(ps.retval)}), but "
                           f"no operand of a {n.name} being zero (or anything "
                           "about its structure) makes its value zero in every "
                           "environment" + (f" ({why})" if why else ""))
            ctx.ob(f"E/{n.name}.__bool__/falsy-means-zero", bad is None,
                   mem.owner.loc(mem.node),
                   f"{n.name}.__bool__ is always true" if bad is None else
                   f"{mem.owner.name}.__bool__ (as {n.name}): {bad}; the "
                   "construction shortcuts read a falsy operand as zero (x + e "
                   "-> x, x * e -> 0, x ** e -> 1), so they change the value of "
                   "the tree")
            continue
        from ..summary import split_conditionals

        class _P:           # a path with a conditional expression resolved
            def __init__(self, ps, extra, rv):
                self.term, self.retval = ps.term, rv
                self.conds = list(ps.conds) + [(None, b, c) for c, b in extra]
        for ps in [_P(ps0, extra, v)
                   for ps0 in summarize(mem.node, node_param=False,
                                        loop_mode="01")
                   for extra, v in (split_conditionals(ps0.retval)
                                    if ps0.term == "return" and isinstance(
                                        ps0.retval, tuple) else [((), ps0.retval)])]:
            if ps.term != "return":
                continue
            rv = ps.retval
            if rv == ("const", True):
                continue
            if rv == ("const", False):
                just = [v for _, pol, v in ps.conds
                        if pol and v[0] == "call" and v[1] == "is_zero"] + \
                       [v[2] for _, pol, v in ps.conds
                        if pol and v[0] == "unop" and v[1] == "Not"]
                if not just:
                    raise AnalysisError(f"{n.name}.__bool__ returns False on a "
                                        "path the truthiness rule cannot read")
                for v in just:
                    x = v[2][0] if v[0] == "call" else v
                    bad = bad or judge(x, ps.conds)
                continue
            if rv[0] == "call" and rv[1] in ("bool", "is_nonzero") and \
                    len(rv[2]) == 1:
                bad = bad or judge(rv[2][0], ps.conds)
                continue
            if rv[0] == "unop" and rv[1] == "Not" and rv[2][0] == "call" and \
                    rv[2][1] == "is_zero":
                bad = bad or judge(rv[2][2][0], ps.conds)
                continue
            # not any(is_zero(c) for c in children) / all(is_nonzero(c) ...)
            inner, neg = rv, False
            if inner[0] == "unop" and inner[1] == "Not":
                inner, neg = inner[2], True
            if inner[0] == "call" and inner[1] in ("any", "all") and \
                    len(inner[2]) == 1 and inner[2][0][0] == "seq" and \
                    not inner[2][0][4]:
                el = inner[2][0][2]
                zero_test = None
                if el[0] == "call" and el[1] == "is_zero":
                    zero_test, x = True, el[2][0]
                elif el[0] == "call" and el[1] in ("is_nonzero", "bool"):
                    zero_test, x = False, el[2][0]
                elif el[0] == "unop" and el[1] == "Not" and el[2][0] == "call" \
                        and el[2][1] == "is_zero":
                    zero_test, x = False, el[2][2][0]
                # falsy <=> some element is zero
                if (inner[1] == "any" and neg and zero_test is True) or \
                        (inner[1] == "all" and not neg and zero_test is False):
                    bad = bad or judge(x, ps.conds)
                    continue
            raise AnalysisError(f"{n.name}.__bool__ returns {rv}: not a form "
                                "the truthiness rule reads")
        ctx.ob(f"E/{n.name}.__bool__/falsy-means-zero", bad is None,
               mem.owner.loc(mem.node),
               f"a falsy {n.name} evaluates to zero wherever it is defined"
               if bad is None else
               f"{mem.owner.name}.__bool__ (as {n.name}): {bad}; the "
               "construction shortcuts read a falsy operand as zero (x + e -> x,"
               " x * e -> 0), so they change the value of the tree")
    ctx.floor("node classes with a truthiness rule", n_judged, 5)


# unary minus overridden below Expression: -(node) may be rebuilt with one
# operand negated only where the node's value is odd in that operand
ODD_IN = {("Quotient", "numerator"), ("Quotient", "denominator")}
NOT_ODD_IN = {("FloorDiv", "numerator"): "-(7 // 2) == -3 but (-7) // 2 == -4",
              ("FloorDiv", "denominator"): "-(7 // 2) == -3 but 7 // (-2) == -4",
              ("Remainder", "numerator"): "-(7 % 3) == -1 but (-7) % 3 == 2",
              ("Remainder", "denominator"): "-(7 % 3) == -1 but 7 % (-3) == -2",
              ("Power", "base"): "-(2 ** 2) == -4 but (-2) ** 2 == 4",
              ("Power", "exponent"): "-(2 ** 2) == -4 but 2 ** (-2) == 0.25",
              ("Sum", "children"): "-(a + b) negates every term, not one"}


def _unary_overrides(ctx, model, E):
    nt = model.nodes
    base = {k: E.members.get(k) for k in ("__neg__", "__pos__", "__invert__",
                                          "__abs__")}
    n_cls = 0
    for n in nt.all():
        if n.name in ("Polynomial", "Rational", "MultiVector") or n.legacy:
            continue
        n_cls += 1
        for name in base:
            mem = model.lookup(n.cls, name)
            if mem is None or mem is base[name] or (
                    base[name] is not None and mem.node is base[name].node):
                continue
            if mem.kind != "func":
                raise AnalysisError(f"{n.name}.{name} is not a plain method")
            if any(k is not n.cls for k in model.subclasses(n.cls)) and not any(
                    (n.name, f) in ODD_IN or (n.name, f) in NOT_ODD_IN
                    for f in n.field_names):
                continue        # family base: concrete subclasses judged
            bad = None
            for ps in summarize(mem.node, node_param=False):
                if ps.term != "return":
                    continue
                rv = ps.retval
                if name == "__neg__" and rv in (
                        ("binop", "Mult", ("const", -1), S),
                        ("binop", "Mult", S, ("const", -1))):
                    continue
                if name == "__pos__" and rv == S:
                    continue
                if name == "__neg__" and rv[0] == "ctor" and (
                        rv[1] == ("typeof", S) or rv[1] == ("global", n.name)) \
                        and not rv[3] and len(rv[2]) == len(n.field_names):
                    negated = []
                    for f, a in zip(n.field_names, rv[2]):
                        if a == ("self", f):
                            continue
                        if a == ("unop", "USub", ("self", f)) or a in (
                                ("binop", "Mult", ("const", -1), ("self", f)),):
                            negated.append(f)
                            continue
                        raise AnalysisError(
                            f"{n.name}.__neg__ rebuilds the node with {a} for "
                            f"'{f}': not a form the rule reads")
                    if len(negated) == 1 and (n.name, negated[0]) in ODD_IN:
                        continue
                    if len(negated) == 1 and (n.name, negated[0]) in NOT_ODD_IN:
                        bad = (f"-node is rebuilt as {n.name} with '{negated[0]}'"
                               f" negated, but {n.name} is not odd in that "
                               f"operand: {NOT_ODD_IN[(n.name, negated[0])]}")
                        continue
                    raise AnalysisError(
                        f"{n.name}.__neg__ negates {negated}: the rule has no "
                        "algebraic fact about that")
                raise AnalysisError(f"{mem.owner.name}.{name} (as {n.name}) "
                                    f"returns {rv}: not a form the rule reads")
            ctx.ob(f"E/{n.name}.{name}/override", bad is None,
                   mem.owner.loc(mem.node),
                   f"{mem.owner.name}.{name} keeps the value for {n.name}"
                   if bad is None else
                   f"{mem.owner.name}.{name}, inherited by {n.name}: {bad}")
    ctx.floor("node classes scanned for unary overrides", n_cls, 40)
