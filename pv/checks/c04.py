"""C04 -- mapper dispatch and the stock traversals reach every node correctly."""
from __future__ import annotations

import ast

from .. import AnalysisError
from .. import cfg
from ..model import (ClassInfo, always_raises, body_without_docstring,
                     dispatch, resolve_handler)
from ..rules import (check_attr_existence, check_combine_handler,
                     check_forwarding, check_identity_handler,
                     check_walk_handler, child_kinds, hname, is_raising,
                     mapper_node_pairs, where)
from ..summary import NODE, Evaluator, signature, summarize, contains

M = "pymbolic.mapper"


def run(ctx):
    model = ctx.model
    ctx.decide("dispatch routine shape (own handler, MRO fallback in order, "
               "unsupported hook, foreign routing)")
    ctx.decide("derived handler names for every node class")
    ctx.decide("IdentityMapper rebuild/unchanged/field coverage; WalkMapper "
               "visit/children-once/post_visit; CombineMapper/Collector fold of "
               "every child; CallbackMapper; extra-argument forwarding; "
               "covering-or-raising for every (stock mapper, node class) pair")
    ctx.decline("order in which siblings are visited")
    ctx.assume("handlers are resolved by name through the C3 MRO exactly as "
               "Python's getattr would on an instance without instance "
               "attributes shadowing map_* names")

    check_dispatch(ctx)
    check_foreign(ctx)
    from .c05 import check_container_inputs
    check_container_inputs(ctx, ctx.model)
    check_mapper_method_names(ctx)
    check_derivation_rule(ctx)
    check_traversals(ctx)
    # "the combine/collector mappers fold in the result of every child": a
    # collector whose combine() grows a set it was handed changes a *child's*
    # result after the fact (the cached variants and the CSE mix-in keep those
    # sets), so a later request for that child reports its siblings too
    from .c09 import DEP, combine_result_is_fresh
    combine_result_is_fresh(ctx, ctx.model, ctx.model.cls(
        f"{DEP}:DependencyMapper"))
    if ctx.tier == "thorough":
        check_synthetic_hierarchies(ctx)


# ---------------------------------------------------------------------------
# D1/D2: dispatch routines
# ---------------------------------------------------------------------------

def _is_fetch_from_self(v, via):
    """v = getattr(self, <name>, None) where <name> = getattr(<via>,
    'mapper_method', None)"""
    if not (isinstance(v, tuple) and v[0] == "call" and v[1] == "getattr"):
        return False
    a = v[2]
    if len(a) < 2 or a[0] != ("selfobj",):
        return False
    nm = a[1]
    if not (nm[0] == "call" and nm[1] == "getattr" and len(nm[2]) >= 2):
        return False
    return nm[2][0] == via and nm[2][1] == ("const", "mapper_method")


MRO_TAIL = ("slice", ("attr", ("typeof", NODE), "__mro__"), ("const", 1), None)


def _dispatch_call_ok(rv, allow):
    """classify a returned value of a dispatch routine"""
    if not isinstance(rv, tuple):
        return None
    if rv[0] == "call" and len(rv) == 5:
        callee = rv[4]
        if rv[2] and rv[2][0] == NODE and len(rv[2]) == 1:
            if _is_fetch_from_self(callee, NODE):
                return "own-handler"
            if _is_fetch_from_self(callee, ("elem", MRO_TAIL)):
                return "ancestor-handler"
    if rv[0] == "call" and rv[1] in ("self.handle_unsupported_expression",
                                     "self.map_foreign", "self.rec_fallback") \
            and rv[2] == (NODE,):
        return rv[1][5:]
    return None


def check_dispatch(ctx):
    model = ctx.model
    routines = [(f"{M}:Mapper", "__call__"), (f"{M}:Mapper", "rec_fallback"),
                (f"{M}:CachedMapper", "__call__")]
    for ckey, name in routines:
        owner, fn = model.require_method(ckey, name)
        mem = model.lookup(model.cls(ckey), name)
        sig = signature(fn)
        if sig.vararg is None or sig.kwarg is None or sig.node_name is None:
            ctx.ob(f"D1/{owner.name}.{name}/signature", False, where(mem),
                   "dispatch routine does not take (expr, *args, **kwargs)")
            continue
        # the judge: the routine interpreted on synthetic hierarchies
        from .. import dispatch
        try:
            wit, n_cases = dispatch.judge(
                fn, cached=owner.name == "CachedMapper",
                skip_own=name == "rec_fallback",
                module_tree=owner.module.tree,
                class_node=[k.node for k in reversed(model.mro(owner))
                            if hasattr(k, "node") and k.module is owner.module])
        except AnalysisError as e:
            # the judge cannot read this tree: the structural rules decide
            ctx.extra[f"judge_unavailable:{owner.name}.{name}"] = str(e)
            _structural_dispatch(ctx, model, owner, name, fn, mem)
            continue
        ctx.ob(f"D0/{owner.name}.{name}/dispatch-semantics", not wit, where(mem),
               f"{owner.name}.{name} interpreted on {n_cases} (hierarchy, handler "
               "subset, extra arguments) cases: own handler, else nearest "
               "ancestor's in MRO order, else the unsupported hook; foreign "
               "objects to map_foreign; extras unchanged" +
               ("; a second request is served from the table" if
                owner.name == "CachedMapper" else "") if not wit else
               f"{owner.name}.{name} does not dispatch as the property says: " +
               "; ".join(w[:220] for w in wit[:3]) +
               (f" (and {len(wit) - 3} more)" if len(wit) > 3 else ""),
               {"cases": n_cases})
        ctx.floor(f"{owner.name}.{name} dispatch cases", n_cases, 60)
        mark = len(ctx.obs)
        try:
            _structural_dispatch(ctx, model, owner, name, fn, mem)
        except AnalysisError:
            if wit:
                raise
        if not wit:
            ctx.withdraw_failures_since(
                mark, "decided by interpretation on synthetic hierarchies")
    # rec = __call__ aliases
    for ckey in (f"{M}:Mapper", f"{M}:CachedMapper"):
        c = model.cls(ckey)
        raw = c.members.get("rec")
        ok = raw is not None and raw.kind == "alias" and isinstance(
            raw.node, ast.Name) and raw.node.id == "__call__"
        ctx.ob(f"D1/{c.name}.rec/alias", ok, c.loc(),
               "rec is the class's own __call__" if ok else
               f"{c.name}.rec is not an alias of {c.name}.__call__: recursion "
               "bypasses this class's dispatch")


def _structural_dispatch(ctx, model, owner, name, fn, mem):
    """the fast structural reading of a dispatch routine (exits, MRO loop,
    order); its negative verdicts stand only when the interpretive judge
    agrees"""
    if True:
        sig = signature(fn)
        pss = summarize(fn, loop_mode="01")
        kinds_seen = set()
        for i, ps in enumerate(pss):
            tag = f"D1/{owner.name}.{name}/exit"
            loc = where(mem, ps.items[-1][1]) if ps.items[-1][1] is not None \
                else where(mem)
            if ps.term == "raise":
                ctx.ob(tag + ":raise", True, loc, "raises", nontrivial=False)
                continue
            if ps.term == "end":
                ctx.ob(tag + ":falls-off", False, loc,
                       f"{owner.name}.{name}: a path falls off the end and "
                       "returns None instead of dispatching")
                continue
            rv = ps.retval
            # look through a local: result = method(...); return result
            cls = _dispatch_call_ok(rv, None)
            fwd_ok = True
            if cls is None and name == "__call__" and owner.name == "CachedMapper":
                # cache hit: result of self._cache.get(key, sentinel) under
                # "is not sentinel"
                if rv[0] == "call" and rv[1].endswith("_cache.get"):
                    cls = "cache-hit"
                elif rv[0] == "index" and rv[1] == ("self", "_cache"):
                    cls = "cache-hit"     # try: return self._cache[key]
            if cls is None and owner.name != "Mapper" and rv[0] == "call" and \
                    rv[1] in ("Mapper.__call__", "super.__call__"):
                # an override that hands the object on to the base dispatcher
                # (itself judged above) with all arguments
                a = rv[2][1:] if rv[1] == "Mapper.__call__" else rv[2]
                if a[:1] == (NODE,):
                    cls = "base-dispatch"
            if cls is None:
                ctx.ob(tag + ":unrecognised:" + ast.unparse(ps.items[-1][1]),
                       False, loc,
                       f"{owner.name}.{name} returns something that is neither a "
                       "dispatched handler call on (expr, *args, **kwargs) nor a "
                       f"hook: {ast.unparse(ps.items[-1][1])}")
                continue
            # forwarding of extras at the returning call
            call_node = _find_call_node(ps, rv)
            for e in ps.events:
                if e.node is call_node:
                    fwd_ok = e.fwd_args and e.fwd_kwargs
            kinds_seen.add(cls)
            ctx.ob(tag + f":{cls}", fwd_ok or cls == "cache-hit", loc,
                   f"exit is {cls} with extras forwarded" if fwd_ok or
                   cls == "cache-hit" else
                   f"{owner.name}.{name}: {cls} call drops *args/**kwargs",
                   {"exit": cls})
        # D2: required exits
        if name == "__call__" and owner.name == "Mapper":
            need = {"own-handler", "ancestor-handler", "handle_unsupported_expression",
                    "map_foreign"}
        elif name == "rec_fallback":
            need = {"ancestor-handler", "handle_unsupported_expression",
                    "map_foreign"}
        else:
            need = {"own-handler", "rec_fallback", "cache-hit"}
        missing = need - kinds_seen
        ctx.ob(f"D2/{owner.name}.{name}/exits", not missing, where(mem),
               f"{owner.name}.{name} lacks the exit(s) {sorted(missing)}"
               if missing else f"exits: {sorted(kinds_seen)}",
               {"exits": sorted(kinds_seen)})
        if "ancestor-handler" in need:
            _check_mro_loop(ctx, owner, name, fn, mem)
        if name == "__call__":
            _check_order(ctx, owner, name, fn, mem, pss)


def _find_call_node(ps, rv):
    it = ps.items[-1]
    if it[0] == "return" and isinstance(it[1].value, ast.Call):
        return it[1].value
    if it[0] == "return" and isinstance(it[1].value, ast.Name):
        # result = <call>; return result  -> last assignment to the name
        nm = it[1].value.id
        for k in reversed(ps.items[:-1]):
            if k[0] == "stmt" and isinstance(k[1], ast.Assign) and any(
                    isinstance(t, ast.Name) and t.id == nm
                    for t in k[1].targets) and isinstance(k[1].value, ast.Call):
                return k[1].value
    return None


def _check_mro_loop(ctx, owner, name, fn, mem):
    """the ancestor search iterates type(expr).__mro__[1:] in order; it and the
    unsupported-expression hook are reached only for Expression instances,
    anything else goes to map_foreign; the hook is reached only after the
    search has been exhausted (path rule)"""
    loops = [n for n in ast.walk(fn) if isinstance(n, ast.For)]
    ok = False
    why = "no for-loop over type(expr).__mro__[1:]"
    the_loop = None
    for lp in loops:
        ev = Evaluator(fn)
        src = ev.ev(lp.iter)
        if src == MRO_TAIL:
            ok = True
            the_loop = lp
            why = "iterates type(expr).__mro__[1:] in order"
            for n in ast.walk(lp):
                if isinstance(n, (ast.Break,)):
                    raise AnalysisError(f"{owner.name}.{name}: the ancestor loop "
                                        "contains a break (not modelled)")
            break
        elif "__mro__" in ast.unparse(lp.iter):
            why = (f"ancestor loop iterates {ast.unparse(lp.iter)} instead of "
                   "type(expr).__mro__[1:] (order or start changed)")
    if ok:
        def is_expr(ps):
            """True / False / None: what the path knows about
            isinstance(expr, Expression)"""
            for _, pol, c in ps.conds:
                while isinstance(c, tuple) and c[0] == "unop" and c[1] == "Not":
                    c, pol = c[2], not pol
                if isinstance(c, tuple) and c[0] == "call" and \
                        c[1] == "isinstance" and c[2][0] == NODE and \
                        "Expression" in str(c[2][1]):
                    return pol
            return None
        for ps in summarize(fn, loop_mode="01"):
            if ps.term != "return":
                continue
            cls = _dispatch_call_ok(ps.retval, None)
            known = is_expr(ps)
            if cls in ("ancestor-handler", "handle_unsupported_expression") \
                    and known is not True:
                ok, why = False, (f"the {cls} exit is reached without "
                                  "isinstance(expr, Expression) having been "
                                  "established")
            if cls == "map_foreign" and known is not False:
                ok, why = False, ("map_foreign is reached for objects that may "
                                  "be Expression instances")
            if cls == "handle_unsupported_expression":
                # the search must be over: the loop was skipped or ran to its end
                done = any(it[0] in ("skipfor", "endfor") and it[1] is the_loop
                           for it in ps.items)
                if not done:
                    ok, why = False, ("the unsupported-expression hook is "
                                      "reached before the ancestor search")
    ctx.ob(f"D2/{owner.name}.{name}/mro-loop", ok, where(mem), why)


def _check_order(ctx, owner, name, fn, mem, pss):
    """own handler is tried before the ancestor fallback: on every path that
    exits through an ancestor handler / fallback, the own-handler fetch was
    evaluated and found None."""
    ok = True
    for ps in pss:
        cls = _dispatch_call_ok(ps.retval, None) if ps.term == "return" else None
        if cls in ("ancestor-handler", "handle_unsupported_expression",
                   "rec_fallback"):
            tested = False
            for test, pol, val in ps.conds:
                if isinstance(val, tuple) and contains(
                        val, lambda t: _is_fetch_from_self(t, NODE)) or (
                        isinstance(val, tuple) and contains(
                            val, lambda t: t[0] == "call" and t[1] == "getattr"
                            and t[2][:2] == (NODE, ("const", "mapper_method")))):
                    tested = True
            if not tested:
                ok = False
    ctx.ob(f"D2/{owner.name}.{name}/own-first", ok, where(mem),
           "own handler is looked up before any fallback" if ok else
           f"{owner.name}.{name}: a fallback exit is reachable without first "
           "testing the node's own mapper_method")


# ---------------------------------------------------------------------------
# D3: foreign objects
# ---------------------------------------------------------------------------

def check_foreign(ctx):
    model = ctx.model
    mem0 = model.lookup(model.cls(f"{M}:Mapper"), "map_foreign")
    fwit = None
    try:
        from .. import dispatch
        fwit, _routes = dispatch.judge_foreign(model)
    except AnalysisError as e:
        ctx.extra["judge_unavailable:Mapper.map_foreign"] = str(e)
    if fwit is not None:
        ctx.ob("D0/map_foreign/routing-semantics", not fwit, where(mem0),
               "map_foreign interpreted on a number of every registered kind, "
               "a list, a tuple, a numpy array, a string and an unsupported "
               "object: constants / list / tuple / array handler with "
               "(object, *extras, **kw), anything else refused" if not fwit
               else "Mapper.map_foreign: " + "; ".join(fwit[:3]))
    mark = len(ctx.obs)
    try:
        _check_foreign_structural(ctx)
    except AnalysisError:
        if fwit is None or fwit:
            raise
    if fwit is not None and not fwit:
        ctx.withdraw_failures_since(
            mark, "decided by interpreting map_foreign", prefix="D3/map_foreign/")


def _check_foreign_structural(ctx):
    model = ctx.model
    owner, fn = model.require_method(f"{M}:Mapper", "map_foreign")
    mem = model.lookup(model.cls(f"{M}:Mapper"), "map_foreign")
    want = {
        "map_constant": lambda t: "VALID_CONSTANT_CLASSES" in t and "isinstance" in t,
        "map_numpy_array": lambda t: "is_numpy_array" in t,
        "map_list": lambda t: t.replace(" ", "") == "isinstance(expr,list)",
        "map_tuple": lambda t: t.replace(" ", "") == "isinstance(expr,tuple)",
    }
    seen = {}
    pss = summarize(fn, loop_mode="01")
    final_raise = False
    for ps in pss:
        if ps.term == "raise":
            # the path on which every test failed
            if all(not pol for _, pol, _ in ps.conds):
                final_raise = True
            continue
        if ps.term != "return":
            ctx.ob("D3/map_foreign/falls-off", False, where(mem),
                   "map_foreign can fall off the end: an invalid object is "
                   "silently mapped to None")
            continue
        rv = ps.retval
        if rv[0] == "call" and rv[1].startswith("self.map_") and rv[2] == (NODE,):
            h = rv[1][5:]
            tests = [ast.unparse(t) for t, pol, _ in ps.conds if pol]
            seen[h] = tests[-1] if tests else ""
            fwd = all(e.fwd_args and e.fwd_kwargs for e in ps.events
                      if e.kind == "selfcall" and e.name == h)
            ctx.ob(f"D3/map_foreign/{h}/forward", fwd, where(mem, ps.items[-1][1]),
                   "extras forwarded" if fwd else
                   f"map_foreign drops the extra arguments when calling {h}")
        else:
            ctx.ob("D3/map_foreign/exit", False, where(mem, ps.items[-1][1]),
                   f"unrecognised exit {ast.unparse(ps.items[-1][1])}")
    for h, pred in want.items():
        ok = h in seen and pred(seen[h])
        ctx.ob(f"D3/map_foreign/{h}/route", ok, where(mem),
               f"{h} <- {seen.get(h)}" if ok else
               f"map_foreign does not route to {h} under the expected test "
               f"(found: {seen.get(h)!r})")
    ctx.ob("D3/map_foreign/reject", final_raise, where(mem),
           "any other object raises" if final_raise else
           "map_foreign has no raising path for objects that match no test")
    # is_numpy_array definitions
    for key in (f"{M}:is_numpy_array",):
        if key in model.functions:
            m, f = model.functions[key]


# ---------------------------------------------------------------------------
# derived handler names
# ---------------------------------------------------------------------------

STOCK = ["IdentityMapper", "WalkMapper", "CombineMapper", "Collector",
         "CallbackMapper"]

# node classes that no stock mapper is meant to handle by their own name
# (abstract bases: dispatch reaches them only through subclasses)
ABSTRACT_NODES = {"AlgebraicLeaf", "Leaf", "QuotientBase", "_ShiftOperator",
                  "_GeometricCalculusExpression"}


def check_mapper_method_names(ctx):
    model = ctx.model
    nt = model.nodes
    allnodes = nt.all()
    ctx.floor("node classes", len(allnodes), 43)
    decorated = [n for n in allnodes if n.decorated]
    ctx.floor("decorated node classes", len(decorated), 40)
    base = model.cls(f"{M}:Mapper")
    stock = [model.cls(f"{M}:{s}") for s in STOCK]
    for n in allnodes:
        if n.mapper_method is None:
            ctx.ob(f"N1/{n.name}/mapper_method", n.name in ABSTRACT_NODES,
                   n.cls.loc(), f"{n.name} has no mapper_method")
            continue
        # the name must be the derived one or an explicit literal
        if n.decorated and not n.mapper_method_explicit:
            want = "map_" + _snake(n.name)
            ctx.ob(f"N1/{n.name}/derived-name", n.mapper_method == want,
                   n.cls.loc(),
                   f"{n.name} -> {n.mapper_method}" if n.mapper_method == want
                   else f"derivation rule maps {n.name} to {n.mapper_method}, "
                   f"but the CamelCase->snake_case name is {want}",
                   {"derived": n.mapper_method})
        # does anybody implement this name?
        implementers = [s.name for s in stock
                        if model.lookup(s, n.mapper_method) is not None]
        anywhere = [c.name for c in model.classes.values()
                    if n.mapper_method in c.members]
        ok = bool(implementers) or bool(anywhere) or n.name in ABSTRACT_NODES
        ctx.ob(f"N1/{n.name}/handler-exists", ok, n.cls.loc(),
               f"{n.mapper_method} implemented by {implementers or anywhere}"
               if ok else
               f"no mapper in the package defines {n.mapper_method}: the derived "
               f"name of {n.name} matches no handler")


PROBE_NAMES = ["FooBar", "DOFVector", "CSEPlaceholder", "HTTPServerError", "X",
               "XY", "XYz", "aB", "Call", "CallWithKwargs", "_ShiftOperator",
               "MyNode2D", "ABCDef", "NaN"]


def check_derivation_rule(ctx):
    """the derivation rule read from the source (regex + template) against the
    documented CamelCase -> snake_case convention, on probe names that cover
    both alternatives of the regex (lower->Upper and ACRONYM->Word)"""
    nt = ctx.model.nodes
    loc = "pymbolic/primitives.py"
    srcexp = getattr(nt, "derivation_source", None)
    ok = bool(getattr(nt, "derivation_from_name", False))
    ctx.ob("N2/derivation/from-class-name", ok,
           f"pymbolic/primitives.py:{getattr(nt, 'derivation_line', 0)}",
           "the default handler name is derived from cls.__name__" if ok else
           f"the default handler name is derived from {srcexp}, not from the "
           "class's own name: a node class defined inside a function or another "
           "class (qualified name 'f.<locals>.Foo') gets a handler name no mapper "
           "can implement and silently falls back to an ancestor's handler")

    for name in PROBE_NAMES:
        got = nt.derive_mapper_method(name)
        want = "map_" + _snake(name)
        ctx.ob(f"N2/derivation/{name}", got == want, loc,
               f"{name} -> {got}" if got == want else
               f"the handler-name derivation maps a class named {name} to "
               f"{got}; the documented CamelCase -> snake_case name is {want} "
               "(user node classes with such names are dispatched to the wrong "
               "handler name)")


def _snake(name):
    # independent re-statement of the documented rule (CamelCase ->
    # snake_case), used as the oracle for the extracted derivation
    out = []
    for i, ch in enumerate(name):
        if ch.isupper() and i > 0:
            prev, nxt = name[i - 1], name[i + 1] if i + 1 < len(name) else ""
            if prev.islower() or (prev.isupper() and nxt.islower()):
                out.append("_")
        out.append(ch.lower())
    return "".join(out)


# ---------------------------------------------------------------------------
# the four stock traversals
# ---------------------------------------------------------------------------

def check_traversals(ctx):
    model = ctx.model
    ident = model.cls(f"{M}:IdentityMapper")
    walk = model.cls(f"{M}:WalkMapper")
    comb = model.cls(f"{M}:CombineMapper")
    coll = model.cls(f"{M}:Collector")
    cb = model.cls(f"{M}:CallbackMapper")
    ctx.floor("IdentityMapper slots", len(model.slots(ident)), 40)
    ctx.floor("WalkMapper slots", len(model.slots(walk)), 40)
    ctx.floor("CombineMapper slots", len(model.slots(comb)), 30)
    ctx.floor("CallbackMapper slots", len(model.own_slots(cb)), 29)

    pairs = 0
    site_count = 0
    dedupe = set()
    fwd_done = set()
    for mapper, family in ((ident, "F"), (walk, "W"), (comb, "K"), (coll, "K")):
        for n, res, chain, mem in mapper_node_pairs(model, mapper):
            pairs += 1
            tag = f"D4/{mapper.name}/{n.name}"
            if mem is None or mem.kind != "func":
                ctx.ob(tag, False, n.cls.loc(),
                       f"{mapper.name} resolves {n.name} to a non-function "
                       f"({res.slot})")
                continue
            if res.via == "unsupported" or res.via == "foreign":
                ok = is_raising(mem)
                ctx.ob(tag + "/unsupported", ok, where(mem),
                       f"{n.name} not handled by {mapper.name}: raises" if ok else
                       f"{mapper.name} does not handle {n.name} and its "
                       "unsupported-expression hook does not raise: the node is "
                       "silently skipped", {"via": res.via}, nontrivial=False)
                continue
            if is_raising(mem):
                ctx.ob(tag + "/raises", True, where(mem),
                       f"{n.name} -> {hname(mem)} raises "
                       f"(via {'/'.join(chain)})", {"chain": chain},
                       nontrivial=False)
                continue
            if n.name == "MultiVector" and family != "F":
                # data is a mapping bits -> coefficient
                pass
            site_count += check_attr_existence(ctx, "X1", model, mapper, n, mem,
                                               dedupe) or 0
            if family == "F":
                check_identity_handler(ctx, "F", model, mapper, n, mem)
            elif family == "W":
                check_walk_handler(ctx, "W", model, mapper, n, mem)
            else:
                if not child_kinds(n) and _returns_empty(mem):
                    ctx.ob(f"K/{mapper.name}/{mem.node.name}/{n.name}/leaf", True,
                           where(mem), "leaf: nothing to combine",
                           nontrivial=False)
                else:
                    check_combine_handler(ctx, "K", model, mapper, n, mem)
            if (id(mem.node)) not in fwd_done:
                fwd_done.add(id(mem.node))
                site_count += check_forwarding(ctx, "A", mapper, mem, n) or 0
    # foreign-object handlers and helper handlers of the stock traversals
    for mapper in (ident, walk, comb, coll):
        for name in ("map_constant", "map_list", "map_tuple", "map_numpy_array"):
            mem = model.lookup(mapper, name)
            if mem is None or mem.kind != "func" or is_raising(mem):
                continue
            if id(mem.node) not in fwd_done:
                fwd_done.add(id(mem.node))
                site_count += check_forwarding(ctx, "A", mapper, mem, None) or 0
    ctx.floor("(stock mapper, node class) pairs", pairs, 160)
    ctx.floor("forwarding / attribute sites", site_count, 149)

    # Mapper base: delegating defaults forward extras
    base = model.cls(f"{M}:Mapper")
    for name, mem in base.members.items():
        if name.startswith("map_") and mem.kind == "func" and not is_raising(mem) \
                and name != "map_foreign" and id(mem.node) not in fwd_done:
            fwd_done.add(id(mem.node))
            check_forwarding(ctx, "A", base, mem, None)

    # family fallback slots: the handler name of an abstract family base
    # (AlgebraicLeaf, Leaf: decorated, no fields of their own, node classes
    # below them) is what every *user* node type below that base falls back to,
    # whatever children it has.  A stock traversal that fills such a slot must
    # do something with the node it is handed: a handler whose result does not
    # depend on the node at all skips the node and everything below it.
    nt = model.nodes
    fam_slots = {}
    for n in nt.all():
        if n.decorated and not n.fields and not n.legacy and any(
                k is not n.cls for k in model.subclasses(n.cls)) and \
                n.mapper_method:
            fam_slots[n.mapper_method] = n
    ctx.floor("family fallback slots", len(fam_slots), 2)
    seen_fb = set()
    for mapper in [ident, walk, comb, coll] + sorted(
            model.subclasses(model.cls(f"{M}:Mapper")), key=lambda c: c.key):
        for slot, fam in sorted(fam_slots.items()):
            mem = model.lookup(mapper, slot)
            if mem is None or (mapper.key, slot) in seen_fb:
                continue
            seen_fb.add((mapper.key, slot))
            if mem.kind != "func":
                raise AnalysisError(f"{mapper.name}.{slot} is not a function")
            if is_raising(mem):
                ctx.ob(f"D4/{mapper.name}/{slot}/family-fallback", True,
                       where(mem), f"user node types below {fam.name} without "
                       "a handler of their own are reported by raising",
                       nontrivial=False)
                continue
            sig = signature(mem.node)
            uses = any(isinstance(x, ast.Name) and x.id == sig.node_name
                       for st in body_without_docstring(mem.node)
                       for x in ast.walk(st))
            ctx.ob(f"D4/{mapper.name}/{slot}/family-fallback", uses, where(mem),
                   f"{hname(mem)} works on the node it is handed" if uses else
                   f"{mapper.name}.{slot} resolves to {hname(mem)}, which never "
                   f"looks at the node: every user node type below {fam.name} "
                   "that the mapper has no handler for falls back to this slot "
                   "and is silently skipped together with its children "
                   "(class Indexed(AlgebraicLeaf) with fields base, position)")
    # Collector leaves return a fresh empty set
    for name in model.own_slots(coll):
        mem = model.lookup(coll, name)
        if mem.kind == "func":
            ok = _returns_empty(mem)
            ctx.ob(f"K/Collector/{name}/empty-leaf", ok, where(mem),
                   "leaf returns an empty set" if ok else
                   f"Collector.{name} does not return an empty set")

    # callback mapper
    target = None
    for name in model.own_slots(cb):
        mem = model.lookup(cb, name)
        if mem is None or mem.kind != "func":
            ctx.ob(f"CB/{name}", False, cb.loc(), f"CallbackMapper.{name} is not "
                   "a function")
            continue
        body = body_without_docstring(mem.node)
        ok = False
        if len(body) == 1 and isinstance(body[0], ast.Return) and isinstance(
                body[0].value, ast.Call):
            c = body[0].value
            sig = signature(mem.node)
            ok = (ast.unparse(c.func) == "self.function"
                  and len(c.args) == 3
                  and isinstance(c.args[0], ast.Name) and c.args[0].id == sig.node_name
                  and isinstance(c.args[1], ast.Name) and c.args[1].id == "self"
                  and isinstance(c.args[2], ast.Starred)
                  and ast.unparse(c.args[2].value) == sig.vararg
                  and any(k.arg is None and ast.unparse(k.value) == sig.kwarg
                          for k in c.keywords))
        ctx.ob(f"CB/{name}", ok, where(mem),
               "calls self.function(expr, self, *args, **kwargs)" if ok else
               f"CallbackMapper.{name} does not call self.function(expr, self, "
               "*args, **kwargs)")

    # cached variants add nothing of their own (dispatch-wise): they must pick
    # up CachedMapper.__call__ first in the MRO
    for cname, base_name in (("CachedIdentityMapper", "IdentityMapper"),
                             ("CachedWalkMapper", "WalkMapper"),
                             ("CachedCombineMapper", "CombineMapper"),
                             ("CachedCollector", "Collector")):
        c = model.cls(f"{M}:{cname}")
        own = [m for m in c.members if m.startswith("map_")]
        callm = model.lookup(c, "__call__")
        recm = model.lookup(c, "rec")
        ok = (not own and callm is not None and callm.owner.name == "CachedMapper"
              and recm is not None and recm.owner.name == "CachedMapper"
              and model.is_subclass(c, model.cls(f"{M}:{base_name}")))
        ctx.ob(f"S/{cname}/mro", ok, c.loc(),
               f"{cname}: handlers of {base_name}, dispatch of CachedMapper" if ok
               else f"{cname} does not combine CachedMapper dispatch with "
               f"{base_name} handlers unchanged")


def _returns_empty(mem):
    body = body_without_docstring(mem.node)
    return (len(body) == 1 and isinstance(body[0], ast.Return)
            and ast.unparse(body[0].value) in ("set()", "frozenset()"))


# ---------------------------------------------------------------------------
# thorough: synthetic user hierarchies through the same dispatch model
# ---------------------------------------------------------------------------

def check_synthetic_hierarchies(ctx):
    """Generate small user node hierarchies / handler subsets as *source*,
    push them through the same model and compare the resolved handler with
    the property's definition (own -> nearest ancestor implemented ->
    unsupported), computed independently here from the generated spec."""
    import itertools
    import os
    import shutil
    import tempfile

    from ..model import Model
    from ..repo import Repo

    root = tempfile.mkdtemp(prefix="pv-synth-")
    try:
        pkg = os.path.join(root, "pymbolic")
        shutil.copytree(os.path.join(ctx.model.repo.root, "pymbolic"), pkg,
                        ignore=shutil.ignore_patterns("__pycache__"))
        # hierarchies: chain A <- B <- C; each decorated or not; explicit
        # mapper_method or not
        specs = []
        for deco in itertools.product([True, False], repeat=3):
            if not deco[0]:
                continue  # root user class is always decorated (else abstract)
            for explicit in itertools.product([False, True], repeat=3):
                specs.append((deco, explicit))
        lines = ["from pymbolic.primitives import Expression, expr_dataclass",
                 "from pymbolic.mapper import Mapper", ""]
        names = []
        for si, (deco, explicit) in enumerate(specs):
            parent = "Expression"
            for lvl in range(3):
                cname = f"UserNode{si}L{lvl}"
                if deco[lvl]:
                    lines.append("@expr_dataclass()")
                lines.append(f"class {cname}({parent}):")
                if explicit[lvl]:
                    lines.append(f"    mapper_method = 'map_custom_{si}_{lvl}'")
                else:
                    lines.append("    pass")
                lines.append("")
                parent = cname
            names.append(si)
        # mappers: every subset of handlers for one hierarchy is simulated by
        # one mapper class per subset (8 subsets x specs)
        for si, (deco, explicit) in enumerate(specs):
            for sub in range(8):
                lines.append(f"class UserMapper{si}S{sub}(Mapper):")
                any_ = False
                for lvl in range(3):
                    if sub & (1 << lvl):
                        # name this level is known by
                        lines.append(
                            f"    def HANDLER_{si}_{lvl}(self, expr, *args, "
                            "**kwargs):\n        return expr")
                        any_ = True
                if not any_:
                    lines.append("    pass")
                lines.append("")
        src = "\n".join(lines)
        # we need the handler names: compute expected mapper_method per level
        # from the spec (the property's definition, stated independently)
        def expected_mm(si, lvl, deco, explicit):
            if explicit[lvl]:
                return f"map_custom_{si}_{lvl}"
            if deco[lvl]:
                return "map_" + _snake(f"UserNode{si}L{lvl}")
            # undecorated, not explicit: inherits the nearest ancestor's value
            for up in range(lvl - 1, -1, -1):
                if explicit[up]:
                    return f"map_custom_{si}_{up}"
                if deco[up]:
                    return "map_" + _snake(f"UserNode{si}L{up}")
            return None
        for si, (deco, explicit) in enumerate(specs):
            for lvl in range(3):
                src = src.replace(f"HANDLER_{si}_{lvl}",
                                  expected_mm(si, lvl, deco, explicit))
        with open(os.path.join(pkg, "_pv_synth.py"), "w") as f:
            f.write(src)
        m2 = Model(Repo(root))
        nt = m2.nodes
        count = 0
        for si, (deco, explicit) in enumerate(specs):
            for sub in range(8):
                mapper = m2.cls(f"pymbolic._pv_synth:UserMapper{si}S{sub}")
                for lvl in range(3):
                    node = nt.get(f"pymbolic._pv_synth:UserNode{si}L{lvl}")
                    res = dispatch(m2, mapper, node)
                    # expected: own name if implemented, else nearest ancestor
                    # (by MRO) whose name is implemented, else unsupported
                    exp = None
                    implemented = {expected_mm(si, l, deco, explicit)
                                   for l in range(3) if sub & (1 << l)}
                    for up in range(lvl, -1, -1):
                        nm = expected_mm(si, up, deco, explicit)
                        if nm in implemented:
                            exp = nm
                            break
                    got = res.slot if res.via != "unsupported" else None
                    count += 1
                    ctx.ob(f"SYN/spec{si}/subset{sub}/level{lvl}", got == exp,
                           "synthetic",
                           f"dispatch model resolves to {got}, definition says "
                           f"{exp}", {"decorated": deco, "explicit": explicit},
                           nontrivial=(count % 97 == 0))
        ctx.extra["synthetic_dispatch_cases"] = count
    finally:
        shutil.rmtree(root, ignore_errors=True)
