"""C01 -- structural equality, consistent hashing, immutability."""
from __future__ import annotations

import ast

from .. import AnalysisError
from ..model import ClassInfo
from ..rules import self_attrs_written
from ..summary import contains, signature, summarize
from ..template import instantiate

PRIM = "pymbolic.primitives"

# legacy (init-args protocol) node classes, confirmed by reading
LEGACY = {"Polynomial", "Rational", "MultiVector"}


def run(ctx):
    model = ctx.model
    ctx.decide("generated __eq__/__hash__ template (instantiated symbolically "
               "for 0..3 fields): True only via identity or class test + full "
               "field comparison; False only when the class or the hashes differ; "
               "hash over all fields, cached in _hash_value only; holes built "
               "from fields(cls) unfiltered")
    ctx.decide("every node class is decorated (hash enabled) or legacy; no class "
               "defines __eq__ without __hash__ or overrides __setattr__/"
               "__delattr__; frozen dataclass, eq=False; no mutable defaults")
    ctx.decide("who may write a node: only __post_init__ of the class on its own "
               "declared fields, the state/hash plumbing and legacy __init__s; "
               "no mapper handler writes an attribute of the node it is given")
    ctx.decline("reflexivity for exotic field values (NaN floats inside fields); "
                "behaviour under -O beyond 'state and equality do not depend on "
                "frozenness'")
    ctx.assume("field values are themselves hashable with consistent ==/hash "
               "(numbers, strings, tuples, immutabledict, nodes -- by induction)")

    check_template(ctx, model, "C01")
    _legacy_backend(ctx, model)
    _census(ctx, model)
    _frozen(ctx, model)
    _who_may_write(ctx, model)


# ---------------------------------------------------------------------------

SELF, OTHER = ("param", "self"), ("param", "other")
LEGACY_COND = "legacy"


def _is_legacy_cond(v, fields):
    """self.__class__ is not cls and self.init_arg_names != (<fields>,)"""
    if not (isinstance(v, tuple) and v[0] == "boolop" and v[1] == "And"
            and len(v[2]) == 2):
        return False
    a, b = v[2]
    want = ("lit", "tuple", tuple(("const", f) for f in fields))
    return (a == ("compare", ("IsNot",), ("typeof", SELF), (("global", "cls"),))
            and b == ("compare", ("NotEq",), ("attr", SELF, "init_arg_names"),
                      (want,)))


MARKER = "_is_expr_dataclass"


def _marker_owned(ctx, model, augment_fn):
    """The generated __eq__/__hash__/__getstate__/__setstate__ tell a decorated
    class from an undecorated (init-args) subclass of one by asking whether the
    marker is in the class's *own* __dict__.  That works only if nothing but
    the decorator puts it there: a store from __init_subclass__, a metaclass,
    or a class body of an undecorated subclass makes such a subclass pass for a
    dataclass node -- the attributes it adds drop out of equality, hashing and
    the pickled state."""
    nt = model.nodes
    bad = []
    n_sites = 0
    for mod in model.repo.modules.values():
        for n in ast.walk(mod.tree):
            tgts = []
            if isinstance(n, ast.Assign):
                tgts = n.targets
            elif isinstance(n, (ast.AnnAssign, ast.AugAssign)):
                tgts = [n.target] if getattr(n, "value", None) is not None else []
            for t in tgts:
                if isinstance(t, ast.Attribute) and t.attr == MARKER:
                    n_sites += 1
                    inside = any(x is n for x in ast.walk(augment_fn))
                    if not inside:
                        bad.append((mod, n, "an attribute store outside the "
                                    "decorator"))
                elif isinstance(t, ast.Name) and t.id == MARKER:
                    par = mod.parent(n)
                    if isinstance(par, ast.ClassDef):
                        ci = model.classes.get(f"{mod.name}:{par.name}")
                        node = None
                        if ci is not None:
                            try:
                                node = nt.get(ci.key)
                            except Exception:
                                node = None
                        if node is not None and not node.decorated and \
                                ci is not nt.expression:
                            bad.append((mod, n, f"the class body of the "
                                        f"undecorated node class {par.name}"))
            if isinstance(n, ast.Call) and ast.unparse(n.func) in (
                    "setattr", "type.__setattr__") and len(n.args) >= 2 and \
                    isinstance(n.args[1], ast.Constant) and \
                    n.args[1].value == MARKER:
                n_sites += 1
                if not any(x is n for x in ast.walk(augment_fn)):
                    bad.append((mod, n, "a setattr outside the decorator"))
    mod0, n0, why0 = bad[0] if bad else (None, None, None)
    ctx.ob("O/template/marker-set-only-by-the-decorator", not bad,
           mod0.loc(n0) if bad else model.repo.module(PRIM).loc(augment_fn),
           f"'{MARKER}' enters a class __dict__ only through the decorator" if
           not bad else
           f"'{MARKER}' is also put into classes by {why0}: the generated "
           "methods recognise an undecorated subclass of a dataclass node by "
           "the marker being absent from its own __dict__, so such a subclass "
           "now passes for a dataclass node and the constructor arguments it "
           "adds are left out of ==, hash() and the pickled state")
    if n_sites < 1:
        raise AnalysisError(f"no store of {MARKER} found: the marker rule has "
                            "lost its anchor")


def check_template(ctx, model, prop, only=None):
    """Rules on the instantiated template.  *only*: restrict to a subset of
    generated functions ("eqhash" or "state")."""
    m = model.repo.module(PRIM)
    _, fn = model.func(f"{PRIM}:_augment_expression_dataclass")
    loc = m.loc(fn)
    _marker_owned(ctx, model, fn)
    for nf in (0, 1, 2, 3):
        inst = instantiate(model, nf)
        tag = f"T/template/n={nf}"
        ctx.ob(f"{tag}/holes-unfiltered", not inst.problems, loc,
               "the three holes enumerate fields(cls) without filter, slice or "
               "reordering" if not inst.problems else
               "; ".join(inst.problems), {"holes": inst.holes})
        fields = inst.fields
        need = ["CLSNAME_eq", "CLSNAME_hash", "CLSNAME_getstate",
                "CLSNAME_setstate", "CLSNAME_getinitargs",
                "CLSNAME_init_arg_names"]
        missing = [f for f in need if f not in inst.funcs]
        if missing:
            raise AnalysisError(f"generated functions {missing} not found in the "
                                "template")
        # helper functions the template generates next to the six: inlined into
        # the functions that call them before those are judged
        extra = {k: v for k, v in inst.funcs.items() if k not in need}
        if extra:
            from ..inline import Inliner

            class _Gen(Inliner):
                def resolve(self, call):
                    f = call.func
                    if isinstance(f, ast.Name) and f.id in self.module_funcs:
                        return self.module_funcs[f.id], False
                    return None
            inl = _Gen(extra)
            for k in need:
                inst.funcs[k] = inl.apply(inst.funcs[k])
        if only in (None, "eqhash"):
            _check_eq(ctx, tag, loc, inst, fields)
            _check_hash(ctx, tag, loc, inst, fields)
            _check_installed(ctx, tag, loc, inst)
        if only in (None, "state"):
            check_state(ctx, tag, loc, inst, fields)


def _check_eq(ctx, tag, loc, inst, fields):
    fn = inst.funcs["CLSNAME_eq"]
    pss = summarize(fn, plain=True)
    saw_full = saw_legacy = False
    for ps in pss:
        if ps.term != "return":
            ctx.ob(f"{tag}/eq/falls-off", False, loc,
                   "generated __eq__ has a path that returns None")
            continue
        rv = ps.retval
        taken = [(pol, v) for _, pol, v in ps.conds]
        if rv == ("const", True):
            ok = any(pol and v == ("compare", ("Is",), SELF, (OTHER,))
                     for pol, v in taken)
            ctx.ob(f"{tag}/eq/true-only-by-identity", ok, loc,
                   "early True only for 'self is other'" if ok else
                   "generated __eq__ returns True early on a condition other "
                   "than 'self is other'")
        elif rv == ("const", False):
            last_pol, last = taken[-1]
            UNEQ = (
                ("compare", ("IsNot",), ("typeof", SELF), (("typeof", OTHER),)),
                ("compare", ("NotEq",), ("typeof", SELF), (("typeof", OTHER),)),
                ("compare", ("NotEq",), ("call", "hash", (SELF,), ()),
                 (("call", "hash", (OTHER,), ()),)),
                # the cached hashes are the hashes (the cache rules below)
                ("compare", ("NotEq",), ("attr", SELF, "_hash_value"),
                 (("attr", OTHER, "_hash_value"),)))
            EQ = (
                ("compare", ("Is",), ("typeof", SELF), (("typeof", OTHER),)),
                ("compare", ("Eq",), ("typeof", SELF), (("typeof", OTHER),)),
                ("compare", ("Eq",), ("call", "hash", (SELF,), ()),
                 (("call", "hash", (OTHER,), ()),)),
                ("compare", ("Eq",), ("attr", SELF, "_hash_value"),
                 (("attr", OTHER, "_hash_value"),)))

            def implies_unequal(v, pol):
                """does (v evaluating to pol) imply that self != other?"""
                while isinstance(v, tuple) and v[0] == "unop" and v[1] == "Not":
                    v, pol = v[2], not pol
                if pol and v in UNEQ:
                    return True
                if not pol and v in EQ:
                    return True
                if isinstance(v, tuple) and v[0] == "boolop":
                    if v[1] == "Or" and pol:
                        # some disjunct holds: every one of them must imply it
                        return all(implies_unequal(x, True) for x in v[2])
                    if v[1] == "And" and not pol:
                        return all(implies_unequal(x, False) for x in v[2])
                    if v[1] == "And" and pol:
                        return any(implies_unequal(x, True) for x in v[2])
                    if v[1] == "Or" and not pol:
                        return any(implies_unequal(x, False) for x in v[2])
                return False
            sound = implies_unequal(last, last_pol)
            ctx.ob(f"{tag}/eq/false-implies-unequal", sound, loc,
                   "early False only when the class or the hashes differ"
                   if sound else
                   "generated __eq__ returns False under a condition that does "
                   "not imply inequality: "
                   f"{ast.unparse(ps.conds[-1][0]) if hasattr(ps.conds[-1][0], 'lineno') else ps.conds[-1][2]}")
        elif rv[0] == "call" and rv[1] == "self.is_equal" and rv[2] == (OTHER,):
            ok = any(pol and _is_legacy_cond(v, fields) for pol, v in taken)
            saw_legacy = True
            ctx.ob(f"{tag}/eq/legacy-branch", ok, loc,
                   "non-dataclass subclasses with other init-args use is_equal"
                   if ok else
                   "the is_equal delegation is not guarded by 'subclass with "
                   "different init_arg_names'")
        else:
            conj = rv[2] if rv[0] == "boolop" and rv[1] == "And" else (rv,)
            compared = set()
            cls_tested = any(
                (not pol and v == ("compare", ("IsNot",), ("typeof", SELF),
                                   (("typeof", OTHER),))) for pol, v in taken)
            extra = []
            for c in conj:
                if c == ("const", True):
                    continue
                if c[0] == "compare" and c[1] == ("Eq",) and c[2][0] == "attr" \
                        and c[2][1] == SELF and c[3][0] == ("attr", OTHER,
                                                            c[2][2]):
                    compared.add(c[2][2])
                elif c in (("compare", ("Eq",), ("typeof", SELF),
                            (("typeof", OTHER),)),
                           ("compare", ("Is",), ("typeof", SELF),
                            (("typeof", OTHER),))):
                    cls_tested = True
                else:
                    extra.append(c)
            missing = [f for f in fields if f not in compared]
            ok = not missing and cls_tested and not extra
            saw_full = True
            ctx.ob(f"{tag}/eq/full-comparison", ok, loc,
                   f"equal iff same class and all of {fields} equal" if ok else
                   "generated __eq__'s final result "
                   + (f"does not compare field(s) {missing}" if missing else
                      "does not test the class" if not cls_tested else
                      f"contains foreign conjuncts {extra}"),
                   {"compared": sorted(compared)})
    ctx.ob(f"{tag}/eq/exits", saw_full and saw_legacy, loc,
           "full comparison and legacy exits present" if saw_full and saw_legacy
           else "generated __eq__ lacks its full-comparison or legacy exit")


def _check_hash(ctx, tag, loc, inst, fields):
    fn = inst.funcs["CLSNAME_hash"]
    pss = summarize(fn, plain=True)
    saw = set()
    for ps in pss:
        if ps.term != "return":
            ctx.ob(f"{tag}/hash/falls-off", False, loc,
                   "generated __hash__ has a path that returns None")
            continue
        rv = ps.retval
        writes = [e for e in ps.events if e.kind == "call"
                  and e.name == "object.__setattr__"]
        other_writes = [e for e in ps.events if e.kind in ("attrwrite",
                                                           "itemwrite")]
        if rv == ("attr", SELF, "_hash_value") and not ps.conds:
            saw.add("cached")
            ctx.ob(f"{tag}/hash/cached-first", not writes, loc,
                   "a cached hash is returned without recomputation")
            continue
        want_tuple = ("lit", "tuple", tuple(("attr", SELF, f) for f in fields))
        legacy = any(pol and _is_legacy_cond(v, fields) for _, pol, v in ps.conds)
        if legacy:
            ok_val = rv[0] == "call" and rv[1] == "self.get_hash"
            saw.add("legacy")
        else:
            # equal objects have the same class and equal fields: the hash may
            # be any function of those -- the fields (each compared by
            # __eq__) and constants derived from the class
            def the_class(x):
                return x in (("typeof", SELF), ("attr", SELF, "__class__"))

            def class_const(x):
                return the_class(x) or (
                    x[0] == "attr" and the_class(x[1])) or (
                    x[0] == "const" and isinstance(x[1], str))
            arg = rv[2][0] if rv[0] == "call" and rv[1] == "hash" and \
                len(rv[2]) == 1 else None
            items = None
            if arg is not None and arg[0] == "lit" and arg[1] == "tuple":
                # (name, *(<fields>)) is the tuple (name, <fields>...)
                items = []
                for x in arg[2]:
                    if x[0] == "star" and x[1][0] == "lit" and \
                            x[1][1] == "tuple":
                        items += list(x[1][2])
                    else:
                        items.append(x)
            ok_val = items is not None \
                and all(x in want_tuple[2] or class_const(x) for x in items) \
                and (not fields or any(x in want_tuple[2] for x in items))
            saw.add("fields")
        ok_w = len(writes) == 1 and writes[0].args[0] == SELF and \
            writes[0].args[1] == ("const", "_hash_value") and \
            writes[0].args[2] == rv and not other_writes
        ctx.ob(f"{tag}/hash/{'legacy' if legacy else 'fields'}-value", ok_val, loc,
               ("hash over get_hash()" if legacy else
                f"hash over fields {fields} (and class constants) only") if ok_val else
               ("generated __hash__ does not hash " +
                ("via get_hash() on the legacy branch" if legacy else
                 f"a tuple of its fields {fields} and class constants only: "
                 f"{ast.unparse(ps.items[-1][1].value) if ps.items[-1][1] is not None and ps.items[-1][1].value is not None else rv}")))
        ctx.ob(f"{tag}/hash/only-hash-value-written", ok_w, loc,
               "the only attribute written is _hash_value, via object.__setattr__,"
               " with the value returned" if ok_w else
               "generated __hash__ writes something other than "
               "object.__setattr__(self, '_hash_value', <returned value>)")
    ctx.ob(f"{tag}/hash/exits", {"cached", "legacy", "fields"} <= saw, loc,
           f"exits {sorted(saw)}" if {"cached", "legacy", "fields"} <= saw else
           f"generated __hash__ lacks exits "
           f"{sorted({'cached', 'legacy', 'fields'} - saw)}")


def _check_installed(ctx, tag, loc, inst):
    want = {"cls.__eq__": ("CLSNAME_eq", None),
            "cls.__hash__": ("CLSNAME_hash", "HASH_ENABLED"),
            "cls.__getstate__": ("CLSNAME_getstate", None),
            "cls.__setstate__": ("CLSNAME_setstate", None),
            "cls.__getinitargs__": ("CLSNAME_getinitargs", None),
            "cls.init_arg_names": ("property(CLSNAME_init_arg_names)", None)}
    for k, v in want.items():
        got = inst.assigns.get(k)
        ctx.ob(f"{tag}/installed/{k}", got == v, loc,
               f"{k} = {v[0]}" + (f" (if {v[1]})" if v[1] else "") if got == v
               else f"the template installs {k} as {got}, expected {v}")


def check_state(ctx, tag, loc, inst, fields):
    gs = inst.funcs["CLSNAME_getstate"]
    ss = inst.funcs["CLSNAME_setstate"]
    want_tuple = ("lit", "tuple", tuple(("attr", SELF, f) for f in fields))
    nondc = ("compare", ("NotIn",), ("const", "_is_expr_dataclass"),
             (("attr", ("typeof", SELF), "__dict__"),))
    isdc = ("compare", ("In",), ("const", "_is_expr_dataclass"),
            (("attr", ("typeof", SELF), "__dict__"),))

    def is_legacy(ps):
        """the path is taken for a non-dataclass subclass"""
        for _, pol, v in ps.conds:
            while isinstance(v, tuple) and v[0] == "unop" and v[1] == "Not":
                v, pol = v[2], not pol
            if (v == nondc and pol) or (v == isdc and not pol):
                return True
        return False
    saw = set()
    for ps in summarize(gs, plain=True):
        if ps.term != "return":
            ctx.ob(f"{tag}/getstate/falls-off", False, loc,
                   "generated __getstate__ can return None")
            continue
        legacy = is_legacy(ps)
        if legacy:
            ok = ps.retval == ("call", "Expression.__getstate__", (SELF,), ())
            saw.add("legacy")
            ctx.ob(f"{tag}/getstate/legacy", ok, loc,
                   "non-dataclass subclass: Expression.__getstate__" if ok else
                   "legacy branch of __getstate__ is not "
                   "Expression.__getstate__(self)")
        else:
            ok = ps.retval == want_tuple
            saw.add("fields")
            mentions_hash = contains(ps.retval, lambda t: t == ("attr", SELF,
                                                                "_hash_value"))
            ctx.ob(f"{tag}/getstate/fields-only", ok and not mentions_hash, loc,
                   f"state is exactly the field tuple {fields}" if ok else
                   "generated __getstate__ does not return exactly the tuple of "
                   f"all fields {fields} (the cached hash must not be pickled, no "
                   "field may be missing)")
    ctx.ob(f"{tag}/getstate/exits", saw == {"legacy", "fields"}, loc,
           f"exits {sorted(saw)}")
    saw = set()
    names_lit = ("lit", "tuple", tuple(("const", f) for f in fields))
    for ps in summarize(ss, plain=True, loop_mode="01"):
        legacy = is_legacy(ps)
        writes = [e for e in ps.events if e.kind == "call"
                  and e.name == "object.__setattr__"]
        if legacy:
            ok = ps.term == "return" and ps.retval == (
                "call", "Expression.__setstate__", (SELF, ("param", "state")), ())
            saw.add("legacy")
            ctx.ob(f"{tag}/setstate/legacy", ok, loc,
                   "non-dataclass subclass: Expression.__setstate__" if ok else
                   "legacy branch of __setstate__ is not "
                   "Expression.__setstate__(self, state)")
            continue
        if ps.term == "raise":
            continue        # a refused state restores nothing and says so
        saw.add("fields")
        ok = True
        for w in writes:
            src = w.in_loops[-1] if w.in_loops else None
            good_src = src == ("zip", (names_lit, ("param", "state")))
            good_args = w.args[0] == SELF and w.args[2] == ("elem", ("param",
                                                                      "state"))
            if not (good_src and good_args):
                ok = False
        bulk = [e for e in ps.events if e.kind == "call"
                and e.name == "self.__dict__.update" and e.args == (
                    ("zip", (names_lit, ("param", "state"))),)]
        if fields and not bulk and not any(
                it[0] == "for" for it in ps.items) and not writes:
            # the loop-free path of the "01" enumeration for a class with
            # fields would restore nothing -- only acceptable if some other
            # path of the same function does the work
            if not any(it[0] == "skipfor" for it in ps.items):
                ok = False
        if fields and any(it[0] == "for" for it in ps.items) and not writes:
            ok = False
        other = [e for e in ps.events if e.kind in ("attrwrite", "itemwrite")]
        # nothing of the class's own initialisation is run again: the state
        # holds the fields as the constructor left them, and a __post_init__
        # that converts its arguments (an index base, a unit) would convert
        # them a second time
        rerun = [c for it_ in ps.items if it_[0] in ("stmt", "return")
                 and isinstance(it_[1], ast.AST) for c in ast.walk(it_[1])
                 if (isinstance(c, ast.Attribute) and c.attr in (
                     "__post_init__", "__init__") and not (
                         isinstance(c.value, ast.Name) and
                         c.value.id == "Expression")) or (
                     isinstance(c, ast.Constant) and c.value in (
                         "__post_init__", "__init__"))]
        ctx.ob(f"{tag}/setstate/no-reinitialisation", not rerun, loc,
               "restoring the state runs no initialisation code" if not rerun
               else "generated __setstate__ runs __post_init__ / __init__ "
               "again on the restored fields: a user node class whose "
               "__post_init__ converts its arguments (or takes an InitVar) "
               "comes back from a pickle as a different expression, or not at "
               "all")
        ctx.ob(f"{tag}/setstate/fields-only", ok and not other, loc,
               "restores exactly the fields, pairing names with state in order"
               if ok and not other else
               "generated __setstate__ does not restore exactly the declared "
               "fields from the state tuple in order")
    ctx.ob(f"{tag}/setstate/exits", saw == {"legacy", "fields"}, loc,
           f"exits {sorted(saw)}")
    # the sentinel name tuple has one entry per field
    ctx.ob(f"{tag}/state/names-match-values",
           inst.holes.get("fld_name_tuple", "").count("'") == 2 * len(fields)
           and inst.holes.get("attr_tuple", "").count("self.") == len(fields), loc,
           "field-name tuple and attribute tuple list the same fields")


# ---------------------------------------------------------------------------

def _legacy_backend(ctx, model):
    E = model.cls(f"{PRIM}:Expression")
    loc = E.loc()

    def one(name):
        mem = E.members.get(name)
        if mem is None or mem.kind != "func":
            raise AnalysisError(f"Expression.{name} not found")
        return mem

    # is_equal: type test and full init-args comparison
    mem = one("is_equal")
    from ..rules import UnknownAtom, predicate_table
    ia = lambda x: ("call", f"{x[1]}.__getinitargs__", (), (),  # noqa
                    ("recv", x, "__getinitargs__"))
    T_SAME = {("compare", ("Is",), ("typeof", OTHER), (("typeof", SELF),)),
              ("compare", ("Is",), ("typeof", SELF), (("typeof", OTHER),))}
    T_DIFF = {("compare", ("IsNot",), ("typeof", OTHER), (("typeof", SELF),)),
              ("compare", ("IsNot",), ("typeof", SELF), (("typeof", OTHER),))}
    I_EQ = {("compare", ("Eq",), ia(SELF), (ia(OTHER),)),
            ("compare", ("Eq",), ia(OTHER), (ia(SELF),))}
    I_NE = {("compare", ("NotEq",), ia(SELF), (ia(OTHER),)),
            ("compare", ("NotEq",), ia(OTHER), (ia(SELF),))}

    def atom_of(v):
        if v in T_SAME:
            return "T"
        if v in T_DIFF:
            return ("T", True)
        if v in I_EQ:
            return "I"
        if v in I_NE:
            return ("I", True)
        return None
    try:
        tab = predicate_table(summarize(mem.node, plain=True), atom_of, ["T", "I"])
    except UnknownAtom as e:
        raise AnalysisError(f"Expression.is_equal: cannot read {e}")
    ok = all(res == (t and i) for (t, i), res in tab.items())
    ctx.ob("S/legacy/is_equal", ok, E.module.loc(mem.node),
           "is_equal: same type and equal init-args" if ok else
           "Expression.is_equal is not 'same type and __getinitargs__() equal'")
    mem = one("get_hash")
    ok = False
    for ps in summarize(mem.node, plain=True):
        rv = ps.retval
        if ps.term == "return" and rv[0] == "call" and rv[1] == "hash":
            a = rv[2][0]
            ok = a[0] == "lit" and len(a[2]) == 2 and \
                a[2][0] == ("attr", ("typeof", SELF), "__name__") and \
                a[2][1][0] == "star" and "__getinitargs__" in str(a[2][1])
    ctx.ob("S/legacy/get_hash", ok, E.module.loc(mem.node),
           "get_hash: hash of (class name, *init-args) -- a function of what "
           "is_equal compares" if ok else
           "Expression.get_hash is not hash((type name, *__getinitargs__()))")
    mem = one("__eq__")
    kinds = set()
    for ps in summarize(mem.node, plain=True):
        if ps.term != "return":
            continue
        rv = ps.retval
        last = ps.conds[-1] if ps.conds else None
        if rv == ("const", True):
            if last and last[1] and last[2] == ("compare", ("Is",), SELF, (OTHER,)):
                kinds.add("identity")
            else:
                kinds.add("bad-true")
        elif rv == ("const", False):
            if last and last[1] and last[2] == (
                    "compare", ("NotEq",), ("call", "hash", (SELF,), ()),
                    (("call", "hash", (OTHER,), ()),)):
                kinds.add("hash-differs")
            else:
                kinds.add("bad-false")
        elif rv[0] == "call" and rv[1] == "self.is_equal":
            kinds.add("is_equal")
        else:
            kinds.add("bad")
    ok = kinds == {"identity", "hash-differs", "is_equal"}
    ctx.ob("S/legacy/__eq__", ok, E.module.loc(mem.node),
           "Expression.__eq__: identity, hash fast path, then is_equal" if ok else
           f"Expression.__eq__ exits {sorted(kinds)}")
    mem = one("__hash__")
    ok = True
    saw_cached = saw_compute = False
    plain_store = False
    for ps in summarize(mem.node, plain=True):
        if ps.term != "return":
            continue
        w = [e for e in ps.events if e.kind == "attrwrite" and e.arg == SELF]
        osa = [e for e in ps.events if e.kind == "call"
               and e.name == "object.__setattr__" and len(e.args) == 3
               and e.args[0] == SELF and e.args[1] == ("const", "_hash_value")]
        if any(isinstance(v, tuple) and v[0] == "except" for _, _, v in ps.conds):
            saw_compute = True
            if w:
                plain_store = True
                ok = ok and len(w) == 1 and w[0].name == "_hash_value" and \
                    w[0].value[0] == "call" and w[0].value[1] == "self.get_hash"
            else:
                ok = ok and len(osa) == 1 and osa[0].args[2][0] == "call" and \
                    osa[0].args[2][1] == "self.get_hash"
        else:
            saw_cached = True
            ok = ok and not [x for x in w if x.name != "_hash_value"] and \
                ps.retval == ("attr", SELF, "_hash_value")
    ctx.ob("S/legacy/__hash__", ok and saw_cached and saw_compute,
           E.module.loc(mem.node),
           "Expression.__hash__: cached _hash_value, else get_hash()" if ok else
           "Expression.__hash__ does not cache get_hash() in _hash_value only")
    # the legacy hash also serves decorated classes declared with hash=False,
    # whose instances are frozen: its cache store must bypass __setattr__ the
    # way the generated hash does
    _, edc = model.func(f"{PRIM}:expr_dataclass")
    can_disable = any(a.arg == "hash" for a in edc.args.args + edc.args.kwonlyargs)
    ctx.ob("O/legacy/__hash__/cache-store-works-when-frozen",
           not (plain_store and can_disable), E.module.loc(mem.node),
           "the cache store of the inherited hash works on frozen instances"
           if not (plain_store and can_disable) else
           "Expression.__hash__ stores its cache with a plain attribute "
           "assignment; a class declared with expr_dataclass(hash=False) inherits "
           "it while its instances are frozen, so hash() -- and with it every == "
           "between two distinct instances -- raises FrozenInstanceError")
    mem = one("__ne__")
    from ..rules import sole_result
    rv = sole_result(mem.node, plain=True)
    o_ = ("param", mem.node.args.args[1].arg)
    s_ = ("param", mem.node.args.args[0].arg)
    ne_ok = rv is not None and rv[0] == "unop" and rv[1] == "Not" and \
        rv[2][0] == "call" and rv[2][1].endswith(".__eq__") and \
        rv[2][2] == (o_,) and len(rv[2]) >= 5 and rv[2][4][1] == s_
    ctx.ob("S/legacy/__ne__", ne_ok,
           E.module.loc(mem.node), "__ne__ is the negation of __eq__")


def _census(ctx, model):
    nt = model.nodes
    nodes = nt.all()
    ctx.floor("node classes", len(nodes), 43)
    n_dec = 0
    for n in nodes:
        c = n.cls
        own = set(c.members)
        if n.decorated:
            n_dec += 1
            ctx.ob(f"S/census/{n.name}/hash-enabled", n.hash_enabled, c.loc(),
                   "expr_dataclass with hash" if n.hash_enabled else
                   f"{n.name} is declared with hash=False: instances fall back "
                   "to an inherited hash that ignores the new fields")
        else:
            ok = n.name in LEGACY or not n.fields or all(
                k.name in LEGACY or (isinstance(k, ClassInfo) and
                                     k.key in nt.table and nt.table[k.key].decorated)
                or k is nt.expression or not isinstance(k, ClassInfo)
                for k in model.mro(c)[1:2])
            ctx.ob(f"S/census/{n.name}/kind", ok, c.loc(),
                   f"{n.name}: " + ("legacy init-args class" if n.name in LEGACY
                                    else "undecorated subclass of a decorated "
                                    "class (inherits its generated methods)"),
                   nontrivial=False)
        # own __eq__ without own __hash__  =>  Python sets __hash__ = None
        if "__eq__" in own and "__hash__" not in own:
            ctx.ob(f"S/census/{n.name}/eq-without-hash", False, c.loc(),
                   f"{n.name} defines __eq__ in its class body without __hash__: "
                   "Python sets __hash__ to None, instances are unhashable and "
                   "cannot be dict/set keys, cache keys or evaluated by the "
                   "memoizing evaluator")
        if not n.decorated and "__eq__" in own and "__hash__" in own and \
                model.is_subclass(c, nt.expression):
            _own_eq_hash_agree(ctx, n, c)
        if n.decorated:
            bad = sorted(own & {"__eq__", "__hash__", "__ne__"})
            ctx.ob(f"S/census/{n.name}/no-eq-hash-override", not bad, c.loc(),
                   "equality and hash come from the template" if not bad else
                   f"{n.name} overrides {bad} in its class body: the decorator "
                   "then replaces or contradicts them")
        # an override that raises on every path only adds protection
        init = c.members.get("__init__")
        stored = sorted(set(n.field_names) | (
            self_attrs_written(init.node)
            if init is not None and init.kind == "func" else set()))
        bad = sorted(k for k in own & {"__setattr__", "__delattr__"}
                     if not _always_raises(c.members[k], stored))
        ctx.ob(f"S/census/{n.name}/no-setattr-override", not bad, c.loc(),
               "no permissive __setattr__/__delattr__ override" if not bad else
               f"{n.name} overrides {bad}: frozenness can be bypassed",
               nontrivial=False)
        # a class outside the dataclass machinery that stores state of its own
        # must block rebinding itself
        if not n.decorated and init is not None and init.kind == "func" and \
                model.is_subclass(c, nt.expression) and \
                self_attrs_written(init.node):
            mine = sorted(self_attrs_written(init.node))
            guards = {k: any(k in kk.members
                             and _always_raises(kk.members[k], mine)
                             for kk in model.mro(c) if isinstance(kk, ClassInfo))
                      for k in ("__setattr__", "__delattr__")}
            ok = all(guards.values())
            ctx.ob(f"O/legacy/{n.name}/fields-frozen", ok, c.loc(),
                   f"{n.name} (init-args protocol) raises on attribute "
                   "rebinding/deletion" if ok else
                   f"{n.name} stores its fields as plain instance attributes and "
                   "nothing blocks rebinding them: obj.<field> = value succeeds "
                   "and changes the object's equality class and hash")
        # (ordering dunders are C03's clause, not C01's: nothing is said here)
    ctx.floor("decorated node classes", n_dec, 40)
    # user subclasses outside the dataclass machinery (pure init-args classes,
    # or an undecorated subclass adding attributes to a decorated class: the
    # frozen dataclass __setattr__ only guards the declared fields there) get
    # protection only from the common base
    E = nt.expression
    if "__init_subclass__" in E.members or any(
            k.arg == "metaclass" for k in E.node.keywords):
        raise AnalysisError("Expression customises subclass creation: the rule "
                            "on user subclasses' attributes cannot read that")
    ok = all(k in E.members and _always_raises(E.members[k])
             for k in ("__setattr__", "__delattr__"))
    ctx.ob("O/legacy/user-subclasses/fields-frozen", ok, E.loc(),
           "the common base blocks attribute rebinding" if ok else
           "nothing blocks rebinding the attributes an undecorated (init-args "
           "protocol) subclass stores on its instances: with class L(Expression) "
           "storing self.val in __init__, 'L(1).val = 2' succeeds and leaves the "
           "object unequal to both L(1) and L(2) with a stale cached hash; the "
           "same holds for the extra attributes of an undecorated subclass of a "
           "decorated class")
    # __post_init__ runs before a hash can exist
    for n in nodes:
        pi = n.cls.members.get("__post_init__")
        if pi is None or pi.kind != "func":
            continue
        bad = []
        for c in ast.walk(pi.node):
            if isinstance(c, ast.Call) and ast.unparse(c) in ("hash(self)",):
                bad.append("hash(self)")
            if isinstance(c, ast.Compare) and any(
                    ast.unparse(x) == "self" for x in [c.left] + c.comparators) \
                    and any(isinstance(o, (ast.Eq, ast.NotEq)) for o in c.ops):
                bad.append("self == ...")
            if isinstance(c, ast.Attribute) and c.attr == "_hash_value":
                bad.append("_hash_value")
        ctx.ob(f"P/post_init/{n.name}/before-hash", not bad, n.cls.loc(pi.node),
               "normalisation neither hashes nor compares the node" if not bad
               else f"{n.name}.__post_init__ uses {bad}: a hash is cached before "
               "the fields have their final values")
        # writes only own declared fields
        for c in ast.walk(pi.node):
            if isinstance(c, ast.Call) and ast.unparse(c.func) == \
                    "object.__setattr__" and len(c.args) == 3:
                tgt = c.args[1]
                name = tgt.value if isinstance(tgt, ast.Constant) else None
                ok = ast.unparse(c.args[0]) == "self" and name in n.field_names
                ctx.ob(f"O/post_init/{n.name}/writes-own-field:{name}", ok,
                       n.cls.loc(c),
                       f"normalises its own field '{name}'" if ok else
                       f"{n.name}.__post_init__ writes '{name}', which is not one "
                       f"of its declared fields {n.field_names}")
    _unhashable_fields_normalised(ctx, model, nodes)


IMMUTABLE_CTORS = {"immutabledict", "tuple", "frozenset", "frozendict", "Map"}


def _unhashable_fields_normalised(ctx, model, nodes):
    """a declared field whose annotation admits an unhashable container (a
    mapping) is part of the generated hash: on every path out of __post_init__
    the field has either answered hash() without raising, is known to be of an
    immutable class, or has been replaced by an immutable copy"""
    from ..cfg import paths
    from ..model import CHILD_MAP
    n_f = 0
    for n in nodes:
        for f, kind, ann in n.fields:
            head = ann.replace(" ", "").split("[")[0].split(".")[-1]
            if kind != CHILD_MAP and head not in (
                    "Mapping", "dict", "list", "set", "Dict", "List", "Set",
                    "MutableMapping"):
                continue
            n_f += 1
            rid = f"P/post_init/{n.name}/unhashable-field-normalised:{f}"
            pi = model.lookup(n.cls, "__post_init__")
            if pi is None or pi.kind != "func":
                ctx.ob(rid, False, n.cls.loc(),
                       f"{n.name}.{f} is declared {ann} and nothing makes an "
                       "unhashable value passed for it hashable: hash(node) raises")
                continue
            me = pi.node.args.args[0].arg
            SELF = ("param", me)
            FV = ("attr", SELF, f)
            bad = None
            for ps in summarize(pi.node, plain=True, loop_mode="01"):
                if ps.term == "raise":
                    continue
                okp = False
                for e in ps.events:
                    if e.kind != "call":
                        continue
                    if e.name == "hash" and e.args == (FV,):
                        okp = True          # probed (the path went on)
                    if e.name in ("object.__setattr__", "setattr") and \
                            len(e.args) == 3 and e.args[0] == SELF and \
                            e.args[1] == ("const", f):
                        # (the abstract value sees through copies: read the
                        # constructor off the syntax, following a local)
                        va = e.node.args[2]
                        if isinstance(va, ast.Name):
                            last = None
                            for it_ in ps.items:
                                if it_[0] == "stmt" and isinstance(
                                        it_[1], ast.Assign) and any(
                                        isinstance(t, ast.Name) and t.id == va.id
                                        for t in it_[1].targets):
                                    last = it_[1].value
                            va = last if last is not None else va
                        if isinstance(va, ast.Call) and ast.unparse(
                                va.func).split(".")[-1] in IMMUTABLE_CTORS:
                            okp = True
                        else:
                            raise AnalysisError(
                                f"{n.name}.__post_init__ stores "
                                f"{ast.unparse(va)} into {f}: not a constructor "
                                "the rule knows as immutable")
                from ..summary import facts_of
                for _, pol0, v0 in ps.conds:
                    if not isinstance(v0, tuple):
                        continue
                    for v, pol in facts_of(v0, pol0):
                        if pol and isinstance(v, tuple) and v and v[0] == "call" \
                                and v[1] == "isinstance" and v[2][0] == FV:
                            names = str(v[2][1])
                            # (not collections.abc.Hashable: it asks
                            # whether the class *defines* __hash__, which a
                            # mappingproxy or a tuple holding a list does)
                            if any(c in names for c in IMMUTABLE_CTORS) and \
                                    "dict'" not in names.replace(
                                        "immutabledict", ""):
                                okp = True
                if not okp:
                    bad = ps
                    break
            ctx.ob(rid, bad is None, n.cls.loc(pi.node),
                   f"every path out of {n.name}.__post_init__ leaves {f} hashable "
                   "(probed with hash(), of an immutable class, or replaced by an "
                   "immutable copy)" if bad is None else
                   f"{n.name}.__post_init__ has a path on which {f} (declared "
                   f"{ann}) is neither probed with hash() nor replaced by an "
                   "immutable copy: an unhashable mapping that is not caught by "
                   "the test on that path (types.MappingProxyType, a user Mapping "
                   "class) stays in the field, and hash(node) / node == other raise")
    ctx.floor("container-valued fields", n_f, 1)


def _own_eq_hash_agree(ctx, n, c):
    """a node class with hand-written __eq__ and __hash__: what the hash mixes
    in, equality must require -- every attribute hashed is compared, and when
    the hash depends on the class, two objects of different classes (a
    subclass instance and a base instance) are unequal"""
    from ..summary import facts_of
    eq, hs = c.members["__eq__"], c.members["__hash__"]
    if eq.kind != "func" or hs.kind != "func" or len(eq.node.args.args) != 2:
        raise AnalysisError(f"{n.name}: __eq__/__hash__ not plain methods")
    S = ("param", eq.node.args.args[0].arg)
    O = ("param", eq.node.args.args[1].arg)
    HS = ("param", hs.node.args.args[0].arg)
    hashed = set()
    class_in_hash = False
    for ps in summarize(hs.node, plain=True):
        if ps.term != "return":
            continue

        def note(t):
            nonlocal class_in_hash
            if t[0] == "attr" and t[1] == HS:
                hashed.add(t[2])
            if t == ("typeof", HS):
                class_in_hash = True
            return False
        contains(ps.retval, note)
    bad_class = []
    bad_attrs = []
    n_true = 0
    for ps in summarize(eq.node, plain=True):
        if ps.term != "return" or ps.retval == ("const", False):
            continue
        facts = [f for _, pol0, v0 in ps.conds if isinstance(v0, tuple)
                 for f in facts_of(v0, pol0)]
        facts += list(facts_of(ps.retval, True)) if isinstance(
            ps.retval, tuple) else []
        # paths on which `other` is not an instance of the class at all (a
        # plain number converted for the comparison) are not about two nodes
        if any(v[0] == "call" and v[1] == "isinstance" and v[2][0] == O
               and not pol for v, pol in facts):
            continue
        n_true += 1
        same_class = any(
            v[0] == "compare" and len(v[1]) == 1 and
            {v[2], v[3][0]} == {("typeof", O), ("typeof", S)} and
            ((v[1][0] == "Is" and pol) or (v[1][0] == "IsNot" and not pol))
            for v, pol in facts)
        if class_in_hash and not same_class:
            bad_class.append(ps)
        compared = {v[2][2] for v, pol in facts
                    if pol and v[0] == "compare" and v[1] == ("Eq",)
                    and v[2][0] == "attr" and v[2][1] == S
                    and v[3][0] == ("attr", O, v[2][2])}
        if not hashed <= compared:
            bad_attrs.append(sorted(hashed - compared))
    if n_true == 0:
        raise AnalysisError(f"{n.name}.__eq__: no path that can return True")
    ctx.ob(f"S/legacy/{n.name}/eq-requires-hashed-class", not bad_class, c.loc(),
           "the hash depends on the class and equality requires the same class"
           if class_in_hash and not bad_class else
           ("the hash does not depend on the class" if not class_in_hash else
            f"{n.name}.__hash__ mixes in type(self) but __eq__ accepts any "
            f"instance of {n.name}: an instance of a subclass compares equal "
            "to a base instance with the same fields although their hashes "
            "differ (and the two are not of the same node class)"))
    ctx.ob(f"S/legacy/{n.name}/eq-compares-hashed-attributes", not bad_attrs,
           c.loc(),
           f"every hashed attribute {sorted(hashed)} is compared" if not bad_attrs
           else f"{n.name}.__hash__ uses {bad_attrs[0]} which __eq__ does not "
           "compare: equal objects can have different hashes")


def _always_raises(mem, names=None) -> bool:
    """the guard raises on every path -- for every attribute name in *names*
    when given (decided by concretising the name parameter), else for any"""
    if mem.kind != "func":
        return False
    if names and len(mem.node.args.args) >= 2:
        p = mem.node.args.args[1].arg
        return all(ps.term == "raise" for nm in names
                   for ps in summarize(mem.node, plain=True,
                                       assume={p: ("const", nm)}))
    return all(ps.term == "raise" for ps in summarize(mem.node, plain=True))


def _frozen(ctx, model):
    m, fn = model.func(f"{PRIM}:expr_dataclass")
    loc = m.loc(fn)
    call = None
    for c in ast.walk(fn):
        if isinstance(c, ast.Call) and isinstance(c.func, ast.Name) \
                and c.func.id == "dataclass":
            call = c
    if call is None:
        raise AnalysisError("expr_dataclass: dataclass(...) call not found")
    kws = {k.arg: ast.unparse(k.value) for k in call.keywords}
    ok = kws.get("frozen") in ("__debug__", "True")
    ctx.ob("T/expr_dataclass/frozen", ok, loc,
           f"dataclass(frozen={kws.get('frozen')})" if ok else
           f"expr_dataclass creates the dataclass with frozen="
           f"{kws.get('frozen')}: fields can be rebound after construction")
    ok = kws.get("eq") == "False"
    ctx.ob("T/expr_dataclass/eq-false", ok, loc,
           "dataclass(eq=False): equality comes from the template" if ok else
           "expr_dataclass lets dataclass generate __eq__ (and set __hash__), "
           "which the template then fights with")
    # the augmentation is applied to the created class with the hash flag
    # (def-use: the value dataclass(...)(cls) produced is what is augmented and
    # returned; the decorator's hash parameter is handed on)
    made = set()
    for st in ast.walk(fn):
        if isinstance(st, ast.Assign) and len(st.targets) == 1 and isinstance(
                st.targets[0], ast.Name) and any(c is call for c in
                                                 ast.walk(st.value)):
            made.add(st.targets[0].id)
    hash_param = "hash" if any(a.arg == "hash" for a in
                               fn.args.args + fn.args.kwonlyargs) else None
    ok = False
    for c in ast.walk(fn):
        if isinstance(c, ast.Call) and ast.unparse(c.func) == \
                "_augment_expression_dataclass":
            first = c.args[0] if c.args else next(
                (k.value for k in c.keywords if k.arg == "cls"), None)
            hv = c.args[1] if len(c.args) > 1 else next(
                (k.value for k in c.keywords if k.arg == "hash"), None)
            aug_direct = first is not None and any(cc is call
                                                   for cc in ast.walk(first))
            ok = first is not None and (
                aug_direct or (isinstance(first, ast.Name) and first.id in made)
            ) and isinstance(hv, ast.Name) and hv.id == hash_param
    ctx.ob("T/expr_dataclass/augmented", ok, loc,
           "the created dataclass is augmented" if ok else
           "expr_dataclass does not pass the created class (and the hash flag) "
           "to _augment_expression_dataclass")
    # no mutable defaults among field declarations
    for n in model.nodes.all():
        if not n.decorated:
            continue
        for st in n.cls.node.body:
            if isinstance(st, ast.AnnAssign) and st.value is not None and \
                    "ClassVar" not in ast.unparse(st.annotation):
                bad = isinstance(st.value, (ast.List, ast.Dict, ast.Set)) or (
                    isinstance(st.value, ast.Call)
                    and ast.unparse(st.value.func) in ("list", "dict", "set"))
                ctx.ob(f"T/fields/{n.name}.{st.target.id}/immutable-default",
                       not bad, n.cls.loc(st),
                       "default is immutable" if not bad else
                       f"{n.name}.{st.target.id} has a mutable default")


ALLOWED_SETATTR_FUNCS = {
    # (module, function qualname) -> reason
    (PRIM, "Expression.__setstate__"): "legacy unpickling",
    (PRIM, "CallWithKwargs.__post_init__"): "normalises kw_parameters",
    (PRIM, "Comparison.__post_init__"): "normalises operator names",
    (PRIM, "CommonSubexpression.__post_init__"): "normalises scope",
    ("pymbolic.interop.matchpy", "_Constant.__init__"): "frozen matchpy op "
    "dataclass initialising itself (not an Expression)",
}


def _who_may_write(ctx, model):
    nt = model.nodes
    node_keys = set(nt.table)
    mapper_base = model.cls("pymbolic.mapper:Mapper")
    n_sites = 0
    # 1. every object.__setattr__ / setattr / __dict__ write in the package
    for m in model.repo.modules.values():
        for cls_or_fn in ast.walk(m.tree):
            pass
        for c in model.classes.values():
            if c.module is not m:
                continue
            for name, mem in c.members.items():
                if mem.kind != "func":
                    continue
                for call in ast.walk(mem.node):
                    if isinstance(call, ast.Call) and ast.unparse(call.func) in (
                            "object.__setattr__", "setattr", "object.__delattr__",
                            "delattr"):
                        n_sites += 1
                        q = (m.name, f"{c.name}.{name}")
                        is_node = c.key in node_keys or c.name == "Expression"
                        tgt = ast.unparse(call.args[0]) if call.args else "?"
                        own_post_init = (
                            name == "__post_init__" and tgt == "self"
                            and c.key in node_keys and nt.table[c.key].decorated)
                        # the hash cache is not a field: writing it (on self)
                        # changes neither equality class nor hash
                        cache_only = (
                            tgt == "self" and len(call.args) >= 2 and isinstance(
                                call.args[1], ast.Constant)
                            and call.args[1].value == "_hash_value"
                            and ast.unparse(call.func) in ("object.__setattr__",
                                                           "setattr"))
                        # a legacy node class initialising itself past its
                        # own raising __setattr__
                        own_init = (
                            name == "__init__" and tgt == "self" and is_node
                            and c.key in node_keys
                            and not nt.table[c.key].decorated
                            and ast.unparse(call.func) == "object.__setattr__")
                        # the delegating arm of a guard: which names it
                        # lets through is judged by the census rule
                        own_guard = (
                            name in ("__setattr__", "__delattr__")
                            and tgt == "self" and is_node)
                        ok = q in ALLOWED_SETATTR_FUNCS or own_post_init or \
                            cache_only or own_init or own_guard or (
                                not is_node and tgt == "self"
                                and (not model.is_subclass(c, mapper_base)
                                     # a mapper's constructor setting up the
                                     # mapper's own options
                                     or name == "__init__"))
                        ctx.ob(f"O/setattr/{c.name}.{name}:{tgt}", ok,
                               m.loc(call),
                               f"allowed: {ALLOWED_SETATTR_FUNCS.get(q, 'own state of a non-node object')}"
                               if ok else
                               f"{c.name}.{name} rebinds an attribute of '{tgt}' "
                               "through setattr: expression nodes are immutable "
                               "after construction")
    # module-level functions
    for key, (m, fn) in model.functions.items():
        for call in ast.walk(fn):
            if isinstance(call, ast.Call) and ast.unparse(call.func) in (
                    "object.__setattr__", "setattr"):
                n_sites += 1
                tgt = ast.unparse(call.args[0]) if call.args else "?"
                # the template itself is analysed separately
                ok = fn.name == "_augment_expression_dataclass"
                ctx.ob(f"O/setattr/{fn.name}:{tgt}", ok, m.loc(call),
                       "template" if ok else
                       f"function {fn.name} rebinds an attribute of '{tgt}' "
                       "through setattr")
    # 2. mapper handlers never assign to attributes of the node they get
    n_handlers = 0
    for c in model.classes.values():
        if not model.is_subclass(c, mapper_base):
            continue
        for name, mem in c.members.items():
            if mem.kind != "func" or not name.startswith("map_"):
                continue
            sig = signature(mem.node)
            if sig.node_name is None:
                continue
            n_handlers += 1
            for a in ast.walk(mem.node):
                bad = None
                if isinstance(a, ast.Attribute) and isinstance(a.ctx, (
                        ast.Store, ast.Del)) and isinstance(a.value, ast.Name) \
                        and a.value.id == sig.node_name:
                    bad = f"{sig.node_name}.{a.attr} = ..."
                if isinstance(a, ast.Subscript) and isinstance(a.ctx, ast.Store) \
                        and ast.unparse(a.value) == f"{sig.node_name}.__dict__":
                    bad = f"{sig.node_name}.__dict__[...] = ..."
                if bad:
                    ctx.ob(f"O/handler-writes-node/{c.name}.{name}", False,
                           c.module.loc(a),
                           f"mapper handler {c.name}.{name} executes '{bad}': a "
                           "mapper must not modify the node it is given")
    ctx.ob("O/handler-writes-node/enumerated", n_handlers >= 300,
           "pymbolic/mapper", f"{n_handlers} mapper handlers enumerated, none "
           "assigns to an attribute of its node",
           {"handlers": n_handlers, "setattr_sites": n_sites})
    ctx.floor("mapper handlers enumerated", n_handlers, 300)
    # positive control: the rule must match the known allowed writers
    ctx.floor("setattr sites found (positive control)", n_sites, 5)
    # 3. node class methods (other than the allowed plumbing) do not assign
    # self attributes on decorated classes
    for n in nt.all():
        if not n.decorated:
            continue
        for name, mem in n.cls.members.items():
            if mem.kind != "func":
                continue
            for a in ast.walk(mem.node):
                if isinstance(a, ast.Attribute) and isinstance(a.ctx, (
                        ast.Store, ast.Del)) and isinstance(a.value, ast.Name) \
                        and a.value.id == "self":
                    ctx.ob(f"O/node-method-writes-self/{n.name}.{name}", False,
                           n.cls.loc(a),
                           f"{n.name}.{name} assigns self.{a.attr} on a frozen "
                           "node class")
