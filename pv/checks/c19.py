"""C19 -- exact-arithmetic helpers (anchored structural clauses only)."""
from __future__ import annotations

import ast

from .. import AnalysisError
from ..model import resolve_handler
from ..rules import (check_combine_handler, check_identity_handler,
                     check_walk_handler, handler_summaries, where)
from ..summary import NODE, contains, summarize

ALG = "pymbolic.algorithm"
PRIM = "pymbolic.primitives"
M = "pymbolic.mapper"


def run(ctx):
    model = ctx.model
    ctx.decide("integer_power refuses negative exponents before its loop")
    ctx.decide("a mapper that rewrites polynomial coefficients gets all of them "
               "back: the identity traversal recurses on base and every "
               "coefficient, passes all results to the constructor (no iterator "
               "consumed twice) and its unchanged-test compares every "
               "coefficient; combine/walk traversals cover base and coefficients")
    ctx.decide("quotient(): the exact Rational node is built only under the "
               "Euclidean-ring test, otherwise the Quotient node, operands in "
               "order; the legacy exact nodes are hashable; evaluating a Rational "
               "divides numerator by denominator")
    ctx.decide("ifft/sym_fft pass every option they accept on to fft")
    ctx.decide("operators of the exact number types that are defined through "
               "other operators (__sub__, __rsub__, __radd__ as sums of negated "
               "operands) combine self and other with the right signs; "
               "polynomial long division leaves its loop only with a remainder "
               "of smaller degree than the divisor")
    ctx.decide("integer_power, extended_euclidean and the Horner evaluation of "
               "Polynomial nodes, interpreted abstractly over polynomial normal "
               "forms: x**n for every n (loop invariant), Bezout's identity for "
               "every input (loop invariant), Horner value on enumerated "
               "exponent shapes; no augmented assignment on caller-owned "
               "arguments")
    ctx.decide("Polynomial's operators (-p, p**k, p*s, s*p, p+q, p-q, p*q, "
               "divmod) interpreted on abstract instances with symbolic field "
               "coefficients and enumerated exponent shapes: value of the result "
               "== the operation on the values; results stay normalised")
    ctx.decide("fft/ifft interpreted on vectors of symbols with a symbolic root "
               "of unity: equal to the transform's definition for every length "
               "up to 12 (32 in the thorough tier), both signs")
    ctx.decide("g is a *greatest* common divisor (each round is a unimodular "
               "change of the pair, the loop ends with r == 0, g is the last "
               "remainder up to a unit); lcm is |q*r| // gcd")
    ctx.decline("Polynomial arithmetic across "
                "different bases and over coefficient rings that are not fields "
                "(see the known finding on __divmod__)")
    ctx.assume("traits.common_traits classifies operand types as documented")

    _integer_power(ctx, model)
    _fft_buffers(ctx, model)
    _kernels(ctx, model)
    _partial_at_zero(ctx, model)
    _polynomial_traversals(ctx, model)
    _quotient(ctx, model)
    _legacy_hashable(ctx, model)
    _evaluate_rational(ctx, model)
    _fft_wrappers(ctx, model)
    _truthiness(ctx, model)
    _sort_uniq(ctx, model)
    _exact_unit_division(ctx, model)
    _derived_operators(ctx, model)
    _division_loop(ctx, model)


def _truthiness(ctx, model):
    """`while r:` in extended_euclidean and `if not newcoeff` in the polynomial
    code rely on the truth value of ring elements being 'is non-zero'.  Python 3
    consults __bool__ (then __len__); a class that only defines the Python 2
    name __nonzero__ is always true, so the Euclidean loop never sees a zero
    remainder."""
    n = 0
    for c in model.classes.values():
        if not c.module.name.startswith("pymbolic"):
            continue
        own = c.members
        if "__nonzero__" in own:
            n += 1
            ok = "__bool__" in own or any(
                "__bool__" in b.members for b in model.mro(c)[1:]
                if not isinstance(b, str))
            ctx.ob(f"S/truthiness/{c.name}", ok, c.loc(),
                   "__bool__ is defined along with __nonzero__" if ok else
                   f"{c.name} defines __nonzero__ but not __bool__: under Python 3 "
                   "every instance is true, so 'while r:' in extended_euclidean "
                   "never terminates normally on a zero remainder (it ends in "
                   "ZeroDivisionError) and zero tests on such values never fire")
    ctx.floor("classes with __nonzero__", n, 2)


def _sort_uniq(ctx, model):
    """polynomial._sort_uniq merges terms of equal exponent while walking the
    sorted list; its invariant is: whenever the remembered exponent equals the
    current one, the last entry of the result has that exponent.  Every path
    through the loop body must re-establish it (path rule)."""
    m, fn = model.func("pymbolic.polynomial:_sort_uniq")
    loc = m.loc(fn)
    loops = [lp for lp in ast.walk(fn) if isinstance(lp, ast.For)]
    if len(loops) != 1:
        raise AnalysisError("_sort_uniq: merge loop not found")
    lp = loops[0]
    # the remembered key: the name compared with the loop's exponent variable
    if not (isinstance(lp.target, ast.Tuple) and isinstance(lp.target.elts[0],
                                                            ast.Name)):
        raise AnalysisError("_sort_uniq: loop target not (exp, coeff)")
    expv = lp.target.elts[0].id
    key = None
    for c in ast.walk(lp):
        if isinstance(c, ast.Compare) and len(c.ops) == 1 and isinstance(
                c.ops[0], ast.Eq):
            names = [x.id for x in (c.left, c.comparators[0])
                     if isinstance(x, ast.Name)]
            if expv in names and len(names) == 2:
                key = [x for x in names if x != expv][0]
    if key is None:
        raise AnalysisError("_sort_uniq: remembered exponent not found")
    from ..cfg import paths
    n_pop = 0
    ok = True
    for path in paths(fn, "1", body=lp.body):
        popped_at = None
        reset_after = False
        for i, it in enumerate(path):
            if it[0] != "stmt":
                continue
            st = it[1]
            if isinstance(st, ast.Expr) and isinstance(st.value, ast.Call) and \
                    isinstance(st.value.func, ast.Attribute) and \
                    st.value.func.attr == "pop":
                popped_at = i
            if popped_at is not None and isinstance(st, ast.Assign) and any(
                    isinstance(t, ast.Name) and t.id == key for t in st.targets):
                v = st.value
                # anything that cannot equal the next exponent: None / a sentinel
                if isinstance(v, ast.Constant) and v.value is None:
                    reset_after = True
        if popped_at is not None:
            n_pop += 1
            ok = ok and reset_after
    ctx.ob("P/_sort_uniq/cancelled-term-forgets-exponent", ok and n_pop >= 1, loc,
           "after a cancelled term is removed its exponent is forgotten" if ok
           and n_pop else
           f"when two terms of equal exponent cancel, the entry is popped but "
           f"'{key}' still holds that exponent: a third term of the same exponent "
           "is then added onto the *previous* exponent's coefficient "
           "((x^2 - x + 1)(x^2 + x + 1) comes out as x^4 + 2x^2)")


def _exact_unit_division(ctx, model):
    """Rational.__init__ normalises the sign by dividing numerator and
    denominator by the denominator's unit; for the integers quotient() passes
    in, true division turns them into floats, which are inexact beyond 2**53"""
    rc = model.cls("pymbolic.rational:Rational")
    init = rc.members.get("__init__")
    if init is None or init.kind != "func":
        raise AnalysisError("Rational.__init__ not found")
    params = {a.arg for a in init.node.args.args[1:]}
    bad = []
    for n_ in ast.walk(init.node):
        if isinstance(n_, ast.AugAssign) and isinstance(n_.op, ast.Div) and \
                isinstance(n_.target, ast.Name) and n_.target.id in params:
            bad.append(ast.unparse(n_))
        if isinstance(n_, ast.BinOp) and isinstance(n_.op, ast.Div) and any(
                isinstance(x, ast.Name) and x.id in params
                for x in (n_.left, n_.right)):
            bad.append(ast.unparse(n_))
    ctx.ob("P/Rational.__init__/exact-unit-division", not bad, rc.loc(init.node),
           "numerator and denominator are normalised without true division"
           if not bad else
           f"Rational.__init__ applies true division to its arguments ({bad}): "
           "quotient(7, 3) holds the floats 7.0 and 3.0, and "
           "quotient(10**20 + 1, 3) evaluates to 3.333...e19 instead of the "
           "exact quotient")


def _fft_wrappers(ctx, model):
    """ifft and sym_fft are thin wrappers around fft: every option they accept
    must reach the fft call (an accepted-but-unused option silently selects the
    wrong transform), and ifft fixes sign=-1"""
    for wname in ("ifft", "sym_fft"):
        m, fn = model.func(f"{ALG}:{wname}")
        params = [a.arg for a in fn.args.args + fn.args.kwonlyargs]
        calls = [c for c in ast.walk(fn) if isinstance(c, ast.Call)
                 and isinstance(c.func, ast.Name) and c.func.id == "fft"]
        if len(calls) != 1:
            raise AnalysisError(f"{wname}: expected exactly one call to fft")
        call = calls[0]
        passed = set()
        for a in list(call.args) + [k.value for k in call.keywords]:
            for nm in ast.walk(a):
                if isinstance(nm, ast.Name):
                    passed.add(nm.id)
        # parameters used to *define* a value that is passed also count
        local_defs = {}
        for st in ast.walk(fn):
            if isinstance(st, ast.FunctionDef) and st is not fn:
                local_defs[st.name] = {x.id for x in ast.walk(st)
                                       if isinstance(x, ast.Name)}
        for nm in list(passed):
            passed |= local_defs.get(nm, set())
        missing = [p_ for p_ in params if p_ not in passed]
        ctx.ob(f"P/{wname}/options-reach-fft", not missing, m.loc(fn),
               f"{wname} passes {params} on to fft" if not missing else
               f"{wname} accepts the option(s) {missing} but never passes them to "
               "fft: the caller's choice is silently ignored")
        if wname == "ifft":
            kw = {k.arg: ast.unparse(k.value) for k in call.keywords}
            ok = kw.get("sign") == "-1" or (len(call.args) > 1 and ast.unparse(
                call.args[1]) == "-1")
            ctx.ob("P/ifft/sign", ok, m.loc(fn),
                   "ifft is fft with sign=-1" if ok else
                   "ifft does not call fft with sign=-1")


# call sites where the argument of a function that has no answer for 0 cannot
# be 0, with the reason (read in the code, frozen here)
NONZERO_BY_CONSTRUCTION = {
    ("pymbolic.rational", "__init__", "denominator"):
        "a zero denominator is no rational: refusing it is the answer",
    ("pymbolic.polynomial", "get_unit", "lc"):
        "the leading coefficient of a polynomial is non-zero by construction "
        "(P/polynomial/no-zero-coefficients)",
}


def _fft_buffers(ctx, model):
    """The transform of real (or integer) data is complex.  A result buffer
    the FFT allocates "like" its input -- numpy's *_like(x) without a dtype,
    empty(..., dtype=x.dtype) -- has the input's element type, and assigning
    the computed blocks into it drops their imaginary parts (numpy warns, it
    does not raise)."""
    m, fn = model.func(f"{ALG}:fft")
    x = fn.args.args[0].arg
    n_alloc = 0
    for c in ast.walk(fn):
        if not (isinstance(c, ast.Call) and isinstance(c.func, ast.Attribute)):
            continue
        nm = c.func.attr
        if nm in ("empty_like", "zeros_like", "ones_like", "full_like") and \
                c.args and isinstance(c.args[0], ast.Name) and c.args[0].id == x:
            n_alloc += 1
            typed = any(k.arg == "dtype" and f"{x}.dtype" not in
                        ast.unparse(k.value) for k in c.keywords)
            ctx.ob(f"P/fft/result-buffer-like-input:{nm}", typed, m.loc(c),
                   "buffer allocated with an element type of its own" if typed
                   else f"fft allocates its result with {ast.unparse(c)}: the "
                   "buffer has the element type of the input, so the transform "
                   "of a real or integer vector loses its imaginary parts "
                   "(fft([1., 2., 3.]) comes back real)")
        elif nm in ("empty", "zeros") and any(
                k.arg == "dtype" and ast.unparse(k.value) == f"{x}.dtype"
                for k in c.keywords):
            n_alloc += 1
            ctx.ob(f"P/fft/result-buffer-like-input:{nm}", False, m.loc(c),
                   f"fft allocates its result with {ast.unparse(c)}: the input's "
                   "element type cannot hold the transform of real data")
    ctx.ob("P/fft/result-buffers", True, m.loc(fn),
           f"{n_alloc} buffer allocations in fft looked at")


def _partial_at_zero(ctx, model):
    """Functions of the traits layer that have no answer for 0 (every way
    through them for an argument that is neither < 0 nor > 0 raises) are
    applied only to values the path has tested for being non-zero.  The gcd of
    0 and 0 is 0: a routine that normalises its result with such a function
    raises for that pair where it has to answer."""
    from .. import cfg
    partial = {}
    for mname in ("pymbolic.traits",):
        m = model.repo.module(mname)
        for fn in ast.walk(m.tree):
            if not isinstance(fn, ast.FunctionDef) or len(fn.args.args) != 1:
                continue
            x = fn.args.args[0].arg
            for path in cfg.paths(fn):
                if not path or path[-1][0] != "raise":
                    continue
                conds = [(it[1], it[2]) for it in path if it[0] == "cond"]

                def says_zero(t, pol):
                    if isinstance(t, ast.Compare) and len(t.ops) == 1 and \
                            isinstance(t.left, ast.Name) and t.left.id == x and \
                            isinstance(t.comparators[0], ast.Constant) and \
                            t.comparators[0].value == 0:
                        op = t.ops[0]
                        return (isinstance(op, (ast.Lt, ast.Gt, ast.NotEq))
                                and not pol) or (isinstance(op, ast.Eq) and pol)
                    if isinstance(t, ast.Name) and t.id == x:
                        return not pol
                    if isinstance(t, ast.UnaryOp) and isinstance(t.op, ast.Not) \
                            and isinstance(t.operand, ast.Name) and \
                            t.operand.id == x:
                        return pol
                    return False
                if conds and all(says_zero(t, p_) for t, p_ in conds):
                    partial[fn.name] = m.loc(fn)
    if "get_unit" not in partial:
        raise AnalysisError("traits: no function without an answer for 0 found "
                            "(IntegerTraits.get_unit used to be one)")
    n_sites = 0
    for mname in ("pymbolic.algorithm", "pymbolic.polynomial",
                  "pymbolic.rational"):
        m = model.repo.module(mname)
        for fn in ast.walk(m.tree):
            if not isinstance(fn, ast.FunctionDef):
                continue
            for path in cfg.paths(fn, loop_mode="01"):
                tested = set()
                for it in path:
                    if it[0] == "cond":
                        t, pol = it[1], it[2]
                        if isinstance(t, ast.Name) and pol:
                            tested.add(t.id)
                        if isinstance(t, ast.UnaryOp) and isinstance(
                                t.op, ast.Not) and isinstance(
                                t.operand, ast.Name) and not pol:
                            tested.add(t.operand.id)
                        continue
                    node = it[1] if len(it) > 1 else None
                    if not isinstance(node, ast.AST):
                        continue
                    if it[0] in ("stmt", "return") and isinstance(
                            node, (ast.Assign, ast.AugAssign)):
                        for tg in (node.targets if isinstance(node, ast.Assign)
                                   else [node.target]):
                            for nm in ast.walk(tg):
                                if isinstance(nm, ast.Name):
                                    tested.discard(nm.id)
                    for c in ast.walk(node):
                        if not (isinstance(c, ast.Call) and isinstance(
                                c.func, ast.Attribute) and c.func.attr in partial
                                and len(c.args) == 1):
                            continue
                        a = c.args[0]
                        arg = a.id if isinstance(a, ast.Name) else ast.unparse(a)
                        key = (mname, fn.name, arg)
                        n_sites += 1
                        if arg in tested or key in NONZERO_BY_CONSTRUCTION:
                            continue
                        ctx.ob(f"P/partial-at-zero/{fn.name}:{c.func.attr}({arg})",
                               False, m.loc(c),
                               f"{fn.name} applies {c.func.attr}, which has no "
                               f"answer for 0 ({partial[c.func.attr]} raises), to "
                               f"'{arg}' on a path that has not tested it: "
                               f"{fn.name} raises where '{arg}' is 0 (the gcd of "
                               "0 and 0 is 0, and lcm(0, 0) relies on it)")
    ctx.floor("calls of functions without an answer for 0", n_sites, 2)
    ctx.ob("P/partial-at-zero", True, "pymbolic/traits.py",
           f"{sorted(partial)} have no answer for 0; {n_sites} call paths looked "
           "at: the argument is tested non-zero or non-zero by construction "
           f"({len(NONZERO_BY_CONSTRUCTION)} frozen sites)")


def _integer_power(ctx, model):
    m, fn = model.func(f"{ALG}:integer_power")
    loc = m.loc(fn)
    pss = summarize(fn, plain=True, loop_mode="01")
    saw_raise = False
    ok = True
    N = ("param", fn.args.args[1].arg)
    CONV = ("index", "operator.index", "int", "operator.__index__")

    def is_n(v):
        """the exponent, possibly passed through an integer conversion"""
        return v == N or (isinstance(v, tuple) and v[0] == "call"
                          and v[1] in CONV and v[2] == (N,))
    loop_tests = {id(w.test) for w in ast.walk(fn) if isinstance(w, ast.While)}
    if not loop_tests:
        raise AnalysisError("integer_power: square-and-multiply loop not found")
    for ps in pss:
        neg = None
        for _, pol, v in ps.conds:
            if isinstance(v, tuple) and v[0] == "compare" and is_n(v[2]) and \
                    len(v[1]) == 1 and v[3][0][0] == "const":
                op, k = v[1][0], v[3][0][1]
                if (op, k) in (("Lt", 0), ("LtE", -1)):
                    neg = pol
                    break
                if (op, k) in (("GtE", 0), ("Gt", -1)):
                    neg = not pol
                    break
        entered_loop = any(it[0] == "cond" and id(it[1]) in loop_tests and it[2]
                           for it in ps.items)
        if neg is True:
            if ps.term == "raise":
                saw_raise = True
            else:
                ok = False
        if ps.term == "return" and neg is not False:
            ok = False
        if entered_loop and neg is not False:
            ok = False
    ctx.ob("P/integer_power/negative-refused", ok and saw_raise, loc,
           "n < 0 raises before the square-and-multiply loop; every result path "
           "has n >= 0" if ok and saw_raise else
           "integer_power can enter its loop or return a value without having "
           "refused n < 0")


def _rational_arithmetic(ctx, model):
    """pymbolic.rational.Rational is exact arithmetic on (numerator,
    denominator) pairs of ring elements:
      * none of its operators uses true division -- '/' on two integers gives a
        float, whatever follows is no longer exact (and floats have no gcd);
      * r**n raises numerator and denominator to n, each in its own place."""
    from ..absint import Interp, Obj, Opaque, Poly, Raised
    rc = model.cls("pymbolic.rational:Rational")
    n_ops = 0
    for name, mem in sorted(rc.members.items()):
        if mem.kind != "func" or not (name.startswith("__") and name.endswith("__")):
            continue
        if name in ("__init__", "__eq__", "__hash__", "__bool__", "__setattr__",
                    "__delattr__", "__getinitargs__", "__getstate__",
                    "__setstate__", "__repr__", "__str__"):
            continue
        n_ops += 1
        divs = [b for b in ast.walk(mem.node) if isinstance(b, ast.BinOp)
                and isinstance(b.op, ast.Div)
                and any(isinstance(x, ast.Attribute) and x.attr in (
                    "Numerator", "Denominator") or isinstance(x, ast.Name)
                    for x in ast.walk(b))]
        ctx.ob(f"K/Rational.{name}/no-true-division", not divs,
               rc.module.loc(divs[0] if divs else mem.node),
               f"Rational.{name} divides exactly (//) or not at all" if not divs
               else f"Rational.{name} computes '{ast.unparse(divs[0])}' with "
               "true division: on integers that is a float, the exact "
               "numerator/denominator pair is lost (and the next gcd is asked "
               "of a float: AttributeError)")
    ctx.floor("Rational operator methods", n_ops, 6)
    # ... nor do the ring traits the operators compute with
    et = model.cls("pymbolic.traits:EuclideanRingTraits")
    for name, mem in sorted(et.members.items()):
        if mem.kind != "func":
            continue
        divs = [b for b in ast.walk(mem.node) if isinstance(b, ast.BinOp)
                and isinstance(b.op, ast.Div)]
        ctx.ob(f"K/EuclideanRingTraits.{name}/no-true-division", not divs,
               et.module.loc(divs[0] if divs else mem.node),
               f"EuclideanRingTraits.{name} divides exactly (//) or not at all"
               if not divs else
               f"EuclideanRingTraits.{name} computes '{ast.unparse(divs[0])}' "
               "with true division: ring elements become floats")
    pw = rc.members.get("__pow__")
    if pw is None or pw.kind != "func":
        raise AnalysisError("Rational.__pow__ not found")
    N, D = Poly.sym("N"), Poly.sym("D")
    bad = None
    for n in range(0, 4):
        me = Obj("Rational", {"Numerator": N, "Denominator": D})
        built = []

        def mk(it_, n_, a, k, _b=built):
            _b.append(tuple(a))
            return Obj("Rational", {"Numerator": a[0],
                                    "Denominator": a[1] if len(a) > 1 else 1})
        it = Interp(calls={"Rational": mk, "type(self)": mk},
                    attrs=lambda it_, n_, b, at: Opaque(ast.unparse(n_)),
                    resolve=lambda c, nm: None)
        try:
            got = it.call_function(pw.node, [me, n])
        except Raised:
            got = None
        ok = isinstance(got, Obj) and Poly.lift(got.fields["Numerator"]) == N ** n \
            and Poly.lift(got.fields["Denominator"]) == D ** n
        if not ok:
            bad = (n, got)
            break
    ctx.ob("P/Rational.__pow__/componentwise", bad is None,
           rc.module.loc(pw.node),
           "(N/D)**n is N**n / D**n for n = 0..3" if bad is None else
           f"Rational(N, D)**{bad[0]} gives {bad[1]!r}, not N**{bad[0]} / "
           f"D**{bad[0]}")


def _kernels(ctx, model):
    """integer_power and extended_euclidean interpreted over polynomial normal
    forms (pv/absint.py, pv/kernels.py): bounded enumeration for witnesses, a
    loop-invariant argument for all inputs"""
    from .. import kernels
    m, fn = model.func(f"{ALG}:integer_power")
    loc = m.loc(fn)
    deep = ctx.tier == "thorough"
    r = kernels.integer_power_rule(fn, max_n=64 if deep else 12)
    strength = ("for every n >= 0 (invariant acc * x**n == x0**N, n >= 0, "
                "decreasing)") if r["proved"] else \
        f"for n = 0..{r['checked_n'][-1]} (the invariant template did not fit: " \
        f"{r['why']})"
    ok = not r["witnesses"]
    ctx.ob("P/integer_power/value", ok, loc,
           f"integer_power(x, n, one) is one * x**n in the free monoid {strength}"
           if ok else
           "integer_power(x, n, one) is not x**n: " + "; ".join(
               f"n = {n} gives {got}" for n, got in r["witnesses"][:4]),
           {"proved_for_all_n": r["proved"], "checked_n": r["checked_n"]})
    ok = not r["inplace"]
    ctx.ob("T/integer_power/arguments-not-updated-in-place", ok, loc,
           "no augmented assignment acts on an object the caller passed in"
           if ok else
           "; ".join(f"line {ln}: '{src}' acts on the object passed as '{who}'"
                     for ln, src, who in r["inplace"]) +
           ": for a monoid whose elements are mutable (numpy matrices) the "
           "caller's unit element is overwritten, and the next power computed "
           "with it is wrong")
    m, fn = model.func(f"{ALG}:extended_euclidean")
    loc = m.loc(fn)
    r = kernels.euclid_rule(fn, max_rounds=5 if deep else 3)
    ok = not r["witnesses"]
    strength = ("for every input (relations q == Q[0]*q0 + Q[1]*r0 and "
                "r == R[0]*q0 + R[1]*r0 are kept by each round)") if r["proved"] \
        else f"on {r['paths']} ways through up to 3 rounds (the invariant " \
        f"template did not fit: {r['why']})"
    ctx.ob("P/extended_euclidean/bezout", ok, loc,
           f"the returned (g, a, b) satisfies g == a*q + b*r {strength}" if ok
           else "extended_euclidean returns (g, a, b) with g != a*q + b*r: " +
           r["witnesses"][-1][:400],
           {"proved_for_all_inputs": r["proved"], "paths": r["paths"]})
    ctx.floor("extended_euclidean: ways explored", r["paths"], 4)
    why = kernels.euclid_gcd_rule(fn)
    ctx.ob("P/extended_euclidean/greatest", why is None, loc,
           "each round replaces (q, r) by a unimodular combination of it "
           "(determinant +-1), the loop ends only with r == 0, and g is the last "
           "non-zero remainder up to a unit: with Bezout's identity, g is a "
           "greatest common divisor" if why is None else
           f"g need not be a greatest common divisor: {why}")
    # lcm and gcd are consistent: lcm(q, r) * gcd(q, r) == |q * r|
    lm, lfn = model.func(f"{ALG}:lcm")
    gm, gfn = model.func(f"{ALG}:gcd")
    from ..absint import Interp, Poly, Raised
    Qs, Rs, Gs = Poly.sym("q"), Poly.sym("r"), Poly.sym("g")

    def exact_div(it_, n_, op, X, Y):
        if isinstance(op, (ast.FloorDiv, ast.Div)) and len(Y.t) == 1:
            return X * (Y ** -1)
        raise AnalysisError(f"ring operation {ast.unparse(n_)}")
    it_g = Interp(calls={"extended_euclidean": lambda it_, n_, a, k: (
        Gs, Poly.sym("a"), Poly.sym("b")) if [Poly.lift(x) for x in a] in (
            [Qs, Rs], [Rs, Qs]) else (_ for _ in ()).throw(
                AnalysisError("gcd: extended_euclidean is handed other "
                              "operands")), "<binop>": exact_div})
    it_l = Interp(calls={
        "gcd": lambda it_, n_, a, k: Gs if [Poly.lift(x) for x in a] in (
            [Qs, Rs], [Rs, Qs]) else (_ for _ in ()).throw(
                AnalysisError("lcm: gcd is handed other operands")),
        "abs": lambda it_, n_, a, k: a[0],       # up to sign
        "<binop>": exact_div},
        # (a symbolic gcd is the gcd of a non-zero pair; the zero pair is
        # decided on its own below)
        decide=lambda it_, n_, v: True)
    try:
        gv = it_g.call_function(gfn, [Qs, Rs])
        lv = it_l.call_function(lfn, [Qs, Rs])
    except Raised:
        raise AnalysisError("gcd / lcm raise on symbolic operands")
    ok_g = isinstance(gv, Poly) and gv == Gs
    ok_l = isinstance(lv, Poly) and lv * Gs in (Qs * Rs, -(Qs * Rs))
    U = lambda n_: ast.unparse(n_).replace(" ", "")      # noqa: E731
    lret = [st.value for st in ast.walk(lfn) if isinstance(st, ast.Return)]
    gret = [st.value for st in ast.walk(gfn) if isinstance(st, ast.Return)]
    ctx.ob("P/lcm/consistent-with-gcd", ok_g and ok_l, lm.loc(lfn),
           "gcd is the first component of extended_euclidean; lcm(q, r) * "
           "gcd(q, r) == +-q*r (interpreted on symbols, division by the gcd "
           "exact)" if ok_g and ok_l else
           f"gcd(q, r) evaluates to {gv}, lcm(q, r) to {lv}: lcm * gcd is not "
           "q*r up to sign")
    # ... and on the zero pair (in the quantifier: "negative, zero, equal"):
    # gcd(0, 0) is 0, the only common multiple of 0 and 0 is 0
    it_z = Interp(calls={"gcd": lambda it_, n_, a, k: 0,
                         "abs": lambda it_, n_, a, k: abs(a[0])})
    try:
        zv = it_z.call_function(lfn, [0, 0])
    except Raised as r_:
        zv = f"raises {r_.exc or 'an error'} at line {r_.node.lineno}"
    ctx.ob("P/lcm/zero-pair", zv == 0 and not isinstance(zv, bool), lm.loc(lfn),
           "lcm(0, 0) is 0" if zv == 0 else
           f"lcm(0, 0) {zv if isinstance(zv, str) else 'gives ' + repr(zv)}: "
           "gcd(0, 0) is 0 and lcm divides by it (math.lcm(0, 0) is 0)")
    _rational_arithmetic(ctx, model)
    # Horner evaluation of Polynomial nodes
    ev = model.cls("pymbolic.mapper.evaluator:EvaluationMapper")
    mem = model.lookup(ev, "map_polynomial")
    if mem is None or mem.kind != "func":
        raise AnalysisError("EvaluationMapper.map_polynomial not found")
    hshapes = kernels.DEEP_EXPONENT_SHAPES if deep else kernels.EXPONENT_SHAPES
    wit = kernels.horner_numeric_rule(mem.node, shapes=hshapes,
                                      class_node=mem.owner.node)
    ctx.ob("P/EvaluationMapper.map_polynomial/value", not wit,
           mem.owner.module.loc(mem.node),
           f"evaluates to sum coeff * base**exp on {len(hshapes)}"
           " exponent shapes (dense, sparse, with and without constant term)"
           if not wit else
           "map_polynomial does not evaluate to sum coeff * base**exp: " +
           "; ".join(f"exponents {e}: {got} instead of {want}"
                     for e, got, want in wit[:3]),
           {"shapes": [list(e) for e in kernels.EXPONENT_SHAPES]})
    # FFT / inverse FFT against the transform's definition
    wit, n_fft = kernels.fft_rule(
        model, lengths=range(1, 33) if deep else range(1, 13))
    fm, ffn = model.func(f"{ALG}:fft")
    ctx.ob("P/fft/equals-the-dft-definition", not wit, fm.loc(ffn),
           f"fft(x, sign), ifft(x) and sym_fft(x, sign) (wrappers read as their "
           "child, the clean-up pass as the identity) on a vector of symbols equal "
           "sum_j x_j * z**(k*j) entry by entry, as an identity modulo "
           f"w**n == 1, for every length 1..{32 if deep else 12} (prime, "
           f"composite, power of two) and both signs ({n_fft} transforms)"
           if not wit else
           "the FFT is not the discrete Fourier transform: " + "; ".join(
               w[:240] for w in wit[:2]) +
           (f" (and {len(wit) - 2} more)" if len(wit) > 2 else ""),
           {"transforms": n_fft})
    ctx.floor("FFT transforms interpreted", n_fft, 30)
    # Polynomial's own operators
    wit, n_cases = kernels.polynomial_arith_rule(model, deep=deep)
    pc = model.cls("pymbolic.polynomial:Polynomial")
    ctx.ob("P/Polynomial/operators-homomorphic", not wit, pc.loc(),
           f"-p, p**k, p*s, s*p, p+q, p-q, p*q, divmod(p, q): the value of the "
           f"result is that operation on the values ({n_cases} operand shapes, "
           "symbolic coefficients from a field, one base), results keep "
           "strictly increasing exponents and no zero coefficients"
           if not wit else
           "Polynomial arithmetic is not homomorphic to the values: " +
           "; ".join(w[:260] for w in wit[:3]) +
           (f" (and {len(wit) - 3} more)" if len(wit) > 3 else ""),
           {"cases": n_cases})
    ctx.floor("Polynomial operator cases", n_cases, 150)


def _polynomial_traversals(ctx, model):
    n = model.nodes.get("Polynomial")
    for mkey, rule in ((f"{M}:IdentityMapper", "F"), (f"{M}:CombineMapper", "K"),
                       (f"{M}:WalkMapper", "W")):
        mapper = model.cls(mkey)
        res, chain, mem = resolve_handler(model, mapper, n)
        if mem is None or mem.kind != "func":
            raise AnalysisError(f"{mapper.name} has no polynomial handler")
        if rule == "F":
            check_identity_handler(ctx, "F", model, mapper, n, mem)
        elif rule == "K":
            check_combine_handler(ctx, "K", model, mapper, n, mem)
        else:
            check_walk_handler(ctx, "W", model, mapper, n, mem)


def _quotient(ctx, model):
    m, fn = model.func(f"{PRIM}:quotient")
    loc = m.loc(fn)
    NUM, DEN = ("param", "numerator"), ("param", "denominator")
    saw = set()
    for ps in summarize(fn, plain=True):
        if ps.term != "return":
            continue
        rv = ps.retval
        conds = [(pol, v) for _, pol, v in ps.conds if isinstance(v, tuple)]
        if rv == NUM:
            saw.add("by-one")
            ok = any((pol and v == ("unop", "Not", ("binop", "Sub", DEN,
                                                    ("const", 1))))
                     or (not pol and v == ("binop", "Sub", DEN, ("const", 1)))
                     for pol, v in conds)
            ctx.ob("P/quotient/by-one", ok, loc,
                   "x / 1 -> x" if ok else
                   "quotient() returns the numerator unchanged on a path other "
                   "than 'denominator - 1 is zero'")
        elif rv[0] == "call" and rv[1].endswith("Rational"):
            saw.add("rational")
            eucl = any(pol and v[0] == "call" and v[1] == "isinstance"
                       and "EuclideanRingTraits" in str(v[2][1])
                       for pol, v in conds)
            ok = eucl and rv[2] == (NUM, DEN)
            ctx.ob("P/quotient/rational-only-for-euclidean-rings", ok, loc,
                   "Rational(numerator, denominator) only under the "
                   "Euclidean-ring test" if ok else
                   "quotient() builds the exact Rational node without the "
                   "Euclidean-ring test, or with its operands swapped")
        elif rv[0] == "call" and rv[1] == "Quotient":
            saw.add("quotient")
            ctx.ob("P/quotient/node-operand-order", rv[2] == (NUM, DEN), loc,
                   "Quotient(numerator, denominator)" if rv[2] == (NUM, DEN) else
                   "quotient() builds Quotient with its operands swapped")
        elif rv[0] == "binop" and rv[1] == "Mult":
            saw.add("rational-rational")
            ok = rv[2] == NUM and rv[3][0] == "call" and \
                rv[3][1] == "denominator.reciprocal"
            both = sum(1 for pol, v in conds if pol and contains(
                v, lambda t: t[0] == "call" and t[1] == "isinstance"))
            ctx.ob("P/quotient/rational-by-rational", ok, loc,
                   "Rational / Rational = numerator * reciprocal(denominator)"
                   if ok else
                   "quotient() of two Rationals is not numerator * "
                   "denominator.reciprocal()")
        else:
            ctx.ob(f"P/quotient/exit:{ast.unparse(ps.items[-1][1])}", False, loc,
                   f"unexpected result {ast.unparse(ps.items[-1][1])}")
    need = {"by-one", "rational", "quotient", "rational-rational"}
    ctx.ob("P/quotient/exits", need <= saw, loc, f"exits {sorted(saw)}"
           if need <= saw else f"quotient() lacks exits {sorted(need - saw)}")
    # Rational.reciprocal swaps
    r = model.nodes.get("Rational")
    mem = r.cls.members.get("reciprocal")
    ok = False
    if mem is not None:
        from ..rules import sole_result
        sp = ("param", mem.node.args.args[0].arg)
        rv_ = sole_result(mem.node, plain=True)
        ok = rv_ is not None and rv_[0] == "call" and rv_[1] == "Rational" and \
            rv_[2] in ((("attr", sp, "Denominator"), ("attr", sp, "Numerator")),
                       (("attr", sp, "denominator"), ("attr", sp, "numerator")))
    ctx.ob("P/Rational.reciprocal", ok, r.cls.loc(),
           "reciprocal swaps numerator and denominator" if ok else
           "Rational.reciprocal does not swap numerator and denominator")


def _legacy_hashable(ctx, model):
    for name in ("Polynomial", "Rational"):
        n = model.nodes.get(name)
        own = set(n.cls.members)
        ok = not ("__eq__" in own and "__hash__" not in own)
        ctx.ob(f"S/legacy-hashable/{name}", ok, n.cls.loc(),
               f"{name} keeps a __hash__ next to its __eq__" if ok else
               f"{name} defines __eq__ without __hash__: instances are "
               "unhashable, so the default (memoizing) evaluator cannot "
               "evaluate them at all")


def _evaluate_rational(ctx, model):
    ev = model.cls("pymbolic.mapper.evaluator:EvaluationMapper")
    n = model.nodes.get("Rational")
    res, chain, mem = resolve_handler(model, ev, n)
    ok = False
    # the judge: the handler (a def, an alias, a function made in the class
    # body) interpreted on a node with numerator / denominator tokens
    try:
        from .. import evaljudge
        cases = evaljudge.cases_for("binary", "/", ("numerator", "denominator"))
        for c in cases:      # the legacy spellings of the two fields
            c.fields.update(Numerator=c.fields["numerator"],
                            Denominator=c.fields["denominator"],
                            num=c.fields["numerator"],
                            den=c.fields["denominator"])
        jwit, n_c, _w = evaljudge.judge(
            model, ev, "Rational", n.mapper_method, "binary", "/",
            ("numerator", "denominator"), cases=cases)
        ctx.ob("E0/EvaluationMapper/Rational/denotation", not jwit,
               where(mem) if mem is not None and mem.kind == "func" else ev.loc(),
               f"interpreted on {n_c} operand scenarios: numerator / "
               "denominator" if not jwit else
               "EvaluationMapper's handler for Rational: " + "; ".join(jwit[:2]))
        if not jwit:
            return
    except AnalysisError as e:
        ctx.extra["judge_unavailable:EvaluationMapper.map_rational"] = str(e)
    if mem is not None and mem.kind == "func":
        for ps in handler_summaries(model, n, mem.node):
            rv = ps.retval
            if ps.term == "return" and rv[0] == "binop" and rv[1] == "Div" and \
                    rv[2][0] == "rec" and rv[3][0] == "rec":
                from ..summary import base_field
                ok = base_field(rv[2][1]) == "Numerator" and \
                    base_field(rv[3][1]) == "Denominator"
    ctx.ob("E/EvaluationMapper/Rational", ok,
           where(mem) if mem else ev.loc(),
           f"Rational evaluates as numerator / denominator (via "
           f"{'/'.join(chain)})" if ok else
           "EvaluationMapper does not evaluate a Rational as rec(numerator) / "
           "rec(denominator)", {"chain": chain})


def _derived_operators(ctx, model):
    """`a - b`, `b - a`, `b + a` written in terms of + and unary minus: read the
    result as a linear form  s*self + o*other  and compare the signs."""
    want = {"__sub__": (1, -1), "__rsub__": (-1, 1), "__radd__": (1, 1),
            "__add__": (1, 1)}
    n_forms = 0
    for cname in ("pymbolic.polynomial:Polynomial", "pymbolic.rational:Rational"):
        c = model.cls(cname)
        for op, (ws, wo) in want.items():
            mem = c.members.get(op)
            if mem is None or mem.kind != "func" or len(mem.node.args.args) != 2:
                continue
            me, other = (("param", a.arg) for a in mem.node.args.args)

            def form(v):
                """-> (coefficient of self, coefficient of other) or None"""
                if v == me:
                    return (1, 0)
                if v == other:
                    return (0, 1)
                if not isinstance(v, tuple) or not v:
                    return None
                if v[0] == "unop" and v[1] == "USub":
                    f = form(v[2])
                    return None if f is None else (-f[0], -f[1])
                if v[0] == "binop" and v[1] in ("Add", "Sub"):
                    a, b = form(v[2]), form(v[3])
                    if a is None or b is None:
                        return None
                    k = 1 if v[1] == "Add" else -1
                    return (a[0] + k * b[0], a[1] + k * b[1])
                if v[0] == "call" and len(v) > 4 and isinstance(v[4], tuple) \
                        and v[4][0] == "recv" and not v[3]:
                    recv, meth = form(v[4][1]), v[4][2]
                    if meth == "__neg__" and not v[2] and recv is not None:
                        return (-recv[0], -recv[1])
                    if len(v[2]) == 1 and recv is not None:
                        arg = form(v[2][0])
                        if arg is None:
                            return None
                        if meth in ("__add__", "__radd__"):
                            return (recv[0] + arg[0], recv[1] + arg[1])
                        if meth == "__sub__":
                            return (recv[0] - arg[0], recv[1] - arg[1])
                        if meth == "__rsub__":
                            return (arg[0] - recv[0], arg[1] - recv[1])
                return None

            forms = []
            derived = True
            for ps in summarize(mem.node, plain=True):
                if ps.term != "return":
                    continue
                f = form(ps.retval)
                if f is None:
                    derived = False
                    break
                forms.append(f)
            if not derived or not forms:
                continue            # computed directly: numeric, not decided
            n_forms += 1
            bad = [f for f in forms if f != (ws, wo)]
            sym = {"__sub__": "self - other", "__rsub__": "other - self",
                   "__radd__": "other + self", "__add__": "self + other"}[op]
            ctx.ob(f"E/{c.name}.{op}/signs", not bad, c.loc(mem.node),
                   f"{sym} is built with the right signs" if not bad else
                   f"{c.name}.{op} should compute {sym} but returns "
                   f"({bad[0][0]:+d})*self + ({bad[0][1]:+d})*other"
                   + (": 1 - p gives p - 1, and extended_euclidean, which "
                      "computes Q - quot*R with an integer Q, returns "
                      "cofactors that do not satisfy g = a*q + b*r"
                      if op == "__rsub__" else ""))
    ctx.floor("derived operators of Polynomial/Rational", n_forms, 4)


def _division_loop(ctx, model):
    """Polynomial.__divmod__: the long-division loop runs while the remainder's
    degree is not below the divisor's; a `return` from inside that loop hands
    back a remainder that is *not* smaller than the divisor -- Euclid's loop
    (extended_euclidean) then makes no progress."""
    c = model.cls("pymbolic.polynomial:Polynomial")
    mem = c.members.get("__divmod__")
    if mem is None or mem.kind != "func":
        raise AnalysisError("Polynomial.__divmod__ not found")
    loops = [w for w in ast.walk(mem.node) if isinstance(w, ast.While)
             and sum(isinstance(a, ast.Attribute) and a.attr == "degree"
                     for a in ast.walk(w.test)) >= 2]
    if len(loops) != 1:
        raise AnalysisError("Polynomial.__divmod__: expected one division loop "
                            f"controlled by two degrees, found {len(loops)}")
    w = loops[0]
    inside = [r for st in w.body for r in ast.walk(st)
              if isinstance(r, ast.Return)]
    ctx.ob("P/Polynomial.__divmod__/remainder-below-divisor", not inside,
           c.loc(inside[0] if inside else w),
           "the division loop is left only when the remainder's degree is "
           "below the divisor's" if not inside else
           "Polynomial.__divmod__ returns from inside the division loop (when a "
           "leading coefficient does not divide exactly) with a remainder whose "
           "degree is not below the divisor's: extended_euclidean(x**2 + x - 6, "
           "x - 3) over integer coefficients alternates between (x - 3, 6) and "
           "(6, x - 3) and never returns")
