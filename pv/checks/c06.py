"""C06 -- printing an expression and parsing the text gives the expression back.

Decided by running two *table-driven models* against each other: the printer
model (templates extracted from StringifyMapper) and the parser model (table
extracted from parser.py).  Nothing of the repository is executed.
"""
from __future__ import annotations

import itertools

from .. import AnalysisError
from ..grammar import (NARY, ModelParseError, ModelParser, extract_parser_table,
                       flatten, show)
from ..printer import ModelPrinter, Unsupported, extract_printer_table

V = [("Var", n) for n in "abcdefghijklmnop"]

# printable node kinds of the property's fragment and how to build one with
# given children
KINDS = {
    "Sum": 2, "Product": 2, "Quotient": 2, "FloorDiv": 2, "Remainder": 2,
    "Power": 2, "LeftShift": 2, "RightShift": 2, "BitwiseNot": 1,
    "BitwiseOr": 2, "BitwiseXor": 2, "BitwiseAnd": 2, "Comparison": 2,
    "LogicalNot": 1, "LogicalOr": 2, "LogicalAnd": 2, "If": 3,
    "Call": 2, "CallWithKwargs": 3, "Subscript": 2, "Lookup": 1, "Slice": 2,
    "Tuple": 2,
}
POS_NAMES = {
    "Quotient": ["numerator", "denominator"],
    "FloorDiv": ["numerator", "denominator"],
    "Remainder": ["numerator", "denominator"],
    "Power": ["base", "exponent"], "LeftShift": ["shiftee", "shift"],
    "RightShift": ["shiftee", "shift"], "Comparison": ["left", "right"],
    "If": ["condition", "then", "else_"], "Call": ["function", "parameters[0]"],
    "CallWithKwargs": ["function", "parameters[0]", "kw_parameters[k]"],
    "Subscript": ["aggregate", "index"], "Lookup": ["aggregate"],
    "BitwiseNot": ["child"], "LogicalNot": ["child"],
}
LEAVES = {"Var": ("Var", "v"), "Int": ("Const", 3), "NegInt": ("Const", -1),
          "Float": ("Const", 2.5), "NegFloat": ("Const", -0.5)}


def mk(kind, kids, op="<"):
    if kind in NARY or kind in ("Slice", "Tuple"):
        return (kind, tuple(kids))
    if kind == "Comparison":
        return (kind, kids[0], op, kids[1])
    if kind == "Call":
        return (kind, kids[0], tuple(kids[1:]))
    if kind == "CallWithKwargs":
        return (kind, kids[0], (kids[1],), (("k", kids[2]),))
    if kind == "Lookup":
        return (kind, kids[0], "attr")
    return (kind,) + tuple(kids)


def posname(kind, i):
    if kind in POS_NAMES:
        return POS_NAMES[kind][i]
    return f"children[{i}]"


def fresh(vars_iter, kind, arity=None):
    n = arity or KINDS[kind]
    return mk(kind, [next(vars_iter) for _ in range(n)])


def wellformed(P, pos, C):
    """a slice is only meaningful as (part of) an index"""
    if C == "Slice":
        return (P == "Subscript" and pos == 1) or P == "Tuple"
    return True


def _check_str_entry(ctx, model):
    """str() prints through a stringifier that writes every occurrence of a
    subtree itself.  A memoizing one keys its table by (class, node, precedence)
    and nodes compare with ==, so `a[1]` and `a[1.0]`, `x**2` and `x**2.0`
    share one text: the printed form no longer parses back to the tree."""
    import ast
    cached = model.cls("pymbolic.mapper:CachedMapper")
    n = 0
    for c in model.classes.values():
        mem = c.members.get("make_stringifier")
        if mem is None or mem.kind != "func":
            continue
        for r in ast.walk(mem.node):
            if not (isinstance(r, ast.Return) and isinstance(r.value, ast.Call)):
                continue
            k = model.resolve_in_module(c.module, r.value.func)
            if k is None or not hasattr(k, "members"):
                continue
            n += 1
            bad = k is cached or model.is_subclass(k, cached)
            ctx.ob(f"O/printer/{c.name}.make_stringifier/not-memoized-by-equality",
                   not bad, c.module.loc(r),
                   f"str() of a {c.name} prints through {k.name}, a memoizing "
                   "mapper: its table is keyed by the node, and nodes that "
                   "differ only in the type of a nested constant compare equal "
                   "(a[1] and a[1.0], x**2 and x**2.0), so the second one is "
                   "printed with the first one's text and parsing it back gives "
                   "another tree" if bad else
                   f"str() prints through {k.name}, which writes every "
                   "occurrence itself")
    ctx.floor("make_stringifier definitions resolved", n, 1)


def run(ctx):
    model = ctx.model
    ctx.decide("printer precedence/forced-parenthesis table (extracted from "
               "StringifyMapper) against the parser's precedence-climbing table "
               "(extracted from parser.py) on every (parent, position, child) "
               "nesting: parse(print(t)) == t up to Sum/Product flattening; "
               "print(parse(print(t))) == print(t); operator tokens lex to the "
               "branch that builds the same node")
    ctx.decline("numeric literal formatting beyond int/float repr, whitespace")
    ctx.assume("the table-driven models are faithful: the shapes of "
               "parse_expression/parse_postfix/parse_prefix branches, "
               "parenthesize_if_needed, join_rec and rec_with_force_parens_around "
               "are recognised on every run (else ANALYSIS-ERROR)")
    ctx.assume("unary minus applied by the parser means (-1)*operand with "
               "splicing into products (decided by C03)")

    _check_str_entry(ctx, model)
    ptab = extract_parser_table(model)
    prtab = extract_printer_table(model)
    ctx.floor("parser postfix branches", len(ptab.postfix), 21)
    ctx.floor("parser prefix branches", len(ptab.prefix), 8)
    missing = [k for k in KINDS if k not in prtab.templates]
    if missing:
        raise AnalysisError(f"no printer template could be extracted for {missing}"
                            f" ({prtab.notes})")
    ctx.floor("printer templates", len(prtab.templates), 25)
    parser = ModelParser(ptab)
    printer = ModelPrinter(model, prtab)
    ctx.extra["parser_table"] = [
        {"tags": list(b.tags), "guard": b.guard, "guard_value": ptab.prec(b.guard),
         "op": b.guard_op, "shape": b.shape, "node": b.cls,
         "right_prec": b.right_prec, "build": b.build} for b in ptab.postfix]
    ctx.extra["printer_precedences"] = prtab.precs

    sloc = "pymbolic/mapper/stringifier.py"

    def roundtrip(key, t, facts):
        try:
            s = printer.print(t, 0)
        except Unsupported as e:
            raise AnalysisError(f"printer model cannot print {show(t)}: {e}")
        try:
            back = parser.parse(s)
        except ModelParseError as e:
            ctx.ob(key, False, sloc,
                   f"{show(t)} prints as '{s}', which the parser rejects ({e})",
                   dict(facts, printed=s))
            return
        same = flatten(back) == flatten(t)
        what = (f"'{s}' parses back to the same tree" if same else
                f"{show(t)} prints as '{s}', which parses as {show(back)}: the "
                "printer omits parentheses the parser needs")
        idem = True
        if same:
            try:
                s2 = printer.print(back, 0)
                idem = s2 == s
                if not idem:
                    what = (f"{show(t)} prints as '{s}' but the reparsed tree "
                            f"prints as '{s2}'")
            except Unsupported:
                pass
        ctx.ob(key, same and idem, sloc, what,
               dict(facts, printed=s, tree=show(t)))

    # ---- 2-level nestings --------------------------------------------------
    n_cases = 0
    for P, ar in KINDS.items():
        for pos in range(ar):
            for C in list(KINDS) + list(LEAVES):
                vs = iter(V)
                kids = [next(vs) for _ in range(ar)]
                if C in LEAVES:
                    child = LEAVES[C]
                else:
                    child = fresh(vs, C)
                kids[pos] = child
                t = mk(P, kids)
                if not wellformed(P, pos, C):
                    continue
                n_cases += 1
                roundtrip(f"T/roundtrip/{P}.{posname(P, pos)}<-{C}", t,
                          {"parent": P, "position": posname(P, pos),
                           "child": C})
    # all six comparison operators
    for op in ("==", "!=", "<", "<=", ">", ">="):
        t = ("Comparison", V[0], op, V[1])
        roundtrip(f"T/roundtrip/Comparison-op:{op}", t, {"operator": op})
        n_cases += 1
    # n-ary with three operands, slices with omitted parts, tuples
    for K in ("Sum", "Product", "BitwiseOr", "BitwiseXor", "BitwiseAnd",
              "LogicalOr", "LogicalAnd"):
        roundtrip(f"T/roundtrip/{K}-3ary", (K, (V[0], V[1], V[2])), {"arity": 3})
        n_cases += 1
    for name, sl in (("a:", (V[0], None)), (":b", (None, V[1])),
                     ("a:b:c", (V[0], V[1], V[2])), ("::c", (None, None, V[2])),
                     ("a::c", (V[0], None, V[2]))):
        roundtrip(f"T/roundtrip/Subscript-slice:{name}",
                  ("Subscript", V[3], ("Slice", sl)), {"slice": name})
        n_cases += 1
    roundtrip("T/roundtrip/Tuple-1", ("Tuple", (V[0],)), {})
    roundtrip("T/roundtrip/Tuple-3", ("Tuple", (V[0], V[1], V[2])), {})
    # a closed tuple followed by a comma is an element, not an open list
    T2 = ("Tuple", (V[0], V[1]))
    roundtrip("T/roundtrip/Tuple-1-of-tuple", ("Tuple", (T2,)), {})
    roundtrip("T/roundtrip/Tuple-1-of-1-tuple", ("Tuple", (("Tuple", (V[0],)),)), {})
    roundtrip("T/roundtrip/Tuple-1-of-empty", ("Tuple", (("Tuple", ()),)), {})
    roundtrip("T/roundtrip/Tuple-tuple-first", ("Tuple", (T2, V[2])), {})
    roundtrip("T/roundtrip/Tuple-tuple-last", ("Tuple", (V[2], T2)), {})
    roundtrip("T/roundtrip/Call-arg-1-tuple-of-tuple",
              ("Call", V[3], (("Tuple", (T2,)),)), {})
    n_cases += 6
    roundtrip("T/roundtrip/Subscript-tuple-index",
              ("Subscript", V[0], ("Tuple", (V[1], V[2]))), {})
    # index tuples of length one and zero, slices that end in omitted parts
    roundtrip("T/roundtrip/Subscript-1-tuple-index",
              ("Subscript", V[0], ("Tuple", (V[1],))), {})
    roundtrip("T/roundtrip/Subscript-empty-tuple-index",
              ("Subscript", V[0], ("Tuple", ())), {})
    for name, sl in (("a::", (V[0], None, None)), ("::", (None, None, None)),
                     (":", (None, None)), (":b:", (None, V[1], None)),
                     ("a:b:", (V[0], V[1], None))):
        roundtrip(f"T/roundtrip/Subscript-slice:{name}",
                  ("Subscript", V[3], ("Slice", sl)), {"slice": name})
    n_cases += 7
    roundtrip("T/roundtrip/Call-0-args", ("Call", V[0], ()), {})
    roundtrip("T/roundtrip/Call-2-args", ("Call", V[0], (V[1], V[2])), {})
    n_cases += 5
    # keyword arguments: none positional, several of each
    roundtrip("T/roundtrip/CallWithKwargs-keywords-only",
              ("CallWithKwargs", V[0], (), (("k", V[1]),)), {})
    roundtrip("T/roundtrip/CallWithKwargs-2-keywords-only",
              ("CallWithKwargs", V[0], (), (("k", V[1]), ("m", V[2]))), {})
    roundtrip("T/roundtrip/CallWithKwargs-2-args-2-keywords",
              ("CallWithKwargs", V[0], (V[1], V[2]), (("k", V[3]), ("m", V[1]))),
              {})
    n_cases += 3
    ctx.floor("2-level nestings", n_cases, 1000)

    # ---- token agreement ---------------------------------------------------------
    _token_agreement(ctx, ptab, prtab, parser, printer)

    # ---- thorough: 3-level nestings over a reduced alphabet ---------------------
    if ctx.tier == "thorough":
        reduced = ["Sum", "Product", "Quotient", "Remainder", "Power", "LeftShift",
                   "BitwiseNot", "BitwiseOr", "BitwiseXor", "BitwiseAnd",
                   "Comparison", "LogicalNot", "LogicalOr", "LogicalAnd", "If",
                   "Call", "Subscript", "Lookup", "Slice", "Tuple", "NegInt"]
        n3 = 0
        fails3 = {}
        for P in reduced:
            if P in LEAVES:
                continue
            for p1 in range(KINDS[P]):
                for C in reduced:
                    if C in LEAVES:
                        continue
                    for p2 in range(KINDS[C]):
                        for G in reduced:
                            if not wellformed(P, p1, C) or not wellformed(C, p2, G):
                                continue
                            vs = iter(V)
                            g = LEAVES[G] if G in LEAVES else fresh(vs, G)
                            ckids = [next(vs) for _ in range(KINDS[C])]
                            ckids[p2] = g
                            c = mk(C, ckids)
                            pkids = [next(vs) for _ in range(KINDS[P])]
                            pkids[p1] = c
                            t = mk(P, pkids)
                            n3 += 1
                            try:
                                s = printer.print(t, 0)
                                back = parser.parse(s)
                                ok = flatten(back) == flatten(t)
                            except ModelParseError:
                                ok, back = False, None
                            if not ok:
                                # attribute to the 2-level cause when there is
                                # one, else it is a genuinely 3-level finding
                                k1 = f"T/roundtrip/{P}.{posname(P, p1)}<-{C}"
                                k2 = f"T/roundtrip/{C}.{posname(C, p2)}<-{G}"
                                two = {o.key: o.ok for o in ctx.obs}
                                if two.get(k1, True) and two.get(k2, True):
                                    key = (f"T/roundtrip3/{P}.{posname(P, p1)}<-"
                                           f"{C}.{posname(C, p2)}<-{G}")
                                    ctx.ob(key, False, sloc,
                                           f"{show(t)} prints as '{s}' which "
                                           f"parses as {show(back)} although both "
                                           "2-level nestings are fine",
                                           {"printed": s})
                                else:
                                    fails3[k1 if not two.get(k1, True) else k2] = \
                                        fails3.get(k1, 0) + 1
        ctx.ob("T/roundtrip3/enumeration", True, sloc,
               f"{n3} three-level nestings enumerated; failures attributable to "
               f"2-level findings: {sum(fails3.values())}",
               {"cases": n3, "attributed": fails3})
        ctx.extra["three_level_cases"] = n3


def _token_agreement(ctx, ptab, prtab, parser, printer):
    """every operator token the printer emits lexes to the tag whose branch
    builds the same node class"""
    sloc = "pymbolic/mapper/stringifier.py"
    bin_kinds = ["Sum", "Product", "Quotient", "FloorDiv", "Remainder", "Power",
                 "LeftShift", "RightShift", "BitwiseOr", "BitwiseXor",
                 "BitwiseAnd", "LogicalOr", "LogicalAnd"]
    lexer = parser.lexer
    for K in bin_kinds:
        t = mk(K, [V[0], V[1]])
        s = printer.print(t, 0)
        toks = lexer.lex(s)
        ops = [tg for tg, tx in toks if tg not in ("identifier",)]
        cls = None
        if len(ops) == 1:
            for br in ptab.postfix:
                if ops[0] in br.tags:
                    cls = br.cls
        ctx.ob(f"T/token/{K}", cls == K, sloc,
               f"'{s}' lexes to {ops} -> builds {cls}" if cls == K else
               f"the printer's text for {K} ('{s}') lexes to {ops}, whose parser "
               f"branch builds {cls}", {"printed": s, "tokens": ops})
    for op, tag in ((v, k) for k, v in ptab.comp_table.items()):
        t = ("Comparison", V[0], op, V[1])
        s = printer.print(t, 0)
        toks = [tg for tg, tx in lexer.lex(s) if tg != "identifier"]
        ok = toks == [tag]
        ctx.ob(f"T/token/Comparison:{op}", ok, sloc,
               f"'{op}' lexes to {toks}" if ok else
               f"comparison operator '{op}' is printed as '{s}' and lexes to "
               f"{toks}, not to the tag that _COMP_TABLE maps back to '{op}'")
    for K, tag in (("BitwiseNot", "bitwisenot"), ("LogicalNot", "not")):
        s = printer.print((K, V[0]), 0)
        toks = [tg for tg, tx in lexer.lex(s) if tg != "identifier"]
        ent = ptab.prefix.get(toks[0]) if len(toks) == 1 else None
        ok = ent is not None and ent[0] == K
        ctx.ob(f"T/token/{K}", ok, sloc,
               f"'{s}' -> prefix branch {ent}" if ok else
               f"prefix operator of {K} ('{s}') lexes to {toks}: parser branch "
               f"{ent}")
