"""C11 -- algebraic rewrites: flatten and constant folding (structural part)."""
from __future__ import annotations

import ast

from .. import AnalysisError
from ..rules import (effective_member, check_identity_handler, is_raising, mapper_node_pairs,
                     where)
from ..summary import NODE, contains, summarize
from ..rules import handler_summaries

PRIM = "pymbolic.primitives"
CF = "pymbolic.mapper.constant_folder"
FL = "pymbolic.mapper.flattener"


def run(ctx):
    model = ctx.model
    ctx.decide("flattened_sum/_product: an item reaches the result only if it is "
               "neither neutral nor of the same class; same-class items are "
               "re-queued; a zero factor returns 0; arity 0/1/n results")
    ctx.decide("FlattenMapper recurses on all children and uses the smart "
               "constructors, other nodes by the identity traversal")
    ctx.decide("fold(): a value joins the constants only after is_constant and a "
               "successful evaluation, everything else joins the non-constants "
               "in order; result = at most one folded constant followed by the "
               "non-constants; operator/neutral element/constructor agree; no "
               "folding across a non-commutative product")
    ctx.decide("TermCollector bookkeeping: split_term's partition of the "
               "(base, exponent) table loses no component (a coefficient factor "
               "is base**exponent, a term factor keeps base -> exponent); map_sum "
               "adds up the coefficients of equal terms and rebuilds every entry")
    ctx.decide("DistributeMapper handlers: a node is never iterated (nodes are "
               "not iterable), and a class test that guards the use of a mapped "
               "child is made on the mapped child, not on the original")
    ctx.decline("value preservation and normal forms of DistributeMapper and of "
                "term collection beyond that bookkeeping (search over term "
                "multisets)")
    ctx.assume("exact commutative arithmetic for the folded sums (property text)")

    for fname_, cls_, neutral_, ann_ in (
            ("flattened_sum", "Sum", 0, None),
            ("flattened_product", "Product", 1, 0)):
        jwit = _judge_flattened(ctx, model, fname_, cls_, neutral_, ann_)
        mark = len(ctx.obs)
        try:
            _flattened(ctx, model, fname_, cls_, neutral_, annihilator=ann_)
        except AnalysisError:
            if jwit is None or jwit:
                raise
        if jwit is not None and not jwit:
            ctx.withdraw_failures_since(
                mark, "decided by interpreting the constructor on operand lists",
                f"P/{fname_}/")
    _flatten_mapper(ctx, model)
    _fold(ctx, model)
    _folders(ctx, model)
    # flattening and folding drop an operand when is_zero() says so, and
    # is_zero() asks the node's __bool__: a node class that is falsy without
    # being zero in every environment loses operands here
    from .c03 import _truthiness
    _truthiness(ctx, model)
    _term_collector(ctx, model)
    _distribute(ctx, model)


def _item_cond(v, what, cls=None):
    """classify a condition on the current item"""
    if not isinstance(v, tuple):
        return None
    if v[0] == "call" and v[1] == "is_zero" and len(v[2]) == 1:
        a = v[2][0]
        if _is_item(a):
            return "zero"
        if a[0] == "binop" and a[1] == "Sub" and _is_item(a[2]) and \
                a[3] == ("const", 1):
            return "one"
    if v[0] == "call" and v[1] == "isinstance" and _is_item(v[2][0]):
        if str(v[2][1]).endswith(f"'{cls}')"):
            return "same-class"
    return None


def _is_item(a):
    return isinstance(a, tuple) and a[0] == "call" and isinstance(a[1], str) \
        and a[1].rsplit(".", 1)[-1] in ("pop", "popleft")


def _judge_flattened(ctx, model, fname, cls, neutral, annihilator):
    """interpretive judge: the smart constructor interpreted (pv/opjudge.py's
    world) on operand lists -- variables, numbers, the neutral element, nested
    nodes of the same class two levels deep, for a product also a zero.  The
    result has the value of cls(operands) (value normal form), holds no node of
    the same class directly beneath it, no neutral element, and is the operand
    itself when one is left (the neutral element when none is).
    -> witnesses | None"""
    from .. import opjudge
    from ..absint import Closure, Obj, Raised, StepBound
    try:
        w = opjudge.World(model)
        f = w.glob.get(fname)
        if not isinstance(f, Closure):
            raise AnalysisError(f"{fname} not found")
        a, b, c, d = (opjudge._var(x) for x in "abcd")

        def N(*ch):
            return opjudge._node(cls, *ch)
        other = "Product" if cls == "Sum" else "Sum"
        cases = [[], [a], [a, b], [a, neutral, b], [neutral], [neutral, neutral],
                 [N(a, b), c], [a, N(b, N(c, d))], [N(a, neutral), b],
                 [opjudge._node(other, a, b), c], [2, a, 3],
                 [N(N(a, b), N(c, d))]]
        if annihilator is not None:
            cases += [[a, annihilator, b], [N(a, annihilator), b]]
        wit = []
        for ops in cases:
            it = w.interp()
            label = f"{fname}({[opjudge.nf(x) for x in ops]})"
            for arg in (list(ops), tuple(ops)):
                try:
                    res = it.apply(f, [arg])
                except Raised as r:
                    wit.append(f"{label}: raises at line "
                               f"{getattr(r.node, 'lineno', '?')}")
                    break
                except StepBound:
                    wit.append(f"{label}: does not terminate")
                    break
                want = opjudge.nf(N(*ops))
                got = opjudge.nf(res)

                def bag(x):
                    # operands of a sum / product commute in value
                    return (x[0], tuple(sorted(map(repr, x[1])))) \
                        if x[0] == cls else x
                if bag(got) != bag(want):
                    wit.append(f"{label}: gives {got}, the value of the operands "
                               f"is {want}")
                    break
                if isinstance(res, Obj) and res.cls == cls:
                    kids = res.fields["children"]
                    if any(isinstance(k, Obj) and k.cls == cls for k in kids):
                        wit.append(f"{label}: a {cls} is left directly beneath "
                                   f"the {cls}")
                        break
                    if any(not isinstance(k, Obj) and k == neutral for k in kids):
                        wit.append(f"{label}: the neutral element is kept")
                        break
                    if len(kids) < 2:
                        wit.append(f"{label}: a {cls} of {len(kids)} operand(s) "
                                   "is built")
                        break
    except AnalysisError as e:
        ctx.extra[f"judge_unavailable:{fname}"] = str(e)[:120]
        return None
    ctx.ob(f"P0/{fname}/flattening-semantics", not wit,
           model.repo.module("pymbolic.primitives").relpath,
           f"{fname} interpreted on {len(cases)} operand lists: value kept, no "
           f"{cls} beneath the {cls}, no neutral element, one operand comes back "
           "as itself" if not wit else f"{fname}: " + "; ".join(wit[:2]))
    return wit


def _flattened(ctx, model, fname, cls, neutral, annihilator):
    m, fn = model.func(f"{PRIM}:{fname}")
    loc = m.loc(fn)
    from ..summary import facts_of
    fn = model.inlined(fn)
    pss = summarize(fn, plain=True, loop_mode="01")
    # roles: the work list is what the while loop tests, the result list is
    # the one the popped item is appended to
    wl = [w for w in ast.walk(fn) if isinstance(w, ast.While)]
    if len(wl) != 1:
        raise AnalysisError(f"{fname}: work-list loop not recognised")
    QUEUE = None
    for n_ in ast.walk(wl[0].test):
        if isinstance(n_, ast.Name):
            QUEUE = n_.id
    DONE = None
    for ps in pss:
        for e in ps.events:
            if e.kind == "call" and e.name.endswith(".append") and e.args and \
                    _is_item(e.args[0]):
                DONE = e.name[:-len(".append")]
    if QUEUE is None or DONE is None:
        raise AnalysisError(f"{fname}: work list / result list not recognised")
    n_append = n_requeue = n_annih = 0
    exits = set()
    for ps in pss:
        facts = {}
        for _, pol0, v0 in ps.conds:
            for v, pol in facts_of(v0, pol0) if isinstance(v0, tuple) else ():
                k = _item_cond(v, fname, cls)
                if k:
                    facts[k] = pol
        appends = [e for e in ps.events if e.kind == "call"
                   and e.name == f"{DONE}.append"]
        requeues = [it for it in ps.items if it[0] == "stmt" and ((isinstance(
            it[1], (ast.AugAssign, ast.Assign)) and QUEUE in ast.unparse(
            it[1].targets[0] if isinstance(it[1], ast.Assign) else it[1].target)
            and "children" in ast.unparse(it[1].value)) or (
            isinstance(it[1], ast.Expr) and isinstance(it[1].value, ast.Call)
            and ast.unparse(it[1].value.func) in (f"{QUEUE}.extend",
                                                  f"{QUEUE}.extendleft")
            and "children" in ast.unparse(it[1].value)))]
        for e in appends:
            n_append += 1
            need = {"zero": False, "same-class": False}
            if neutral == 1:
                need["one"] = False
            ok = _is_item(e.args[0]) and all(facts.get(k) is v
                                             for k, v in need.items())
            ctx.ob(f"P/{fname}/append-only-proper-items", ok, loc,
                   "an item joins the result only if it is not neutral and not a "
                   f"{cls}" if ok else
                   f"{fname} appends an item to the result without having "
                   f"excluded {[k for k, v in need.items() if facts.get(k) is not v]}"
                   f" (neutral element kept / nested {cls} kept)",
                   {"conditions": facts})
        for st in requeues:
            n_requeue += 1
            ok = facts.get("same-class") is True
            ctx.ob(f"P/{fname}/requeue-same-class", ok, loc,
                   f"children of a nested {cls} are put back on the queue" if ok
                   else f"{fname} re-queues children of something that is not "
                   f"known to be a {cls}")
        if facts.get("zero") is True:
            if annihilator is not None:
                n_annih += 1
                ok = ps.term == "return" and ps.retval == ("const", annihilator)
                ctx.ob(f"P/{fname}/zero-factor", ok, loc,
                       "a zero factor makes the product 0" if ok else
                       f"{fname}: a zero factor does not return 0")
            else:
                ok = not appends
                ctx.ob(f"P/{fname}/zero-dropped", ok, loc,
                       "zero terms are dropped" if ok else
                       f"{fname} keeps a zero term")
        if facts.get("one") is True:
            ok = not appends and ps.term != "return" or (
                not appends and not any(_is_item(e.args[0]) for e in appends))
            ctx.ob(f"P/{fname}/one-dropped", not appends, loc,
                   "unit factors are dropped" if not appends else
                   f"{fname} keeps a factor 1")
        # exits after the loop
        if ps.term == "return" and not (facts.get("zero") is True
                                        and annihilator is not None):
            dval = ps.env.get(DONE)
            lens = {}
            for _, pol0, v0 in ps.conds:
                if not isinstance(v0, tuple):
                    continue
                for v, pol in facts_of(v0, pol0):
                    if not isinstance(v, tuple):
                        continue
                    if v[0] == "compare" and v[1] in (("Eq",), ("NotEq",)) and \
                            v[2] == ("len", dval) and v[3][0][0] == "const":
                        lens[v[3][0][1]] = pol if v[1] == ("Eq",) else not pol
                    if v == dval or v == ("len", dval):
                        lens[0] = not pol      # truthiness of the list
            rv = ps.retval
            if lens.get(0) is True:
                exits.add("empty")
                ctx.ob(f"P/{fname}/empty-result", rv == ("const", neutral), loc,
                       f"nothing left -> {neutral}" if rv == ("const", neutral)
                       else f"{fname} returns {rv} for an empty result, the "
                       f"neutral element is {neutral}")
            elif lens.get(1) is True:
                exits.add("single")
                ok = rv[0] == "index" and rv[1] == dval
                ctx.ob(f"P/{fname}/single-result", ok, loc,
                       "one item left -> the item itself" if ok else
                       f"{fname}: with one item left the item is not returned "
                       "as is")
            elif lens.get(0) is False and lens.get(1) is False:
                exits.add("many")
                ctor = rv[4] if rv[0] == "call" and len(rv) >= 5 else (
                    ("global", rv[1]) if rv[0] == "call" else None)
                tup = rv[2][0] if rv[0] == "call" and len(rv[2]) == 1 else None
                as_tuple = tup is not None and (
                    tup == dval or (dval is not None and dval[0] in ("lit", "seq")
                                    and tup[0] == dval[0]
                                    and tup[2:] == dval[2:]))
                ok = ctor == ("global", cls) and as_tuple
                ctx.ob(f"P/{fname}/nary-result", ok, loc,
                       f"several items -> {cls}(tuple(done))" if ok else
                       f"{fname}: several items are not returned as "
                       f"{cls}(tuple(<result list>))")
    ctx.ob(f"P/{fname}/exits", exits == {"empty", "single", "many"}, loc,
           f"exits {sorted(exits)}" if exits == {"empty", "single", "many"} else
           f"{fname} lacks result exits {sorted({'empty', 'single', 'many'} - exits)}")
    ctx.ob(f"P/{fname}/loop-paths", n_append >= 1 and n_requeue >= 1 and (
        annihilator is None or n_annih >= 1), loc,
        f"{n_append} append / {n_requeue} requeue path(s)" if n_append and
        n_requeue else f"{fname}: append or re-queue path missing")
    # the work list starts as all terms and is processed until it is empty
    U = lambda n: ast.unparse(n).replace(" ", "")      # noqa: E731
    tparam = fn.args.args[0].arg
    loops = [st for st in fn.body if isinstance(st, ast.While)]
    ok = False
    if len(loops) == 1:
        w = loops[0]
        t = U(w.test)
        q = None
        for cand in (t, ):
            if isinstance(w.test, ast.Name):
                q = w.test.id
            elif t.startswith("len(") and t.rstrip(">0").rstrip("!=0").endswith(")"):
                inner = w.test.left if isinstance(w.test, ast.Compare) else w.test
                if isinstance(inner, ast.Call) and inner.args and isinstance(
                        inner.args[0], ast.Name):
                    q = inner.args[0].id
        if q is None:
            raise AnalysisError(f"{fname}: work-list loop test '{t}' not "
                                "recognised")
        inits = [st for st in fn.body if isinstance(st, ast.Assign)
                 and U(st.targets[0]) == q and st.lineno < w.lineno]
        init_ok = len(inits) == 1 and U(inits[0].value) in (
            f"list({tparam})", f"deque({tparam})",
            f"collections.deque({tparam})", f"[*{tparam}]")
        first = w.body[0]
        pop_ok = isinstance(first, ast.Assign) and U(first.value) in (
            f"{q}.pop(0)", f"{q}.popleft()", f"{q}.pop()")
        ok = init_ok and pop_ok
    ctx.ob(f"P/{fname}/worklist", ok, loc,
           "work list = all terms, processed front to back until empty" if ok else
           f"{fname}: work-list initialisation or loop changed")


def _flatten_mapper(ctx, model):
    fm = model.cls(f"{FL}:FlattenMapper")
    own = sorted(model.own_slots(fm))
    ctx.ob("O/FlattenMapper/handlers", own == ["map_product", "map_sum"], fm.loc(),
           "overrides exactly map_sum and map_product" if own == ["map_product",
                                                                  "map_sum"]
           else f"FlattenMapper overrides {own}")
    for slot, ctor in (("map_sum", "flattened_sum"),
                       ("map_product", "flattened_product")):
        mem = fm.members.get(slot)
        ok = False
        if mem is not None and mem.kind == "func":
            for ps in summarize(mem.node, fields={"children"}):
                rv = ps.retval
                ok = ps.term == "return" and rv[0] == "call" and rv[1] == ctor \
                    and len(rv[2]) == 1 and rv[2][0][0] == "seq" \
                    and rv[2][0][2] == ("rec", ("elem", ("field", "children")),
                                        True, ()) \
                    and rv[2][0][3] == ("field", "children") and not rv[2][0][4]
        ctx.ob(f"F/FlattenMapper/{slot}", ok, fm.loc(),
               f"{ctor}(all mapped children)" if ok else
               f"FlattenMapper.{slot} is not {ctor}([rec(ch) for ch in "
               "expr.children])")
    pairs = 0
    for n, res, chain, mem in mapper_node_pairs(model, fm):
        if mem is None or mem.kind != "func" or mem.owner is fm or \
                res.via in ("unsupported", "foreign") or is_raising(mem):
            continue
        pairs += 1
        check_identity_handler(ctx, "F", model, fm, n, mem)
    ctx.floor("FlattenMapper inherited pairs", pairs, 30)
    m, fn = model.func(f"{FL}:flatten")
    from ..rules import sole_result
    rv_ = sole_result(fn, plain=True)
    ok = rv_ is not None and rv_[0] == "call" and len(rv_) >= 5 and \
        rv_[4] == ("call", "FlattenMapper", (), ()) and \
        rv_[2] == (("param", fn.args.args[0].arg),)
    ctx.ob("P/flatten/entry", ok, m.loc(fn), "flatten = FlattenMapper()(expr)")


def _fold(ctx, model):
    base = model.cls(f"{CF}:ConstantFoldingMapperBase")
    mem = base.members.get("fold")
    if mem is None or mem.kind != "func":
        raise AnalysisError("ConstantFoldingMapperBase.fold not found")
    loc = base.module.loc(mem.node)
    pss = summarize(mem.node, loop_mode="01", node_param="expr")
    from ..summary import facts_of
    fnode = mem.node
    # roles of the local containers, from where they end up
    U = lambda n: ast.unparse(n).replace(" ", "")       # noqa: E731
    loops_ = [w for w in ast.walk(fnode) if isinstance(w, ast.While)
              and isinstance(w.test, ast.Name)]
    if len(loops_) != 1:
        raise AnalysisError("fold(): work-list loop not recognised")
    QUEUE = loops_[0].test.id
    CONSTS = NONCONSTS = None
    for c in ast.walk(fnode):
        if isinstance(c, ast.Call) and U(c.func).split(".")[-1] == "reduce" and \
                len(c.args) >= 2 and isinstance(c.args[1], ast.Name):
            CONSTS = c.args[1].id
        if isinstance(c, ast.Starred) and isinstance(c.value, ast.Name) and \
                isinstance(c.ctx, ast.Load):
            NONCONSTS = c.value.id
    if CONSTS is None or NONCONSTS is None:
        raise AnalysisError("fold(): constants / non-constants lists not "
                            "recognised")
    child = None
    seen = set()
    for ps in pss:
        facts = {}
        for _, pol0, v0 in ps.conds:
            if not isinstance(v0, tuple):
                continue
            for v, pol in facts_of(v0, pol0):
                if not isinstance(v, tuple):
                    continue
                if v[0] == "call" and v[1] == "isinstance" and \
                        v[2][0][0] == "rec":
                    facts["same-class"] = pol
                    facts["klass"] = v[2][1]
                if v[0] == "call" and v[1] == "self.is_constant" and \
                        v[2][0][0] == "rec":
                    facts["constant"] = pol
                if v[0] == "compare" and v[1] in (("Is",), ("IsNot",)) and \
                        v[3][0] == ("const", None) \
                        and v[2][0] == "call" and v[2][1] == "self.evaluate":
                    facts["eval-failed"] = pol if v[1] == ("Is",) else not pol
        ca = [e for e in ps.events if e.kind == "call"
              and e.name == f"{CONSTS}.append"]
        na = [e for e in ps.events if e.kind == "call"
              and e.name == f"{NONCONSTS}.append"]
        in_loop = any(it[0] == "cond" and isinstance(it[1], ast.Name)
                      and it[1].id == QUEUE and it[2] for it in ps.items)
        if not in_loop:
            continue
        recs = [e for e in ps.events if e.kind == "rec"]
        ok_rec = len(recs) == 1 and recs[0].arg[0] == "call" and \
            recs[0].arg[1] == f"{QUEUE}.pop"
        ctx.ob("F/fold/every-child-mapped", ok_rec, loc,
               "every queued child is mapped exactly once" if ok_rec else
               "fold() does not map each queued child exactly once")
        if facts.get("same-class") is True:
            seen.add("splice")
            st = [it[1] for it in ps.items if it[0] == "stmt" and isinstance(
                it[1], ast.Assign) and ast.unparse(it[1].targets[0]) == QUEUE
                and "children" in ast.unparse(it[1].value)]
            ok = False
            if st and not ca and not na:
                v_ = st[-1].value
                # list(<child>.children) + queue  /  [*<child>.children, *queue]
                src_ = U(v_)
                ok = (isinstance(v_, ast.BinOp) and isinstance(v_.op, ast.Add)
                      and U(v_.right) == QUEUE and ".children" in U(v_.left)
                      and QUEUE not in U(v_.left)) or (
                    src_.startswith("[*") and src_.endswith(f",*{QUEUE}]")
                    and ".children" in src_)
            ctx.ob("P/fold/splice-in-front", ok, loc,
                   "children of a nested same-class node are spliced in front of "
                   "the queue (order preserved)" if ok else
                   "fold() does not splice a nested same-class node's children "
                   "in front of the queue")
            ok = facts.get("klass") == ("param", "klass")
            ctx.ob("P/fold/splice-class-is-parameter", ok, loc,
                   "the spliced class is the klass argument")
            continue
        if facts.get("constant") is True and facts.get("eval-failed") is False:
            seen.add("constant")
            ok = len(ca) == 1 and not na and ca[0].args[0][0] == "call" and \
                ca[0].args[0][1] == "self.evaluate"
            ctx.ob("P/fold/constants-are-evaluated-constants", ok, loc,
                   "a value joins the constants only after is_constant and a "
                   "successful evaluation" if ok else
                   "fold() adds something to the constants that is not the "
                   "evaluated value of a constant child")
        elif facts.get("constant") is True and facts.get("eval-failed") is True:
            seen.add("unevaluable")
            ok = len(na) == 1 and not ca and na[0].args[0][0] == "rec"
            ctx.ob("P/fold/unevaluable-kept", ok, loc,
                   "a constant that cannot be evaluated stays as it is" if ok else
                   "fold() drops or folds a child whose evaluation failed")
        elif facts.get("constant") is False:
            seen.add("nonconstant")
            ok = len(na) == 1 and not ca and na[0].args[0][0] == "rec"
            ctx.ob("P/fold/nonconstants-kept", ok, loc,
                   "non-constant children are kept, in order" if ok else
                   "fold() does not keep a non-constant child")
        else:
            ctx.ob("P/fold/unclassified-path", False, loc,
                   f"a path through fold()'s loop is not classified: {facts}")
    need = {"splice", "constant", "unevaluable", "nonconstant"}
    ctx.ob("P/fold/paths", need <= seen, loc,
           f"paths {sorted(seen)}" if need <= seen else
           f"fold() lacks paths {sorted(need - seen)}")
    # result construction
    shapes = set()
    for ps in pss:
        if ps.term != "return":
            continue
        rv = ps.retval
        if not (rv[0] == "call" and rv[1] == "constructor" and len(rv[2]) == 1):
            shapes.add("other")
            continue
        a = rv[2][0]
        has_const = any(pol and v == ("global", "constants") or (
            pol and isinstance(v, tuple) and v and v[0] in ("seq", "lit")
            and False) for _, pol, v in ps.conds)
        if a[0] == "lit" and len(a[2]) == 2 and a[2][0][0] == "call" and \
                a[2][0][1] in ("reduce", "functools.reduce") and \
                a[2][0][2][0] == ("param", "op") and a[2][1][0] == "star":
            shapes.add("constant-first")
        elif a[0] in ("seq", "lit") and not contains(
                a, lambda t: t[0] == "call" and "reduce" in t[1]):
            shapes.add("nonconstants-only")
        else:
            shapes.add("other")
    # which of the two shapes is built depends only on whether there *are*
    # constants, never on the value they fold to (zero is neutral for a sum but
    # absorbing for a product, and fold() serves both)
    dep = False
    for ps in pss:
        if ps.term != "return":
            continue
        for _, pol, v in ps.conds:
            if isinstance(v, tuple) and contains(
                    v, lambda t: t[0] == "call" and isinstance(t[1], str)
                    and t[1].split(".")[-1] == "reduce"):
                dep = True
    ctx.ob("P/fold/result-independent-of-constant-value", not dep, loc,
           "the folded constant is carried whatever its value" if not dep else
           "fold() decides from the *value* of the folded constant whether to "
           "keep it: a constant that folds to 0 is dropped, which is right for a "
           "sum but turns x*(3 + -3)*y into x*y (the same function folds "
           "products)")
    # every mapped child that ends up among the result's operands unfolded
    # has been asked, *as mapped*, whether it is a constant (and either is not
    # one or could not be evaluated).  A child kept on the strength of a test
    # made before mapping -- or of no test -- may well be a constant after
    # mapping (2*5 is not a literal, its folded form 10 is): the result then
    # holds several constant operands.
    unclassified = []
    for ps in pss:
        if ps.term != "return":
            continue
        kept = []

        def note(t, kept=kept):
            if t[0] == "rec":
                kept.append(t)
            return False
        contains(ps.retval, note)
        asked = []
        for _, pol, v in ps.conds:
            if isinstance(v, tuple):
                contains(v, lambda t: t[0] == "call" and isinstance(t[1], str)
                         and t[1].split(".")[-1] == "is_constant" and t[1] !=
                         "is_constant" and asked.append(t[2][0]) and False)
        for k in kept:
            if k not in asked:
                unclassified.append(k)
    ctx.ob("P/fold/kept-operands-classified-after-mapping", not unclassified, loc,
           "every operand kept unfolded was classified by self.is_constant() "
           "after it had been mapped" if not unclassified else
           "fold() has a way out on which mapped children go into the result "
           "without self.is_constant() having been asked about the *mapped* "
           "child: operands that only become constants by folding (2*5 + 3*4 + x) "
           "stay apart, so the folded sum has more than one constant operand")
    ok = shapes == {"constant-first", "nonconstants-only"}
    ctx.ob("P/fold/result", ok, loc,
           "result = constructor(one folded constant, *non-constants) or "
           "constructor(non-constants)" if ok else
           f"fold() builds its result differently (shapes {sorted(shapes)}): it "
           "must be constructor((reduce(op, constants), *nonconstants)) or "
           "constructor(tuple(nonconstants))")
    # helpers
    ev = base.members.get("evaluate")
    ok = False
    if ev is not None:
        hs = [h for h in ast.walk(ev.node) if isinstance(h, ast.ExceptHandler)]
        ok = len(hs) == 1 and hs[0].type is not None and \
            ast.unparse(hs[0].type) == "ValueError"
    ctx.ob("P/fold/evaluate-catches-only-valueerror", ok, loc,
           "evaluate() treats only ValueError as 'cannot evaluate'" if ok else
           "ConstantFoldingMapperBase.evaluate swallows more than ValueError")
    ic = base.members.get("is_constant")
    ok = False
    if ic is not None:
        from ..rules import sole_result
        rv_ = sole_result(ic.node)
        # not bool(deps)  /  not deps  /  len(deps) == 0
        deps = ("call", "DependencyMapper()", (NODE,), (),
                ("call", "DependencyMapper", (), ()))
        ok = rv_ in (("unop", "Not", ("call", "bool", (deps,), ())),
                     ("unop", "Not", deps),
                     ("compare", ("Eq",), ("len", deps), (("const", 0),)))
    ctx.ob("P/fold/is_constant", ok, loc,
           "constant = no dependencies" if ok else
           "is_constant is not 'DependencyMapper()(expr) is empty'")


TRIPLES = {
    "map_sum": ("Sum", "operator.add", "flattened_sum"),
    "map_product": ("Product", "operator.mul", "flattened_product"),
}


def _folders(ctx, model):
    base = model.cls(f"{CF}:ConstantFoldingMapperBase")
    cbase = model.cls(f"{CF}:CommutativeConstantFoldingMapperBase")
    for cls, slot in ((base, "map_sum"), (cbase, "map_product")):
        mem = cls.members.get(slot)
        ok = False
        if mem is not None and mem.kind == "func":
            r = [x for x in ast.walk(mem.node) if isinstance(x, ast.Return)]
            if r and isinstance(r[0].value, ast.Call):
                c = r[0].value
                args = [ast.unparse(a) for a in c.args]
                want = ["expr", *TRIPLES[slot]]
                ok = ast.unparse(c.func) == "self.fold" and args == want
        ctx.ob(f"S/folder/{cls.name}.{slot}/operator-class-constructor", ok,
               cls.loc(),
               f"fold(expr, {', '.join(TRIPLES[slot])})" if ok else
               f"{cls.name}.{slot} does not call fold(expr, "
               f"{', '.join(TRIPLES[slot])}): node class, operator and smart "
               "constructor must belong together")
    ok = "map_product" not in base.members
    ctx.ob("S/folder/plain-base-has-no-map_product", ok, base.loc(),
           "the plain folder defines no product folding" if ok else
           "ConstantFoldingMapperBase defines map_product: products are folded "
           "although they may be non-commutative")
    plain = model.cls(f"{CF}:ConstantFoldingMapper")
    comm = model.cls(f"{CF}:CommutativeConstantFoldingMapper")
    mp = model.lookup(plain, "map_product")
    ok = mp is not None and mp.owner.name == "IdentityMapper"
    ctx.ob("S/folder/ConstantFoldingMapper/map_product-is-identity", ok,
           plain.loc(),
           "plain folder leaves products to the identity traversal" if ok else
           f"ConstantFoldingMapper.map_product resolves to "
           f"{mp.owner.name if mp else None}: constants are folded across a "
           "possibly non-commutative product")
    mp = model.lookup(comm, "map_product")
    ok = mp is not None and mp.owner is cbase
    ctx.ob("S/folder/CommutativeConstantFoldingMapper/map_product-folds", ok,
           comm.loc(), "commutative folder folds products" if ok else
           "CommutativeConstantFoldingMapper.map_product does not resolve to the "
           "folding handler")
    for c in (plain, comm):
        ms = model.lookup(c, "map_sum")
        ok = ms is not None and ms.owner is base
        ctx.ob(f"S/folder/{c.name}/map_sum-folds", ok, c.loc(),
               "sums are folded" if ok else
               f"{c.name}.map_sum does not resolve to the folding handler (MRO "
               "puts the identity traversal first)")
        mc = effective_member(model, c, "map_common_subexpression")
        ok = mc is not None and mc.owner.name == "CSECachingMapperMixin"
        ctx.ob(f"S/folder/{c.name}/cse-mixin-first", ok, c.loc(),
               "CSE caching mix-in wins the MRO" if ok else
               f"{c.name}.map_common_subexpression does not resolve to the "
               "caching mix-in")
        mu = model.lookup(c, "map_common_subexpression_uncached")
        ok = mu is not None and mu.owner.name == "IdentityMapper" and \
            mu.node.name == "map_common_subexpression"
        ctx.ob(f"S/folder/{c.name}/uncached-is-identity", ok, c.loc(),
               "uncached CSE handler is the identity traversal's" if ok else
               f"{c.name}.map_common_subexpression_uncached is not "
               "IdentityMapper.map_common_subexpression")


def _products_of_mapped_children_redistributed(ctx, model, dm):
    """A mapped child may be a sum (mapping multiplies things out into sums).
    A handler that returns a *product* one of whose factors is a mapped child
    therefore returns a sum beneath a product -- unless the product itself goes
    through the mapper again (self.rec / self.map_product), which distributes
    it.  (map_product's own helper is judged by
    P/DistributeMapper/map_product/products-of-results-redistributed.)"""
    n = 0
    for name, mem in dm.members.items():
        if mem.kind != "func" or not name.startswith("map_") or \
                name == "map_product":
            continue
        fn = mem.node
        parents = {}
        for p_ in ast.walk(fn):
            for c_ in ast.iter_child_nodes(p_):
                parents[c_] = p_

        def is_rec(c):
            return isinstance(c, ast.Call) and isinstance(c.func, ast.Attribute) \
                and isinstance(c.func.value, ast.Name) and \
                c.func.value.id == "self" and c.func.attr in ("rec", "__call__")

        def is_product(c):
            if isinstance(c, ast.BinOp) and isinstance(c.op, ast.Mult):
                return True
            return isinstance(c, ast.Call) and ast.unparse(c.func).split(".")[-1] \
                in ("flattened_product", "Product")
        for c in ast.walk(fn):
            if not is_product(c):
                continue
            # a factor that is a mapped child (self.rec(...)), directly or in
            # the list / tuple / node handed to the constructor
            def factors(x):
                if isinstance(x, ast.BinOp) and isinstance(x.op, ast.Mult):
                    return factors(x.left) + factors(x.right)
                if isinstance(x, ast.Call) and is_product(x):
                    out = []
                    for a in x.args:
                        if isinstance(a, (ast.List, ast.Tuple)):
                            out += list(a.elts)
                        else:
                            out.append(a)
                    return out
                return [x]
            fs = factors(c)
            mapped = [f for f in fs if is_rec(f) or (
                isinstance(f, ast.Call) and any(is_rec(a) for a in f.args))]
            if not mapped:
                continue
            # only where the mapped child can be a sum at all: the handler
            # does not test its class first
            n += 1
            # is the product handed to the mapper again?
            x, again = c, False
            while x in parents:
                par = parents[x]
                if isinstance(par, ast.Call) and par is not x and isinstance(
                        par.func, ast.Attribute) and isinstance(
                        par.func.value, ast.Name) and par.func.value.id == "self" \
                        and par.func.attr in ("rec", "map_product", "__call__"):
                    again = True
                    break
                if isinstance(par, (ast.Return, ast.Assign, ast.FunctionDef)):
                    break
                x = par
            if not again and isinstance(parents.get(x), ast.Assign):
                tgt = parents[x].targets[0]
                if isinstance(tgt, ast.Name):
                    again = any(isinstance(k, ast.Call) and isinstance(
                        k.func, ast.Attribute) and k.func.attr in (
                        "rec", "map_product") and any(
                        isinstance(a, ast.Name) and a.id == tgt.id
                        for a in k.args) for k in ast.walk(fn))
            ctx.ob(f"P/DistributeMapper/{name}/product-of-mapped-child-"
                   "redistributed", again, dm.module.loc(c),
                   f"{name}: the product it builds from a mapped child goes "
                   "through the mapper again" if again else
                   f"DistributeMapper.{name} returns a product one of whose "
                   "factors is a mapped child; the mapped child may be a sum, and "
                   "nothing distributes this product: expand((x + y)/2) is "
                   "(1/2)*(x + y), a sum beneath a product")
    ctx.extra["DistributeMapper_products_of_mapped_children"] = n


def _direct_calls_class_generic(ctx, model, dm):
    """A handler that another handler calls *directly* (self.map_product(v)
    instead of self.rec(v)) is not protected by dispatch: it gets whatever v
    is.  When v comes out of a smart constructor (flattened_product of one
    factor is that factor), its class is open, so the called handler must not
    rebuild what it was handed under a fixed class name -- it has to keep the
    class of its argument (type(expr), or the class-keeping base handler)."""
    from ..sharedstate import _depends_on
    node_classes = {n.name for n in model.nodes.all()}
    n_sites = 0
    for name, mem in dm.members.items():
        if mem.kind != "func":
            continue
        fn = mem.node
        params = [a.arg for a in fn.args.args]
        for call in ast.walk(fn):
            if not (isinstance(call, ast.Call) and isinstance(
                    call.func, ast.Attribute) and isinstance(
                    call.func.value, ast.Name) and call.func.value.id == "self"
                    and call.func.attr.startswith("map_") and call.args):
                continue
            arg = call.args[0]
            if isinstance(arg, ast.Name) and len(params) > 1 and \
                    arg.id == params[1]:
                continue            # the node this handler was dispatched on
            if isinstance(arg, ast.Call) and isinstance(arg.func, ast.Name) \
                    and arg.func.id in node_classes:
                continue            # a node built on the spot: class known
            target = model.lookup(dm, call.func.attr)
            if target is None or target.kind != "func":
                continue
            n_sites += 1
            tfn = target.node
            tparams = [a.arg for a in tfn.args.args]
            if len(tparams) < 2:
                continue
            node_p = tparams[1]
            fixed = []
            for c in ast.walk(tfn):
                if isinstance(c, ast.Call) and isinstance(c.func, ast.Name) and \
                        c.func.id in node_classes and c.args:
                    deps = set()
                    for a in c.args:
                        deps |= _depends_on(tfn, a)
                    if node_p in deps:
                        fixed.append(c)
            ctx.ob(f"S/{dm.name}/{name}->{call.func.attr}/keeps-class-of-its-argument",
                   not fixed, dm.module.loc(call),
                   f"{name} hands {call.func.attr} a value of open class "
                   f"({ast.unparse(arg)[:60]}), and {call.func.attr} keeps the "
                   "class of what it is given" if not fixed else
                   f"{dm.name}.{name} calls self.{call.func.attr}("
                   f"{ast.unparse(arg)[:60]}) directly; the argument need not be "
                   f"the node class the handler is named after (a smart "
                   "constructor returns its only operand as it is), but "
                   f"{call.func.attr} rebuilds its argument's operands as "
                   f"{fixed[0].func.id}(...): a sum raised to the power 1 comes "
                   "back as the *product* of its terms")
    ctx.extra["DistributeMapper_direct_handler_calls"] = n_sites


def _distribute(ctx, model):
    from ..rules import handler_summaries, mapper_node_pairs
    dm = model.cls("pymbolic.mapper.distributor:DistributeMapper")
    # the fact the first rule rests on, read from the source
    ex = model.cls("pymbolic.primitives:Expression")
    it = ex.members.get("__iter__")
    always = it is not None and it.kind == "func" and all(
        ps.term == "raise" for ps in summarize(it.node, node_param=False))
    if not always:
        raise AnalysisError("Expression.__iter__ no longer always raises: the "
                            "'nodes are not iterable' rule has lost its premise")
    node_classes = {n.name for n in model.nodes.all()}
    n_handlers = 0
    for n, res, chain, mem in mapper_node_pairs(model, dm):
        if mem is None or mem.kind != "func" or mem.owner is not dm:
            continue
        n_handlers += 1
        tag = f"{dm.name}/{mem.node.name}/{n.name}"
        iter_bad = []
        shape_bad = []
        for ps in handler_summaries(model, n, mem.node, loop_mode="1"):
            vals = [ps.retval] if ps.retval is not None else []
            for e in ps.events:
                vals.extend(a for a in e.args if isinstance(a, tuple))

            def node_iter(t):
                return t[0] == "seq" and len(t) > 3 and isinstance(t[3], tuple) \
                    and t[3] and (t[3][0] == "rec" or t[3] == NODE)
            for v in vals:
                if contains(v, node_iter):
                    iter_bad.append(v)
            if ps.term != "return":
                continue
            # fields whose mapped value is used on this path
            used = set()

            def note(t):
                if t[0] == "rec" and isinstance(t[1], tuple) and \
                        t[1][0] == "field":
                    used.add(t[1][1])
                return False
            contains(ps.retval, note)
            for _, pol, c in ps.conds:
                if pol and isinstance(c, tuple) and c[0] == "call" and \
                        c[1] == "isinstance" and c[2][0][0] == "field" and \
                        c[2][0][1] in used and c[2][1][0] == "global" and \
                        c[2][1][1] in node_classes:
                    shape_bad.append((c[2][0][1], c[2][1][1]))
        ctx.ob(f"X2/{tag}/no-node-iteration", not iter_bad, where(mem),
               "no node is iterated" if not iter_bad else
               f"{dm.name}.{mem.node.name} iterates over a node (the mapped "
               "child itself, not its .children): Expression.__iter__ raises "
               "TypeError, so every input that reaches this path fails "
               "(e.g. expand((x*y)**2))")
        ctx.ob(f"P/{tag}/shape-test-on-mapped-child", not shape_bad, where(mem),
               "class tests that guard the use of a mapped child look at the "
               "mapped child" if not shape_bad else
               f"{dm.name}.{mem.node.name} tests the class of the original child "
               f"({', '.join(f'expr.{f} is a {c}' for f, c in shape_bad)}) and "
               "then works with the *mapped* child: distribution may already "
               "have turned it into another class (a power of a power of a sum "
               "expands to a sum only after mapping), so the test misses it or "
               "admits the wrong class")
    ctx.floor("DistributeMapper handlers", n_handlers, 4)
    _products_of_mapped_children_redistributed(ctx, model, dm)
    _direct_calls_class_generic(ctx, model, dm)
    _collector_accepts_distributor_terms(ctx, model, dm)
    _products_redistributed(ctx, model, dm)
    _power_shape_cases(ctx, model, dm)
    # map_power multiplies a power of a sum out by repeating the base
    # `exponent` times: for exponent <= 0 the repetition is empty, which is
    # the constant 1 (wrong for negative exponents) and not a Product at all
    mp = model.lookup(dm, "map_power")
    from ..summary import facts_of
    n_rep = 0
    ok = True
    EXPO = ("field", "exponent")
    for ps in handler_summaries(model, model.nodes.get("Power"), mp.node,
                                loop_mode="1"):
        if ps.term != "return" or ps.retval is None:
            continue
        if not contains(ps.retval, lambda t: t[0] == "binop" and t[1] == "Mult"
                        and EXPO in (t[2], t[3])
                        and any(isinstance(x, tuple) and x[0] == "lit"
                                and x[1] == "tuple" for x in (t[2], t[3]))):
            continue
        n_rep += 1
        positive = False
        for _, pol0, c0 in ps.conds:
            if not isinstance(c0, tuple):
                continue
            for v, pol in facts_of(c0, pol0):
                if isinstance(v, tuple) and v[0] == "compare" and \
                        len(v[1]) == 1 and v[2] == EXPO and \
                        v[3][0][0] == "const":
                    op, k = v[1][0], v[3][0][1]
                    if (op == "Gt" and k >= 0 and pol) or \
                            (op == "GtE" and k >= 1 and pol) or \
                            (op == "LtE" and k >= 0 and not pol) or \
                            (op == "Lt" and k >= 1 and not pol):
                        positive = True
        ok = ok and positive
    ctx.ob("P/DistributeMapper/map_power/repetition-needs-positive-exponent",
           ok and n_rep >= 1, where(mp),
           "the base is repeated exponent times only for a positive exponent"
           if ok and n_rep else
           "DistributeMapper.map_power repeats the base 'exponent' times without "
           "having established exponent > 0: for exponent 0 or a negative "
           "exponent the repetition is empty, flattened_product gives the "
           "constant 1 and map_product fails on it (expand((x + 1)**0) raises "
           "AttributeError)")


def _power_shape_cases(ctx, model, dm):
    """map_power, by truth table over the class of the *mapped* base and the
    kind of exponent: with a positive integer exponent (the polynomial
    fragment), a power whose mapped base is a product, a sum or a positive
    integer power must not be kept as it is -- the first and third leave like terms unmerged
    ((x*y)**2 + x**2*y**2, (x**2)**3 + x**6), the second leaves a sum beneath
    an integer power."""
    import itertools
    from ..rules import handler_summaries, UnknownAtom, bool_eval
    mp = model.lookup(dm, "map_power")
    MB = ("rec", ("field", "base"), True, ())
    EXPO = ("field", "exponent")
    INNER = ("attr", MB, "exponent")

    def atom_of(v):
        if not isinstance(v, tuple) or not v:
            return None
        if v[0] == "call" and v[1] == "isinstance" and len(v[2]) == 2 and \
                v[2][1][0] == "global":
            subj, cls = v[2][0], v[2][1][1]
            if subj == MB and cls in ("Product", "Sum", "Power"):
                return cls
            if subj == EXPO and cls == "int":
                return "I"
            if subj == INNER and cls == "int":
                return "J"
        if v[0] == "compare" and len(v[1]) == 1 and v[2] == EXPO and \
                v[3][0] == ("const", 0) and v[1][0] in ("Eq", "NotEq"):
            return "Z" if v[1][0] == "Eq" else ("Z", True)
        if v[0] == "call" and v[1] == "is_zero" and v[2] == (EXPO,):
            return "Z"
        if v[0] == "compare" and len(v[1]) == 1 and v[2] in (EXPO, INNER) and \
                v[3][0][0] == "const" and isinstance(v[3][0][1], int):
            op, k = v[1][0], v[3][0][1]
            a = "G" if v[2] == EXPO else "H"
            if (op, k) in (("Gt", 0), ("GtE", 1)):
                return a
            if (op, k) in (("LtE", 0), ("Lt", 1)):
                return (a, True)
        return None

    def keeps(rv):
        if not isinstance(rv, tuple):
            return False
        if rv[0] == "call" and rv[1].endswith(".map_power") and \
                rv[1] != "self.map_power" and NODE in rv[2]:
            return True        # the inherited handler rebuilds Power(rec(base), ..)
        if rv[0] == "call" and rv[1] == "Power" and rv[2] and rv[2][0] == MB:
            return True
        if rv[0] == "binop" and rv[1] == "Pow" and rv[2] == MB:
            return True
        return rv == NODE

    pss = [ps for ps in handler_summaries(model, model.nodes.get("Power"),
                                          mp.node, loop_mode="1")]
    atoms = ["Product", "Sum", "Power", "I", "G", "J", "H", "Z"]
    kept = {"Product": [], "Sum": [], "Power": [], "Zero": []}
    n_asg = 0
    try:
        for bits in itertools.product((False, True), repeat=len(atoms)):
            asg = dict(zip(atoms, bits))
            if asg["Product"] + asg["Sum"] + asg["Power"] > 1:
                continue
            if (asg["J"] or asg["H"]) and not asg["Power"]:
                continue
            if (asg["G"] and not asg["I"]) or (asg["H"] and not asg["J"]):
                continue
            if asg["Z"] and (asg["G"] or not asg["I"]):
                continue        # zero is an integer and not positive
            sel = [ps for ps in pss
                   if all(bool_eval(c, atom_of, asg) == pol
                          for _, pol, c in ps.conds if isinstance(c, tuple))]
            if len(sel) != 1:
                raise UnknownAtom(f"assignment {asg} selects {len(sel)} paths")
            n_asg += 1
            ps = sel[0]
            if ps.term != "return" or not keeps(ps.retval):
                continue
            # exponent 0: (x + 1)**0 is the polynomial 1, a sum kept beneath
            # it is a sum beneath an integer power
            if asg["Z"] and asg["Sum"]:
                kept["Zero"].append(asg)
            # the polynomial fragment otherwise: positive integer exponents
            if not asg["G"]:
                continue
            if asg["Product"]:
                kept["Product"].append(asg)
            if asg["Sum"]:
                kept["Sum"].append(asg)
            if asg["Power"] and asg["H"]:
                kept["Power"].append(asg)
    except UnknownAtom as e:
        raise AnalysisError("DistributeMapper.map_power: a branch condition is "
                            f"not one of the shape tests this rule reads: {e}")
    ctx.floor("DistributeMapper.map_power shape assignments", n_asg, 12)
    # like-term merging could also be done on the collector's side: if
    # split_term looks at the class of a power's base, this rule cannot judge
    tc = model.cls("pymbolic.mapper.collector:TermCollector")
    st = tc.members.get("split_term")
    looks = st is not None and any(
        isinstance(c, ast.Call) and isinstance(c.func, ast.Name)
        and c.func.id == "isinstance" and c.args
        and isinstance(c.args[0], ast.Attribute) and c.args[0].attr == "base"
        for c in ast.walk(st.node))
    if looks and (kept["Product"] or kept["Power"]):
        raise AnalysisError("TermCollector.split_term inspects the class of a "
                            "power's base: powers of products/powers may be "
                            "merged there, which this rule does not read")
    msgs = {
        "Product": "a power of a product is kept as it is: (x*y)**2 + x**2*y**2 "
                   "keeps two unlike-looking like terms",
        "Sum": "a positive integer power of a sum is kept as it is: a sum stays "
               "beneath an integer power",
        "Power": "an integer power of an integer power is kept as it is: "
                 "expand((x**2)**3 + x**6) keeps (x**2)**3 and x**6 apart "
                 "instead of merging the like terms",
    }
    ctx.ob("P/DistributeMapper/map_power/sum-to-the-zero-rewritten",
           not kept["Zero"], where(mp),
           "a sum to the power 0 is not kept" if not kept["Zero"] else
           "DistributeMapper.map_power keeps (sum)**0 as it is: "
           "expand(y*(x + 1)**0) is y*(1 + x)**0, a sum beneath an integer "
           "power, where expand(y) is y")
    for k in ("Product", "Sum", "Power"):
        ctx.ob(f"P/DistributeMapper/map_power/mapped-base-{k}-rewritten",
               not kept[k], where(mp),
               f"a power whose mapped base is a {k} is multiplied out / merged"
               if not kept[k] else "DistributeMapper.map_power: " + msgs[k])


def _products_redistributed(ctx, model, dm):
    """The recursive multiplying-out helper inside map_product returns either a
    product without sums or a (collected) sum.  So whatever it multiplies one of
    its own results with must go through the helper again: a product built
    around a helper result and returned as it is keeps a sum beneath a
    product."""
    mp = model.lookup(dm, "map_product")
    helpers = [f for f in ast.walk(mp.node)
               if isinstance(f, ast.FunctionDef) and f is not mp.node
               and any(isinstance(c, ast.Call) and isinstance(c.func, ast.Name)
                       and c.func.id == f.name for c in ast.walk(f))]
    if len(helpers) != 1:
        raise AnalysisError("DistributeMapper.map_product: expected exactly one "
                            f"recursive multiplying-out helper, found "
                            f"{[f.name for f in helpers]}")
    fn = helpers[0]
    me = fn.name

    def is_self(v):
        return isinstance(v, tuple) and len(v) > 2 and v[0] == "call" and v[1] == me

    def operands(v):
        """operands of a product construction, or None"""
        if not isinstance(v, tuple) or not v:
            return None
        if v[0] == "binop" and v[1] == "Mult":
            return [v[2], v[3]]
        if v[0] == "call" and (v[1].split(".")[-1] in ("flattened_product",
                                                      "Product")):
            out = []
            for a in v[2]:
                if isinstance(a, tuple) and a and a[0] == "lit" and \
                        a[1] in ("list", "tuple"):
                    out.extend(x[1] if isinstance(x, tuple) and x
                               and x[0] == "star" else x for x in a[2])
                else:
                    out.append(a)
            return out
        return None

    bad = []
    n_products = 0

    def walk(v, protected, sums):
        nonlocal n_products
        if not isinstance(v, tuple):
            return
        ops = operands(v)
        if ops is not None:
            n_products += 1
            if not protected and any(is_self(o) or o in sums for o in ops):
                bad.append(v)
            # only flattened_product looks into nested products; `a * (b * s)`
            # and Product((a, b * s)) keep the inner product as one factor, and
            # the helper does not look for sums inside it
            flattens = v[0] == "call" and v[1].split(".")[-1] == "flattened_product"
            for o in ops:
                walk(o, protected and flattens, sums)
            return
        if is_self(v):
            for a in v[2]:
                walk(a, True, sums)
            return
        for x in v:
            if isinstance(x, tuple):
                walk(x, False, sums)

    n_paths = 0
    for ps in summarize(fn, plain=True, loop_mode="1"):
        if ps.term != "return" or ps.retval is None:
            continue
        n_paths += 1
        sums = {c[2][0] for _, pol, c in ps.conds
                if pol and isinstance(c, tuple) and c[0] == "call"
                and c[1] == "isinstance" and len(c[2]) == 2
                and c[2][1] == ("global", "Sum")}
        walk(ps.retval, False, sums)
    ctx.floor("DistributeMapper.map_product helper paths", n_paths, 3)
    ctx.floor("DistributeMapper.map_product product constructions", n_products, 2)
    ctx.ob("P/DistributeMapper/map_product/products-of-results-redistributed",
           not bad, dm.module.loc(fn),
           "every product built around a multiplied-out result is multiplied "
           "out again" if not bad else
           f"DistributeMapper.map_product: {me}() multiplies one of its own "
           "results (which may be a sum) with other factors and returns that "
           "product as it is: a sum stays beneath a product (e.g. "
           "expand(y*(x+y)*(x-2)) = y*(...) + y*(...))")


def _collector_accepts_distributor_terms(ctx, model, dm):
    """sibling agreement: every kind of factor DistributeMapper builds itself
    (rather than receiving from the input) is a term TermCollector.split_term
    accepts -- the distributor hands each product it builds to the collector,
    whose split_term raises on a term it cannot classify"""
    tc = model.cls("pymbolic.mapper.collector:TermCollector")
    st = tc.members.get("split_term")
    if st is None:
        raise AnalysisError("TermCollector.split_term not found")
    param = st.node.args.args[1].arg
    accepted = set()
    has_refusal = False
    for n_ in ast.walk(st.node):
        if isinstance(n_, ast.Call) and ast.unparse(n_.func) == "isinstance" and \
                len(n_.args) == 2 and ast.unparse(n_.args[0]) == param:
            t = n_.args[1]
            elts = t.elts if isinstance(t, ast.Tuple) else [t]
            accepted.update(ast.unparse(e).split(".")[-1] for e in elts)
        if isinstance(n_, ast.Raise):
            has_refusal = True
    if not accepted:
        raise AnalysisError("split_term: accepted term classes not found")
    if not has_refusal:
        ctx.ob("S/collector/accepts-distributor-terms", True, where(st),
               "split_term refuses nothing")
        return

    def is_accepted(node):
        names = {k.name for k in model.mro(node.cls) if not isinstance(k, str)}
        return bool(names & accepted)
    # factors the distributor constructs: type(expr)(...) in a handler whose
    # result is a product of it with something mapped
    n = 0
    for node, res, chain, mem in mapper_node_pairs(model, dm):
        if mem is None or mem.kind != "func" or mem.owner is not dm:
            continue
        if not node.decorated:
            continue        # legacy exact nodes hold numbers, no variables
        # (read from the returned values, with locals resolved: a node of the
        # handled class constructed inside the product that is returned)
        def _walk(v, d=0):
            if isinstance(v, tuple) and d < 40:
                yield v
                for x in v:
                    yield from _walk(x, d + 1)
        builds_own = any(
            ps.term == "return" and isinstance(ps.retval, tuple) and any(
                x[:1] == ("call",) and "flattened_product" in str(x[1]) and any(
                    y[:2] == ("ctor", ("typeof", NODE)) for y in _walk(x))
                for x in _walk(ps.retval))
            for ps in handler_summaries(model, node, mem.node))
        if not builds_own:
            continue
        n += 1
        ok = is_accepted(node)
        ctx.ob(f"S/collector/accepts-distributor-terms:{node.name}", ok,
               where(mem),
               f"{node.name} factors built by the distributor are accepted by "
               "split_term" if ok else
               f"DistributeMapper.{mem.node.name} puts a {node.name} node "
               f"(type(expr)(1, ...)) into the products it returns, but "
               f"TermCollector.split_term accepts only {sorted(accepted)} (or "
               "terms without variables) and raises RuntimeError on anything "
               f"else: expand((x + 1)*((y + 1)/z)) fails")
    ctx.floor("distributor handlers building their own factors", n, 1)


def _has(v, tag):
    return contains(v, lambda t: t[0] == tag)


def _items_receivers(node):
    return [c.func.value.id for c in ast.walk(node) if isinstance(c, ast.Call)
            and isinstance(c.func, ast.Attribute) and c.func.attr == "items"
            and isinstance(c.func.value, ast.Name)]


def _local_value(fn, name):
    vals = [st for st in ast.walk(fn) if isinstance(st, ast.Assign)
            and len(st.targets) == 1 and isinstance(st.targets[0], ast.Name)
            and st.targets[0].id == name]
    vals.sort(key=lambda st: st.lineno)
    return vals[-1].value if vals else None


def _tc_roles(fn):
    """(coefficient list, term table, (base -> exponent) table) of split_term,
    found from what flows into the returned pair"""
    rets = [st for st in ast.walk(fn) if isinstance(st, ast.Return)
            and isinstance(st.value, ast.Tuple) and len(st.value.elts) == 2]
    if len(rets) != 1:
        raise AnalysisError("TermCollector.split_term: the returned (term, "
                            "coefficient) pair was not recognised")
    term_e, coef_e = rets[0].value.elts
    coef = [a.id for c in ast.walk(coef_e) if isinstance(c, ast.Call)
            and ast.unparse(c.func).endswith("flattened_product")
            for a in c.args if isinstance(a, ast.Name)]
    if isinstance(term_e, ast.Name):
        term_e = _local_value(fn, term_e.id)
    clean = _items_receivers(term_e) if term_e is not None else []
    if len(coef) != 1 or len(clean) != 1:
        raise AnalysisError("TermCollector.split_term: coefficient list / term "
                            "table not recognised")
    table = None
    for st in ast.walk(fn):
        if isinstance(st, ast.For) and any(
                isinstance(c, ast.Call) and ast.unparse(c.func) ==
                f"{coef[0]}.append" for c in ast.walk(st)):
            r = _items_receivers(st.iter)
            if len(r) == 1:
                table = r[0]
    if table is None:
        raise AnalysisError("TermCollector.split_term: the loop that splits the "
                            "(base, exponent) table was not recognised")
    return coef[0], clean[0], table


def _tc_sum_table(fn):
    names = set()
    for st in ast.walk(fn):
        if isinstance(st, (ast.ListComp, ast.GeneratorExp)):
            for g in st.generators:
                names.update(_items_receivers(g.iter))
    if len(names) != 1:
        raise AnalysisError("TermCollector.map_sum: the collected table was not "
                            "recognised")
    name = names.pop()
    for _ in range(4):          # follow plain aliases  a = b
        v = _local_value(fn, name)
        if isinstance(v, ast.Name):
            name = v.id
        else:
            break
    return name


def _term_collector(ctx, model):
    tc = model.cls("pymbolic.mapper.collector:TermCollector")
    st = tc.members.get("split_term")
    ms = tc.members.get("map_sum")
    if st is None or ms is None:
        raise AnalysisError("TermCollector.split_term/map_sum not found")
    loc = tc.module.loc(st.node)
    try:
        wit_st = _judge_split_term(model.inlined(st.node), tc)
    except AnalysisError as e:
        wit_st = None
        ctx.extra["judge_unavailable:TermCollector.split_term"] = str(e)
    if wit_st is not None:
        ctx.ob("P0/TermCollector.split_term/split-semantics", not wit_st, loc,
               "split_term interpreted on products of powers of variables, "
               "parameters and numbers: the key is the set of (base, summed "
               "exponent) over the non-parameter bases, whatever their order, "
               "the coefficient the product of the rest with their exponents"
               if not wit_st else
               "TermCollector.split_term: " + "; ".join(wit_st[:2]))
    mark_st = len(ctx.obs)
    try:
        _split_term_structural(ctx, tc, st, loc)
    except AnalysisError:
        if wit_st is None or wit_st:
            raise
    if wit_st is not None and not wit_st:
        ctx.withdraw_failures_since(mark_st, "decided by interpreting split_term")
    try:
        sum_table = _tc_sum_table(ms.node)
    except AnalysisError:
        sum_table = None
    # map_sum: the judge interprets it; the structural reading below stands
    # only where the judge agrees
    try:
        wit_ms = _judge_collect_sum(ms.node, tc)
    except AnalysisError as e:
        ctx.extra["judge_unavailable:TermCollector.map_sum"] = str(e)
        if sum_table is None:
            raise
        _map_sum_structural(ctx, tc, ms, sum_table)
        return
    ctx.ob("P0/TermCollector.map_sum/collect-semantics", not wit_ms,
           tc.module.loc(ms.node),
           "map_sum interpreted on sums whose summands split into given (term, "
           "coefficient) pairs: the result is sum over the distinct terms of "
           "(sum of their coefficients) * term" if not wit_ms else
           "TermCollector.map_sum: " + "; ".join(wit_ms[:2]))
    mark_ms = len(ctx.obs)
    try:
        if sum_table is None:
            raise AnalysisError("TermCollector.map_sum: the collected table was "
                                "not recognised")
        _map_sum_structural(ctx, tc, ms, sum_table)
    except AnalysisError:
        if wit_ms:
            raise
    if not wit_ms:
        ctx.withdraw_failures_since(mark_ms, "decided by interpreting map_sum")


def _judge_split_term(fn, tc):
    """interpretive judge (pv/absint.py).  -> witnesses"""
    from ..absint import Interp, Obj, Opaque, Poly, Raised, StepBound, module_env
    from ..absint import default_isinstance
    helpers = {k: v.node for k, v in tc.members.items() if v.kind == "func"}
    X, Y, P, Q = (Poly.sym(n) for n in "XYPQ")
    params = {"P", "Q"}
    # the quotient 2/D as one opaque factor (numerator 2, denominator D)
    ZQ, D = Poly.sym("ZQ"), Poly.sym("D")

    def power(b, e):
        return Obj("Power", {"base": b, "exponent": e})

    def product(*ch):
        return Obj("Product", {"children": tuple(ch)})
    # (input, [(base, exponent), ...] in factors)
    cases = [
        ("X*X**2*P*Y", product(X, power(X, 2), P, Y), [(X, 1), (X, 2), (P, 1), (Y, 1)]),
        ("Y*X", product(Y, X), [(Y, 1), (X, 1)]),
        ("X*Y", product(X, Y), [(X, 1), (Y, 1)]),
        ("X**2", power(X, 2), [(X, 2)]),
        ("P**3", power(P, 3), [(P, 3)]),
        ("X", X, [(X, 1)]),
        ("P", P, [(P, 1)]),
        ("7", 7, [(7, 1)]),
        ("P*P**2*3*Q", product(P, power(P, 2), 3, Q), [(P, 1), (P, 2), (3, 1), (Q, 1)]),
        ("X**2*P**2*X**-1", product(power(X, 2), power(P, 2), power(X, -1)),
         [(X, 2), (P, 2), (X, -1)]),
        ("X*Y*X**-1", product(X, Y, power(X, -1)), [(X, 1), (Y, 1), (X, -1)]),
        # a quotient is one factor, taken as it is (to the power 1)
        ("(2/D)", ZQ, [(ZQ, 1)]),
        ("X*(2/D)*P", product(X, ZQ, P), [(X, 1), (ZQ, 1), (P, 1)]),
        ("(2/D)*(2/D)", product(ZQ, ZQ), [(ZQ, 1), (ZQ, 1)]),
    ]

    def deps(v):
        if isinstance(v, Poly):
            return {n for mono in v.t for n, _ in mono}
        if isinstance(v, Obj) and v.cls == "Power":
            return deps(v.fields["base"]) | deps(v.fields["exponent"])
        if isinstance(v, Obj) and v.cls == "Product":
            out = set()
            for c in v.fields["children"]:
                out |= deps(c)
            return out
        if isinstance(v, (int, float)):
            return set()
        raise AnalysisError(f"dependencies of {v!r}")

    def _isinst(it, n, a, k):
        v = a[0]
        cs = a[1] if isinstance(a[1], tuple) else (a[1],)
        names = [getattr(c, "what", "").split(" ")[-1].split(".")[-1] for c in cs]
        if all(nm in ("Power", "Product", "AlgebraicLeaf", "Quotient", "Sum",
                      "Expression", "Variable", "Leaf", "QuotientBase")
               for nm in names):
            if isinstance(v, Obj):
                return v.cls in names or "Expression" in names
            if isinstance(v, Poly) and v == ZQ:
                return bool({"Quotient", "QuotientBase", "Expression"}
                            & set(names))
            if isinstance(v, Poly) and not v.is_const():
                return bool({"AlgebraicLeaf", "Expression", "Variable", "Leaf"}
                            & set(names))
            return False
        r = default_isinstance(v, a[1])
        if r is None:
            raise AnalysisError(f"isinstance(..., {a[1]!r})")
        return r

    def pprod(it_, n_, a, k):
        tot = Poly.const(1)
        for x in a[0]:
            tot = tot * Poly.lift(x)
        return tot
    glob = module_env(tc.module.tree, {"pymbolic": Opaque("module pymbolic")})
    wit = []
    keys = {}
    for label, inp, factors in cases:
        class Mp:
            pass
        mp = Mp()

        def attrs(it, node, base, attr, _mp=mp):
            if base is _mp:
                if attr == "rec":
                    return lambda x, *a, **k: x
                if attr == "parameters":
                    return set(params)
                if attr == "get_dependencies":
                    return lambda v: deps(v)
                if attr in helpers and attr != "split_term":
                    return lambda *a, **k: it.call_function(
                        helpers[attr], [_mp] + list(a), {"__kwargs__": dict(k)})
                raise AnalysisError(f"mapper attribute {attr}")
            if isinstance(base, Poly) and base == ZQ and attr in (
                    "numerator", "denominator", "num", "den"):
                return 2 if attr.startswith("num") else D
            return Opaque(ast.unparse(node))

        def iszero(it_, n_, a, k):
            v = Poly.lift(a[0])
            if v.is_const():
                return v.const_value() == 0
            return False
        it = Interp(calls={"pymbolic.flattened_product": pprod,
                           "is_zero": iszero, "primitives.is_zero": iszero,
                           "p.is_zero": iszero,
                           "flattened_product": pprod, "isinstance": _isinst},
                    attrs=attrs, globals_=glob, max_steps=50000)
        b2e = {}
        for b, e in factors:
            b2e[Poly.lift(b)] = b2e.get(Poly.lift(b), 0) + e
        want_key = set()
        want_coeff = Poly.const(1)
        for b, e in b2e.items():
            if deps(b) <= params:
                want_coeff = want_coeff * b ** e
            else:
                want_key.add((b, e))
        try:
            got = it.call_function(fn, [mp, inp], dict(glob))
        except Raised as r:
            wit.append(f"{label}: raises at line {r.node.lineno}")
            continue
        except StepBound:
            wit.append(f"{label}: does not terminate")
            continue
        if not (isinstance(got, tuple) and len(got) == 2):
            wit.append(f"{label}: returns {got!r}")
            continue
        key, coeff = got
        try:
            hash(key)
            as_set = {(Poly.lift(b), e) for b, e in key}
        except Exception:      # noqa: BLE001
            wit.append(f"{label}: the term key {key!r} is not a hashable "
                       "collection of (base, exponent) pairs")
            continue
        # (b**0 is 1 wherever it evaluates: an entry whose exponents cancelled
        # may stay or go)
        nz = {(b, e) for b, e in as_set if e != 0}
        if nz != {(b, e) for b, e in want_key if e != 0} or \
                len(list(key)) != len(as_set):
            wit.append(f"{label}: term key {sorted(map(str, as_set))}, expected "
                       f"{sorted(map(str, want_key))}")
        if not isinstance(coeff, (Poly, int)) or Poly.lift(coeff) != want_coeff:
            wit.append(f"{label}: coefficient {coeff!r}, expected {want_coeff!r}")
        keys[label] = key
    if "X*Y" in keys and "Y*X" in keys and keys["X*Y"] != keys["Y*X"]:
        wit.append("x*y and y*x get different like-term keys and are not merged")
    return wit


def _split_term_structural(ctx, tc, st, loc):
    # roles of the local containers, from the data flow into the return value
    coef_name, clean_name, table_name = _tc_roles(st.node)
    n_coeff = n_term = 0
    ok_coeff = ok_term = ok_once = True
    for ps in summarize(st.node, node_param=False, loop_mode="1"):
        if ps.term != "return":
            continue
        apps = [e for e in ps.events if e.kind == "call"
                and e.name == f"{coef_name}.append"]
        keeps = [e for e in ps.events if e.kind == "itemwrite"
                 and e.name == clean_name]
        if len(apps) + len(keeps) != 1:
            ok_once = False
        for e in apps:
            n_coeff += 1
            v = e.args[0]
            # the coefficient factor must carry base *and* exponent
            if not (_has(v, "key") and _has(v, "val")):
                ok_coeff = False
        for e in keeps:
            n_term += 1
            if not (e.args[0][0] == "key" and e.value[0] == "val"
                    and e.args[0][1] == e.value[1]):
                ok_term = False
    ctx.ob("P/TermCollector.split_term/coefficient-keeps-exponent",
           ok_coeff and n_coeff > 0, loc,
           "a coefficient factor is base**exponent" if ok_coeff and n_coeff else
           "split_term moves a factor to the coefficients without its exponent "
           "(or without its base): a**2 collected as a")
    ctx.ob("P/TermCollector.split_term/term-keeps-exponent", ok_term and n_term > 0,
           loc, "a term factor keeps base -> exponent" if ok_term and n_term else
           "split_term records a term factor without pairing the base with its "
           "own exponent")
    ctx.ob("P/TermCollector.split_term/partition", ok_once, loc,
           "every (base, exponent) entry goes to exactly one side" if ok_once else
           "split_term drops or duplicates an entry of the (base, exponent) "
           "table")
    # the like-term key must not depend on the order the factors were written
    rets = [r for r in ast.walk(st.node) if isinstance(r, ast.Return)
            and isinstance(r.value, ast.Tuple) and len(r.value.elts) == 2]
    key_e = rets[0].value.elts[0]
    if isinstance(key_e, ast.Name):
        key_e = _local_value(st.node, key_e.id)
    if not isinstance(key_e, ast.Call):
        raise AnalysisError("TermCollector.split_term: the term key is not built "
                            "by a constructor call")
    ctor = ast.unparse(key_e.func)
    inner = key_e.args[0] if key_e.args else None
    if ctor in ("frozenset", "immutabledict", "frozendict", "Map") or (
            ctor in ("tuple", "list") and isinstance(inner, ast.Call)
            and ast.unparse(inner.func) == "sorted"):
        order_free = True
    elif ctor in ("tuple", "list"):
        order_free = False
    else:
        raise AnalysisError(f"TermCollector.split_term: term key built by "
                            f"{ctor}(): not a constructor the rule knows")
    ctx.ob("P/TermCollector.split_term/key-order-insensitive", order_free, loc,
           f"the like-term key is a {ctor} of (base, exponent) pairs: x*y and "
           "y*x get one key" if order_free else
           f"the like-term key is a {ctor} of the (base, exponent) pairs in "
           "the order the factors were written: x*y and y*x get different "
           "keys and are not merged (expand((x+y)*(x-y)) keeps x*y - y*x)")
    # exponents of equal bases add up
    ok_acc = False
    for ps in summarize(st.node, node_param=False, loop_mode="1"):
        for e in ps.events:
            if e.kind == "itemwrite" and e.name == table_name:
                present = any(pol and isinstance(v, tuple) and v[0] == "compare"
                              and v[1] == ("In",) for _, pol, v in ps.conds)
                if present and e.value[0] == "binop" and e.value[1] == "Add":
                    ok_acc = True
    ctx.ob("P/TermCollector.split_term/exponents-add", ok_acc, loc,
           "exponents of equal bases are added" if ok_acc else
           "split_term does not add the exponents of repeated bases")


def _judge_collect_sum(fn, tc):
    """-> witnesses"""
    from ..absint import Closure, Interp, Opaque, Poly, Raised, StepBound
    helpers = {k: v.node for k, v in tc.members.items() if v.kind == "func"}
    glob = {}
    for st in tc.module.tree.body:
        if isinstance(st, ast.FunctionDef):
            glob[st.name] = Closure(st, glob)
    X, Y = Poly.sym("X"), Poly.sym("Y")
    cases = [
        [(frozenset({(X, 1)}), "a0"), (frozenset({(X, 1)}), "a1"),
         (frozenset({(Y, 2)}), "a2"), (frozenset(), "a3")],
        [(frozenset({(X, 1), (Y, 1)}), "a0"), (frozenset({(Y, 1), (X, 1)}), "a1")],
        [(frozenset(), "a0")],
        [],
    ]
    wit = []
    for case in cases:
        kids = [("child", i) for i in range(len(case))]

        class Mp:
            pass
        mp = Mp()

        def split(ch):
            t, c = case[ch[1]]
            return (t, Poly.sym(c))

        def psum(it_, n_, a, k):
            tot = Poly()
            for x in a[0]:
                tot = tot + Poly.lift(x)
            return tot

        def pprod(it_, n_, a, k):
            tot = Poly.const(1)
            for x in a[0]:
                tot = tot * Poly.lift(x)
            return tot

        def attrs(it, node, base, attr):
            if base is mp:
                if attr == "split_term":
                    return split
                if attr == "rec":
                    return lambda x, *a, **k: x
                if attr in helpers and attr != "split_term":
                    return lambda *a, **k: it.call_function(
                        helpers[attr], [mp] + list(a), {"__kwargs__": dict(k)})
                raise AnalysisError(f"mapper attribute {attr}")
            if base == "NODE" and attr == "children":
                return tuple(kids)
            return Opaque(ast.unparse(node))
        it = Interp(calls={
            "pymbolic.flattened_sum": psum, "flattened_sum": psum,
            "pymbolic.flattened_product": pprod, "flattened_product": pprod,
            "isinstance": lambda it_, n_, a, k: False,
        }, attrs=attrs, globals_=dict(glob, pymbolic=Opaque("module pymbolic")),
            decide=lambda it_, n_, v: True, max_steps=50000)
        want = Poly()
        for t, c in case:
            mono = Poly.const(1)
            for b, e in t:
                mono = mono * b ** e
            want = want + Poly.sym(c) * mono
        try:
            got = it.call_function(fn, [mp, "NODE"], {})
        except Raised as r:
            wit.append(f"{len(case)} summands: raises at line {r.node.lineno}")
            continue
        except StepBound:
            wit.append(f"{len(case)} summands: does not terminate")
            continue
        if not isinstance(got, (Poly, int)) or Poly.lift(got) != want:
            wit.append(f"summands {[(sorted(map(str, t)), c) for t, c in case]}: "
                       f"{got!r} instead of {want!r}")
    return wit


def _map_sum_structural(ctx, tc, ms, sum_table):
    from ..summary import summarize as _s   # noqa: F401
    loc = tc.module.loc(ms.node)
    ok_sum = ok_res = False
    for ps in summarize(ms.node, loop_mode="1"):
        split = ("call", "self.split_term", (("elem", ("attr", NODE,
                                                       "children")),), ())
        for e in ps.events:
            if e.kind == "itemwrite" and e.name == sum_table:
                key, val = e.args[0], e.value
                ok_sum = (key == ("index", split, 0) and val[0] == "binop"
                          and val[1] == "Add" and ("index", split, 1) in (
                              val[2], val[3])
                          and contains(val, lambda t: t[0] == "call"
                                       and t[1].endswith(".get")
                                       and t[2][0] == key))
        rv = ps.retval
        if ps.term == "return" and rv[0] == "call" and \
                rv[1].endswith("flattened_sum") and rv[2][0][0] == "seq" \
                and not rv[2][0][4]:
            el, src = rv[2][0][2], rv[2][0][3]
            ok_res = (src[0] == "items" and el[0] == "binop" and el[1] == "Mult"
                      and _has(el, "val") and _has(el, "key"))
    ctx.ob("P/TermCollector.map_sum/coefficients-added", ok_sum, loc,
           "coefficients of equal terms are added, starting from 0" if ok_sum
           else f"map_sum does not accumulate {sum_table}[term] = "
           f"{sum_table}.get(term, 0) + coeff for every child")
    ctx.ob("P/TermCollector.map_sum/every-term-rebuilt", ok_res, loc,
           "the result sums coefficient * term over every collected entry"
           if ok_res else
           "map_sum's result is not the sum of coeff * term over all entries of "
           "the collected table")
