"""C14 -- generated C code computes what the evaluator computes (structure)."""
from __future__ import annotations

import ast

from .. import AnalysisError
from ..cgrammar import CParser, canon
from ..grammar import NARY, ModelParseError, show
from ..model import ClassInfo
from ..printer import (ModelPrinter, Unsupported, extract_printer_table, _Conv,
                       _prec_value)
from ..rules import effective_member, handler_summaries
from ..summary import NODE, case_split, contains, content, summarize

CC = "pymbolic.mapper.c_code"
STR = "pymbolic.mapper.stringifier"

V = [("Var", n) for n in "abcdefghijkl"]

KINDS = {
    "Sum": 2, "Product": 2, "Quotient": 2, "FloorDiv": 2, "Remainder": 2,
    "Power": 2, "LeftShift": 2, "RightShift": 2, "BitwiseNot": 1,
    "BitwiseOr": 2, "BitwiseXor": 2, "BitwiseAnd": 2, "Comparison": 2,
    "LogicalNot": 1, "LogicalOr": 2, "LogicalAnd": 2, "If": 3, "Call": 2,
    "Subscript": 2,
}
LEAVES = {"Var": ("Var", "v"), "Int": ("Const", 3), "NegInt": ("Const", -1),
          "NegInt2": ("Const", -2), "Float": ("Const", 2.5)}
POS = {"Quotient": ["numerator", "denominator"],
       "FloorDiv": ["numerator", "denominator"],
       "Remainder": ["numerator", "denominator"], "Power": ["base", "exponent"],
       "LeftShift": ["shiftee", "shift"], "RightShift": ["shiftee", "shift"],
       "Comparison": ["left", "right"], "If": ["condition", "then", "else_"],
       "Call": ["function", "parameters[0]"], "Subscript": ["aggregate", "index"],
       "BitwiseNot": ["child"], "LogicalNot": ["child"]}


def posname(k, i):
    return POS[k][i] if k in POS else f"children[{i}]"


def mk(kind, kids, op="<"):
    if kind in NARY:
        return (kind, tuple(kids))
    if kind == "Comparison":
        return (kind, kids[0], op, kids[1])
    if kind == "Call":
        return (kind, kids[0], tuple(kids[1:]))
    return (kind,) + tuple(kids)


def run(ctx):
    model = ctx.model
    ctx.decide("C precedence agreement: the C printer's table (CCodeMapper "
               "resolved through its bases) against a reference parser driven by "
               "the ISO C operator table, on all 2-level nestings, compared "
               "modulo regroupings that cannot change a value in real arithmetic")
    ctx.decide("CSE bookkeeping: container roles (name list / expression->name "
               "/ set of names), every writer stores values of the role, a fresh "
               "name is tested against the set of names, inner wrappers are "
               "assigned first, a hit appends nothing")
    ctx.decline("compiling and running the C text; floating-point rounding")
    ctx.assume("reference grammar = ISO C11 6.5 operator table (frozen oracle "
               "C-PREC)")

    table = _c_printer(ctx, model)
    _grammar(ctx, model, table)
    _cse_bookkeeping(ctx, model)


# ---------------------------------------------------------------------------

def _c_printer(ctx, model):
    custom_handlers = {"SimplifyingSortingStringifyMapper": {"map_sum"}}
    table = extract_printer_table(
        model, f"{CC}:CCodeMapper", node_names=set(KINDS) | {"Variable"},
        custom=custom_handlers)
    missing = [k for k in KINDS if k not in table.templates and k != "Sum"]
    if missing:
        raise AnalysisError(f"no C printer template for {missing}: {table.notes}")
    # the simplifying sum: recognise its facts, then model it
    facts = _sum_facts(model, table)
    ctx.extra["c_sum_rule"] = {k: v for k, v in facts.items() if k != "where"}

    def print_sum(printer, tree, prec):
        pos, negs = [], []
        for ch in tree[1]:
            rest = _neg_product(ch)
            if rest is None and facts.get("neg_const") and ch[0] == "Const" \
                    and type(ch[1]) in (int, float) and ch[1] < 0:
                rest = ("Const", -ch[1])
            if rest is not None:
                negs.append(printer.print(rest, facts["neg_prec"]))
            else:
                pos.append(printer.print(ch, facts["pos_prec"]))
        s = facts["pos_sep"].join(pos) + "".join(
            facts["neg_fmt"] % n for n in negs)
        return f"({s})" if printer.needs_paren(prec, facts["own_prec"]) else s
    table.custom["Sum"] = print_sum
    # floor division must be emitted fully parenthesised
    fd = table.templates["FloorDiv"]
    ok = all(_fully_parenthesised(v.template) for v in fd)
    ctx.ob("T/c-floordiv/parenthesised", ok, f"{CC.replace('.', '/')}.py",
           "floor division is emitted as '(n/d)'" if ok else
           "CCodeMapper.map_floor_div does not wrap its '/' in parentheses: the "
           "integer division can be re-associated by its context")
    return table


def _fully_parenthesised(t):
    if t[0] == "paren":
        return True
    if t[0] == "cat":
        parts = t[1]
        return (parts and parts[0][0] == "lit" and parts[0][1].startswith("(")
                and parts[-1][0] == "lit" and parts[-1][1].endswith(")"))
    return False


def _neg_product(ch):
    """model of get_neg_product: Product whose first child is -1 -> the rest"""
    if ch[0] == "Product" and len(ch[1]) and ch[1][0] == ("Const", -1):
        if len(ch[1]) == 2:
            return ch[1][1]
        return ("Product", tuple(ch[1][1:]))
    return None


def _sum_facts(model, table):
    from .. import ModelViolation
    try:
        return _sum_facts_structural(model, table)
    except ModelViolation:
        raise
    except AnalysisError as e:
        structural = e
    # (ModelViolation passes through: a recognised wrong shape is a verdict)
    try:
        return _sum_facts_interpreted(model, table)
    except AnalysisError as e2:
        raise AnalysisError(f"{structural}; and by interpretation: {e2}")


def _sum_facts_interpreted(model, table):
    """the simplifying map_sum interpreted (pv/absint.py) on sums of atoms,
    negated products and negative numbers, with rec() answering '<what@prec>':
    the facts of the printing rule are read off two probes and must then
    reproduce every other interpreted sum."""
    import re
    from ..absint import (Interp, Obj, Opaque, Raised, StepBound, module_env,
                          default_isinstance)
    mapper = table.mapper
    mem = model.lookup(mapper, "map_sum")
    if mem is None or mem.kind != "func":
        raise AnalysisError("C printer: map_sum not found")
    mod = mem.owner.module
    glob = module_env(mod.tree, {"p": Opaque("p"), "primitives": Opaque("p")})

    def prod(*ch):
        return Obj("Product", {"children": tuple(ch)})

    class ProductCls:
        what = "p.Product"

        def __call__(self, ch):
            return prod(*ch)

    def label(x):
        if isinstance(x, Opaque):
            return x.what
        if isinstance(x, Obj) and x.cls == "Product":
            return "P(" + ",".join(label(c) for c in x.fields["children"]) + ")"
        return repr(x)

    def to_tree(x):
        if isinstance(x, Opaque):
            return ("Var", x.what)
        if isinstance(x, Obj):
            return ("Product", tuple(to_tree(c) for c in x.fields["children"]))
        return ("Const", x)

    def tree_label(t):
        if t[0] == "Var":
            return t[1]
        if t[0] == "Product":
            return "P(" + ",".join(tree_label(c) for c in t[1]) + ")"
        return repr(t[1])

    def resolve(cls, nm):
        if cls == "mapper":
            m_ = model.lookup(mapper, nm)
            if m_ is not None and m_.kind == "func":
                return ("func", m_.node)
        return None

    def isinst(it, n_, a, k):
        cs = a[1] if isinstance(a[1], tuple) else (a[1],)
        names = [getattr(c, "what", "").replace(".", " ").split(" ")[-1]
                 for c in cs]
        if all(nm in ("Product", "Sum", "Expression", "Variable") for nm in names):
            if isinstance(a[0], Obj):
                return a[0].cls in names or "Expression" in names
            if isinstance(a[0], Opaque):
                return bool({"Expression", "Variable"} & set(names))
            return False
        r = default_isinstance(a[0], a[1])
        if r is None:
            raise AnalysisError(f"isinstance(..., {a[1]!r})")
        return r

    def is_zero(it, n_, a, k):
        return isinstance(a[0], (int, float)) and not isinstance(a[0], bool) \
            and a[0] == 0
    own = []

    def run(children, reverse):
        me = Obj("mapper", {"reverse": reverse})
        node = Obj("Sum", {"children": tuple(children)})

        def rec(it, n_, a, k):
            pr = a[1] if len(a) > 1 else 0
            if not isinstance(pr, int):
                raise AnalysisError("rec() precedence is not a constant")
            return f"<{label(a[0])}@{pr}>"

        def pin(it, n_, a, k):
            if not (len(a) == 3 and a[1] == "ENCL" and isinstance(a[2], int)):
                raise AnalysisError("simplifying map_sum: result is not "
                                    "parenthesize_if_needed(..., enclosing_prec, P)")
            own.append(a[2])
            return a[0]

        def attrs(it, n_, base, attr):
            if isinstance(base, Opaque) and base.what == "p" and \
                    attr == "Product":
                return ProductCls()
            if isinstance(base, Opaque) and base.what == "p" and \
                    attr == "is_zero":
                return lambda v: is_zero(None, None, [v], {})
            return Opaque(ast.unparse(n_))
        it = Interp(calls={"self.rec": rec, "self.parenthesize_if_needed": pin,
                           "isinstance": isinst, "is_zero": is_zero,
                           "p.is_zero": is_zero,
                           "Product": lambda it_, n_, a, k: prod(*a[0]),
                           "p.Product": lambda it_, n_, a, k: prod(*a[0]),
                           "<opaque-binop>": lambda it_, n_, op, a, b:
                           Opaque("a tree")},
                    attrs=attrs, resolve=resolve, globals_=glob, max_steps=40000)
        try:
            out = it.call_function(mem.node, [me, node, "ENCL"], dict(glob))
        except (Raised, StepBound) as e:
            raise AnalysisError(f"simplifying map_sum on {label(node)}: "
                                f"{type(e).__name__}")
        if not isinstance(out, str):
            raise AnalysisError("simplifying map_sum: result is not text")
        return out
    A, B, C = Opaque("a"), Opaque("b"), Opaque("c")
    tok = re.compile(r"<([^<>@]*)@(-?\d+)>")
    # probe 1: two atoms
    o1 = run([A, B], False)
    t1 = list(tok.finditer(o1))
    if len(t1) != 2 or o1[:t1[0].start()] or o1[t1[1].end():] or \
            t1[0].group(2) != t1[1].group(2):
        raise AnalysisError(f"simplifying map_sum: a + b is written '{o1}'")
    facts = {"where": mod.loc(mem.node),
             "handler": f"{mem.owner.name}.map_sum",
             "pos_sep": o1[t1[0].end():t1[1].start()],
             "pos_prec": int(t1[0].group(2))}
    # probe 2: an atom and a negated atom
    o2 = run([A, prod(-1, B)], False)
    t2 = {m_.group(1): m_ for m_ in tok.finditer(o2)}
    if set(t2) != {"a", "b"} or not o2.startswith(t2["a"].group(0)):
        raise AnalysisError(f"simplifying map_sum: a + (-1)*b is written '{o2}'")
    facts["neg_prec"] = int(t2["b"].group(2))
    facts["neg_fmt"] = o2[t2["a"].end():].replace(t2["b"].group(0), "%s")
    if facts["neg_fmt"].count("%s") != 1:
        raise AnalysisError(f"simplifying map_sum: a + (-1)*b is written '{o2}'")
    # probe 3: a negative number
    o3 = run([A, -5], False)
    t3 = {m_.group(1): m_ for m_ in tok.finditer(o3)}
    if "5" in t3 and "-5" not in t3:
        facts["neg_const"] = True
    if len(set(own)) != 1:
        raise AnalysisError("simplifying map_sum: own precedence varies")
    facts["own_prec"] = own[0]

    # the model with these facts must reproduce the interpretation
    def model_out(children, reverse):
        pos, negs = [], []
        for ch in children:
            t = to_tree(ch)
            rest = _neg_product(t)
            if rest is None and facts.get("neg_const") and t[0] == "Const" \
                    and type(t[1]) in (int, float) and t[1] < 0:
                rest = ("Const", -t[1])
            if rest is not None:
                negs.append(f"<{tree_label(rest)}@{facts['neg_prec']}>")
            else:
                pos.append(f"<{tree_label(t)}@{facts['pos_prec']}>")
        pos.sort(reverse=reverse)
        negs.sort(reverse=reverse)
        return facts["pos_sep"].join(pos) + "".join(
            facts["neg_fmt"] % x for x in negs)
    cases = [
        [A, B, C], [prod(-1, A), B], [prod(-1, A, B), C], [A, prod(B, -1)],
        [prod(-1, A), prod(-1, B)], [A, -5, 2.5], [prod(-1, -1, A), B],
        [A, prod(-1, prod(-1, B))], [prod(A, B), prod(-1, C)], [A], [prod(-1, A)],
        [A, prod(1, B)], [A, prod(-1.0, B)], [7, A],
    ]
    n_cases = 0
    for ch in cases:
        for reverse in (True, False):
            n_cases += 1
            got, want = run(ch, reverse), model_out(ch, reverse)
            if got != want:
                if sorted(tok.findall(got)) != sorted(tok.findall(want)):
                    shown = " + ".join(label(c) for c in ch)
                    if ch is cases[6] and ("a", str(facts["neg_prec"])) in \
                            tok.findall(got):
                        from .. import ModelViolation
                        raise ModelViolation(
                            "P/simplifying/map_sum/one-sign-removed",
                            mod.loc(mem.node),
                            "the subtraction rewrite removes every factor -1 of "
                            "a product and writes one minus for the term: "
                            f"(-1)*(-1)*a + b is printed as '{got}'")
                    raise AnalysisError(
                        f"simplifying map_sum: {shown} is written '{got}'; the "
                        f"subtraction rule read off the probes gives '{want}'")
                raise AnalysisError("simplifying map_sum: operand order differs "
                                    f"from sorted order ('{got}' / '{want}')")
    facts["neg_helper_ok"] = True
    facts["interpreted_cases"] = n_cases
    return facts


def _sum_facts_structural(model, table):
    mapper = table.mapper
    mem = model.lookup(mapper, "map_sum")
    if mem is None or mem.kind != "func":
        raise AnalysisError("C printer: map_sum not found")
    n = model.nodes.get("Sum")
    pss = handler_summaries(model, n, mem.node)
    facts = {"where": mem.owner.module.loc(mem.node),
             "handler": f"{mem.owner.name}.map_sum"}
    if mem.owner.name != "SimplifyingSortingStringifyMapper":
        # a plain join_rec sum: use its template
        raise AnalysisError(f"C printer: map_sum now comes from {mem.owner.name}; "
                            "the subtraction-rewrite recogniser does not apply")
    precs = table.precs
    for ps in pss:
        if ps.term != "return":
            continue
        rv = ps.retval
        if not (rv[0] == "call" and rv[1] == "self.parenthesize_if_needed"
                and rv[2][1] == ("param", "enclosing_prec")):
            raise AnalysisError("simplifying map_sum: result is not "
                                "parenthesize_if_needed(..., enclosing_prec, P)")
        facts["own_prec"] = _prec_value(rv[2][2], precs)
        body = rv[2][0]
        if not (body[0] == "binop" and body[1] == "Add"
                and body[2][0] == "strjoin"):
            raise AnalysisError("simplifying map_sum: body is not "
                                "' + '.join(positives) + negatives")
        facts["pos_sep"] = body[2][1]
        for e in ps.events:
            if e.kind == "rec":
                p_ = _prec_value(e.extra[0], precs)
                if contains(e.arg, lambda t: t[0] == "call"
                            and t[1] == "get_neg_product"):
                    facts["neg_prec"] = p_
                elif e.arg == ("elem", ("field", "children")):
                    facts["pos_prec"] = p_
        for v in _walk(body[3]):
            if v[0] == "call" and v[1] == "self.format" and v[2] \
                    and v[2][0][0] == "const" and "%s" in v[2][0][1]:
                facts["neg_fmt"] = v[2][0][1]
    need = {"own_prec", "pos_sep", "neg_prec", "pos_prec", "neg_fmt"}
    if not need <= set(facts):
        raise AnalysisError(f"simplifying map_sum: facts {need - set(facts)} not "
                            "found")
    # get_neg_product: only a Product whose first child is -1, rest returned
    inner = [s for s in mem.node.body if isinstance(s, ast.FunctionDef)]
    if len(inner) != 1:
        raise AnalysisError("simplifying map_sum: helper not found")
    ok_rest = False
    guard_ok = True
    from ..summary import facts_of
    hparam = inner[0].args.args[0].arg
    KIDS = ("attr", NODE, "children")
    for ps in summarize(inner[0], plain=True, node_param=hparam):
        if ps.term != "return":
            continue
        if ps.retval == ("const", None):
            continue
        # "all factors that are not -1": an even number of signs cancels, the
        # caller still writes one minus
        def sign_filter(v):
            return v[0] == "seq" and v[3] == KIDS and v[4] and any(
                c[0] == "call" and c[1] == "is_zero"
                for ct in v[4] for c in _walk(getattr(ct, "val", ())))
        filt = [v for v in _walk(ps.retval) if sign_filter(v)]
        if filt:
            counted = any(isinstance(v0, tuple) and any(
                t[0] == "binop" and t[1] == "Sub" for t in _walk(v0))
                for _, _, v0 in ps.conds)
            if counted:
                raise AnalysisError("simplifying map_sum: get_neg_product counts "
                                    "the signs it removes: not a form this "
                                    "check reads")
            from .. import ModelViolation
            raise ModelViolation(
                "P/simplifying/map_sum/one-sign-removed",
                mem.owner.module.loc(inner[0]),
                "get_neg_product returns the factors that are not -1, however "
                "many signs that removes, and the caller writes one minus for "
                "the term: a + (-1)*(-1)*b is printed as 'a - b'")
        is_product = minus_first = False
        # a second, independent case: a negative plain number n is written as
        # "- <-n>"  (x + -5  ->  x - 5)
        if ps.retval == ("unop", "USub", NODE):
            plain_number = negative = False
            for _, pol0, v0 in ps.conds:
                if not isinstance(v0, tuple):
                    continue
                for v, pol in facts_of(v0, pol0):
                    if not (pol and isinstance(v, tuple)):
                        continue
                    if v[0] == "compare" and v[1] == ("In",) and \
                            v[2] == ("typeof", NODE) and v[3][0][0] == "lit" and \
                            set(v[3][0][2]) <= {("global", "int"),
                                                ("global", "float")}:
                        plain_number = True
                    if v[0] == "compare" and v[1] == ("Lt",) and v[2] == NODE \
                            and v[3] == (("const", 0),):
                        negative = True
            if plain_number and negative:
                facts["neg_const"] = True
                continue
            raise AnalysisError("simplifying map_sum: get_neg_product negates "
                                "its argument under a guard this check cannot "
                                "read")
        for _, pol0, v0 in ps.conds:
            if not isinstance(v0, tuple):
                continue
            for v, pol in facts_of(v0, pol0):
                if not (pol and isinstance(v, tuple)):
                    continue
                if v[0] == "call" and v[1] == "isinstance" and v[2][0] == NODE \
                        and v[2][1] == ("global", "Product"):
                    is_product = True
                if v[0] == "call" and v[1] == "is_zero" and len(v[2]) == 1 and \
                        v[2][0] in (
                            ("binop", "Add", ("index", KIDS, 0), ("const", 1)),
                            ("binop", "Add", ("const", 1), ("index", KIDS, 0))):
                    minus_first = True
        if not (is_product and minus_first):
            guard_ok = False
        rv = ps.retval
        if rv == ("index", KIDS, 1) or (
                rv[0] == "call" and rv[1] == "Product" and rv[2] == (
                    ("slice", KIDS, ("const", 1), None),)):
            ok_rest = True
        else:
            guard_ok = False
    facts["neg_helper_ok"] = ok_rest and guard_ok
    if not facts["neg_helper_ok"]:
        raise AnalysisError("simplifying map_sum: get_neg_product is not "
                            "'Product with first child -1 -> the remaining "
                            "factors'")
    return facts


def _walk(v, depth=0):
    if not isinstance(v, tuple) or depth > 30:
        return
    if v and isinstance(v[0], str):
        yield v
    for x in v:
        if isinstance(x, tuple):
            yield from _walk(x, depth + 1)


def _grammar(ctx, model, table):
    printer = ModelPrinter(model, table)
    cparser = CParser()
    loc = "pymbolic/mapper/c_code.py"

    def check(key, t, facts):
        try:
            s = printer.print(t, 0)
        except Unsupported as e:
            raise AnalysisError(f"C printer model cannot print {show(t)}: {e}")
        try:
            back = cparser.parse(s)
        except ModelParseError as e:
            ctx.ob(key, False, loc, f"{show(t)} is emitted as '{s}', which is not "
                   f"a C expression ({e})", dict(facts, emitted=s))
            return
        ok = canon(back) == canon(t)
        ctx.ob(key, ok, loc,
               f"'{s}' groups as the tree does" if ok else
               f"{show(t)} is emitted as '{s}', which C groups as {show(back)}: "
               "missing parentheses change the value", dict(facts, emitted=s))

    # C types: `/` on two operands of integer type truncates (6.5.5); a
    # Quotient node is true division.  Whatever is emitted for a Quotient of
    # two integer constants must not be an integer division.
    def int_typed(c):
        if c[0] == "Const":
            return isinstance(c[1], int)
        if c[0] in ("Neg", "Pos", "BitwiseNot"):
            return int_typed(c[1])
        if c[0] in ("Mul", "Div", "Mod", "Add", "Sub"):
            return int_typed(c[1]) and int_typed(c[2])
        return False

    def divisions(c):
        if isinstance(c, tuple):
            if c and c[0] == "Div":
                yield c
            for x in c:
                yield from divisions(x)

    n_div = 0
    for name, t in (
            ("1/2", ("Quotient", ("Const", 1), ("Const", 2))),
            ("-1/2", ("Quotient", ("Const", -1), ("Const", 2))),
            ("3/-2", ("Quotient", ("Const", 3), ("Const", -2))),
            ("(1/2)*v", ("Product", (("Quotient", ("Const", 1), ("Const", 2)),
                                     V[0]))),
            ("v**(1/2)", ("Power", V[0], ("Quotient", ("Const", 1),
                                          ("Const", 2)))),
            ("v+3/4", ("Sum", (V[0], ("Quotient", ("Const", 3), ("Const", 4))))),
            ("1/(1/2)", ("Quotient", ("Const", 1),
                         ("Quotient", ("Const", 1), ("Const", 2)))),
            # operands whose C text has integer type without being literals
            ("(1+2)/2", ("Quotient", ("Sum", (("Const", 1), ("Const", 2))),
                         ("Const", 2))),
            ("(3*5)/2", ("Quotient", ("Product", (("Const", 3), ("Const", 5))),
                         ("Const", 2))),
            ("v**0/4", ("Quotient", ("Power", V[0], ("Const", 0)),
                        ("Const", 4)))):
        try:
            s_ = printer.print(t, 0)
            back = cparser.parse(s_)
        except (Unsupported, ModelParseError) as e:
            raise AnalysisError(f"C printer/parser model: {show(t)}: {e}")
        n_div += 1
        bad = [d for d in divisions(back) if int_typed(d[1]) and int_typed(d[2])]
        ctx.ob(f"T/c-types/true-division-of-integer-constants:{name}", not bad,
               loc,
               f"'{s_}' divides in floating point" if not bad else
               f"{show(t)} is emitted as '{s_}': in C both operands of that '/' "
               "have integer type, so it truncates (1 / 2 is 0) where the "
               "Quotient node means true division (0.5)",
               {"emitted": s_})
    ctx.floor("integer-constant quotient probes", n_div, 7)
    # ... and the other way round: a FloorDiv of two integer constants is meant
    # to be C's integer division, so both operands of the emitted '/' keep
    # integer type (7 // 2 is 3, 7.0 / 2 is 3.5)
    for name, t in (
            ("7//2", ("FloorDiv", ("Const", 7), ("Const", 2))),
            ("v+7//2", ("Sum", (V[0], ("FloorDiv", ("Const", 7), ("Const", 2))))),
            ("(7//2)*v", ("Product", (("FloorDiv", ("Const", 7), ("Const", 2)),
                                      V[0])))):
        try:
            s_ = printer.print(t, 0)
            back = cparser.parse(s_)
        except (Unsupported, ModelParseError) as e:
            raise AnalysisError(f"C printer/parser model: {show(t)}: {e}")
        divs = list(divisions(back))
        ok = len(divs) == 1 and int_typed(divs[0][1]) and int_typed(divs[0][2])
        ctx.ob(f"T/c-types/floor-division-of-integer-constants:{name}", ok, loc,
               f"'{s_}' is an integer division" if ok else
               f"{show(t)} is emitted as '{s_}': that '/' is no longer a "
               "division of two integer-typed operands, so C computes 3.5 where "
               "the FloorDiv node means 3", {"emitted": s_})

    n = 0
    for P, ar in KINDS.items():
        for pos in range(ar):
            for C in list(KINDS) + list(LEAVES):
                vs = iter(V)
                kids = [next(vs) for _ in range(ar)]
                if C in LEAVES:
                    child = LEAVES[C]
                else:
                    child = mk(C, [next(vs) for _ in range(KINDS[C])])
                kids[pos] = child
                t = mk(P, kids)
                n += 1
                check(f"T/c-grammar/{P}.{posname(P, pos)}<-{C}", t,
                      {"parent": P, "position": posname(P, pos), "child": C})
    # u**1 is written as u: whatever parentheses the parent would give u (by
    # precedence, or by the class of its operand -- it sees a Power there) must
    # still come, under every parent and in every position
    for P, ar in KINDS.items():
        for pos in range(ar):
            for C in KINDS:
                vs = iter(V)
                kids = [next(vs) for _ in range(ar)]
                kids[pos] = ("Power", mk(C, [next(vs) for _ in range(KINDS[C])]),
                             ("Const", 1))
                n += 1
                check(f"T/c-grammar/{P}.{posname(P, pos)}<-{C}**1", mk(P, kids),
                      {"parent": P, "position": posname(P, pos),
                       "child": f"Power({C}, 1)"})
    # u**2 is written as a product of two copies of u: each copy needs the
    # parentheses u would get as a factor (a remainder, a quotient, a sum),
    # and the square those of a product -- under every parent, every position
    for P, ar in KINDS.items():
        for pos in range(ar):
            for C in KINDS:
                vs = iter(V)
                kids = [next(vs) for _ in range(ar)]
                kids[pos] = ("Power", mk(C, [next(vs) for _ in range(KINDS[C])]),
                             ("Const", 2))
                n += 1
                check(f"T/c-grammar/{P}.{posname(P, pos)}<-{C}**2", mk(P, kids),
                      {"parent": P, "position": posname(P, pos),
                       "child": f"Power({C}, 2)"})
    # comparisons in comparisons: C has two levels (relational above equality)
    # where Python has one
    for po in ("<", "=="):
        for co in ("<", "==", "!=", ">="):
            for pos in (0, 1):
                vs = iter(V)
                kids = [next(vs), next(vs)]
                kids[pos] = ("Comparison", next(vs), co, next(vs))
                n += 1
                check(f"T/c-grammar/Comparison[{po}].{posname('Comparison', pos)}"
                      f"<-Comparison[{co}]", ("Comparison", kids[0], po, kids[1]),
                      {"parent": f"Comparison {po}", "child": f"Comparison {co}",
                       "position": posname("Comparison", pos)})
    # subtraction rewrite and constant exponents
    a, b, c, d = V[:4]
    extra = {
        "Sum-with-negated-product": ("Sum", (a, ("Product", (("Const", -1), b)))),
        "Sum-with-negated-sum": ("Sum", (a, ("Product", (("Const", -1),
                                                         ("Sum", (b, c)))))),
        "Sum-with-negated-quotient": ("Sum", (a, ("Product", (
            ("Const", -1), ("Quotient", b, c))))),
        "Sum-with-negated-3-product": ("Sum", (a, ("Product", (
            ("Const", -1), b, ("Sum", (c, d)))))),
        "Sum-only-negatives": ("Sum", (("Product", (("Const", -1), a)),
                                       ("Product", (("Const", -1), b)))),
        "Product-of-negated": ("Product", (a, ("Sum", (
            b, ("Product", (("Const", -1), c)))))),
        "Quotient-by-difference": ("Quotient", a, ("Sum", (
            b, ("Product", (("Const", -1), c))))),
        "Power-exp-0": ("Power", ("Sum", (a, b)), ("Const", 0)),
        "Power-exp-1-in-product": ("Product", (c, ("Power", ("Sum", (a, b)),
                                                   ("Const", 1)))),
        "Power-exp-2-in-quotient": ("Quotient", c, ("Power", ("Sum", (a, b)),
                                                    ("Const", 2))),
        "Power-exp-2-of-product": ("Quotient", c, ("Power", ("Product", (a, b)),
                                                   ("Const", 2))),
        "Power-exp-2-in-remainder": ("Remainder", c, ("Power", a, ("Const", 2))),
        # u**1 is written as u: parentheses that the enclosing operator
        # decides by the class of its operand (a Power here) must still come
        "Power-exp-1-of-remainder-in-product": ("Product", (c, ("Power", (
            "Remainder", a, b), ("Const", 1)))),
        "Power-exp-1-of-product-in-remainder": ("Remainder", c, ("Power", (
            "Product", (a, b)), ("Const", 1))),
        "Power-exp-1-of-product-in-quotient": ("Quotient", c, ("Power", (
            "Product", (a, b)), ("Const", 1))),
        "Power-exp-1-of-quotient-in-quotient": ("Quotient", c, ("Power", (
            "Quotient", a, b), ("Const", 1))),
        "Remainder-in-product-3": ("Product", (a, b, ("Remainder", c, d))),
        "Comparison-ops": ("LogicalAnd", (("Comparison", a, "<=", b),
                                          ("Comparison", c, "!=", d))),
    }
    for name, t in extra.items():
        n += 1
        check(f"T/c-grammar/{name}", t, {"case": name})
    for op in ("==", "!=", "<", "<=", ">", ">="):
        check(f"T/c-grammar/Comparison-op:{op}", ("Comparison", a, op, b),
              {"operator": op})
        n += 1
    ctx.floor("C 2-level nestings", n, 400)
    # token table
    toks = {
        "LogicalNot": ("!", ("LogicalNot", a)), "LogicalAnd": ("&&", mk(
            "LogicalAnd", [a, b])), "LogicalOr": ("||", mk("LogicalOr", [a, b])),
        "If": ("?", ("If", a, b, c)), "Power": ("pow(", ("Power", a, b)),
    }
    for k, (tok, t) in toks.items():
        s = printer.print(t, 0)
        ctx.ob(f"T/c-token/{k}", tok in s, loc,
               f"{k} is emitted as '{s}'" if tok in s else
               f"{k} is emitted as '{s}', which lacks the C token '{tok}'")

    if ctx.tier == "thorough":
        reduced = ["Sum", "Product", "Quotient", "FloorDiv", "Remainder", "Power",
                   "LeftShift", "BitwiseNot", "BitwiseOr", "BitwiseAnd",
                   "Comparison", "LogicalNot", "LogicalAnd", "LogicalOr", "If",
                   "Call", "Subscript", "NegInt"]
        two = {o.key: o.ok for o in ctx.obs}
        n3 = 0
        for P in reduced:
            if P in LEAVES:
                continue
            for p1 in range(KINDS[P]):
                for C in reduced:
                    if C in LEAVES:
                        continue
                    for p2 in range(KINDS[C]):
                        for G in reduced:
                            vs = iter(V)
                            g = LEAVES[G] if G in LEAVES else mk(
                                G, [next(vs) for _ in range(KINDS[G])])
                            ck = [next(vs) for _ in range(KINDS[C])]
                            ck[p2] = g
                            pk = [next(vs) for _ in range(KINDS[P])]
                            pk[p1] = mk(C, ck)
                            t = mk(P, pk)
                            n3 += 1
                            try:
                                s = printer.print(t, 0)
                                ok = canon(cparser.parse(s)) == canon(t)
                            except ModelParseError:
                                ok = False
                            if not ok:
                                k1 = f"T/c-grammar/{P}.{posname(P, p1)}<-{C}"
                                k2 = f"T/c-grammar/{C}.{posname(C, p2)}<-{G}"
                                if two.get(k1, True) and two.get(k2, True):
                                    ctx.ob(f"T/c-grammar3/{P}.{posname(P, p1)}<-"
                                           f"{C}.{posname(C, p2)}<-{G}", False,
                                           loc, f"{show(t)} is emitted as '{s}'",
                                           {"emitted": s})
        ctx.ob("T/c-grammar3/enumeration", True, loc,
               f"{n3} three-level nestings enumerated", {"cases": n3})


# ---------------------------------------------------------------------------
# CSE bookkeeping
# ---------------------------------------------------------------------------

NAME, TEXT, EXPR = "NAME", "TEXT", "EXPR"


def _judge_c_cse(model, cm, mem):
    """interpretive judge (pv/absint.py): map_common_subexpression interpreted
    on call histories over one mapper state.  Invariants checked after every
    call (they are the property's clauses, not the handler's shape):
      * the name returned for a child is the name returned for it before;
      * a name is assigned exactly once (names in cse_name_list are distinct)
        and is in cse_names;
      * the returned name has an assignment whose text is the text of the
        child, and children with different texts get different names;
      * an assignment whose text uses another hoisted name comes after that
        name's own assignment (inner first);
      * names already in use (handed in through a copy) are not reused.
    -> witnesses"""
    import itertools
    from ..absint import Interp, Opaque, Raised, StepBound
    helpers = {}
    for k in reversed([x for x in model.mro(cm) if not isinstance(x, str)]):
        for nm_, mm_ in k.members.items():
            if mm_.kind == "func" and nm_.startswith("_") and \
                    not nm_.startswith("__"):
                helpers[nm_] = mm_.node

    class Cse:
        def __init__(self, child, prefix=None):
            self.child, self.prefix = child, prefix

    class Tree:
        """a child: text with place-holders for nested wrappers"""
        def __init__(self, label, inner=()):
            self.label, self.inner = label, tuple(inner)

        def __hash__(self):
            return hash((self.label, self.inner))

        def __eq__(self, o):
            return isinstance(o, Tree) and (self.label, self.inner) == (
                o.label, o.inner)

    init = model.lookup(cm, "__init__")
    if init is None or init.kind != "func":
        raise AnalysisError("CCodeMapper.__init__ not found")

    class _Noop:
        def __getattr__(self, name):
            return lambda *a, **k: None

        def __call__(self, *a, **k):
            return None

    def _isinst(it_, n_, a, k):
        what = getattr(a[1], "what", "")
        for nm_, ty in (("str", str), ("int", int), ("list", list),
                        ("tuple", tuple), ("dict", dict)):
            if what.endswith(" " + nm_):
                return isinstance(a[0], ty)
        _r = __import__("pv.absint", fromlist=["x"]).default_isinstance(a[0], a[1])
        if _r is not None:
            return _r
        raise AnalysisError(f"isinstance(..., {a[1]!r})")

    class St:
        """the mapper's state, as its own constructor sets it up"""
        def __init__(self, taken=()):
            self.extra = {}
            # (a copy is handed the list its names come from)
            lst = [(t_, f"old{i}()") for i, t_ in enumerate(taken)]

            class I0(Interp):
                def assign(self_, tgt, v, env):
                    if isinstance(tgt, ast.Attribute) and self_.eval(
                            tgt.value, env) is self:
                        self.extra[tgt.attr] = v
                        return
                    return Interp.assign(self_, tgt, v, env)
            it0 = I0(calls={"super": lambda it_, n_, a, k: _Noop(),
                            "isinstance": _isinst},
                     attrs=lambda it_, n_, b_, at: self.extra[at]
                     if b_ is self and at in self.extra else _Noop()
                     if isinstance(b_, _Noop) else Opaque(ast.unparse(n_)),
                     max_steps=20000)
            it0.call_function(init.node, [self, True, "_cse", "double", lst], {})

        def __getattr__(self, name):
            if name != "extra" and name in self.extra:
                return self.extra[name]
            raise AttributeError(name)
    wit = []

    def run_history(label, hist, taken=()):
        st = St(taken)
        seen = {}

        def call(node):
            def rec(ch, *a, **k):
                if isinstance(ch, Cse):
                    return call(ch)
                # the text of a child: its label around the names of the
                # wrappers inside it, in order
                return ch.label + "(" + ",".join(
                    call(c_) for c_ in ch.inner) + ")"

            def attrs(it, n_, base, attr):
                if base is st:
                    if attr == "rec":
                        return rec
                    if attr in helpers:
                        return lambda *a, **k: it.call_function(
                            helpers[attr], [st] + list(a),
                            {"__kwargs__": dict(k)})
                    if attr in st.extra:
                        return st.extra[attr]
                    raise Raised(n_)
                if isinstance(base, Cse) and attr in ("child", "prefix"):
                    return getattr(base, attr)
                return Opaque(ast.unparse(n_))

            class I2(Interp):
                def assign(self, tgt, v, env):
                    if isinstance(tgt, ast.Attribute) and self.eval(
                            tgt.value, env) is st:
                        st.extra[tgt.attr] = v
                        return
                    return super().assign(tgt, v, env)
            it = I2(calls={"isinstance": _isinst,
                           "count": lambda it_, n_, a, k: itertools.count(*a),
                           "itertools.count": lambda it_, n_, a, k:
                           itertools.count(*a)},
                    attrs=attrs, globals_={"PREC_NONE": 0}, max_steps=20000)
            return it.call_function(mem.node, [st, node, 0], {})
        for node in hist:
            before = list(st.cse_name_list)
            try:
                name = call(node)
            except Raised as r:
                wit.append(f"{label}: raises at line {r.node.lineno}")
                return
            except StepBound:
                wit.append(f"{label}: does not terminate (no fresh name found)")
                return
            names = [n_ for n_, _ in st.cse_name_list]
            if len(set(names)) != len(names):
                wit.append(f"{label}: a name is assigned twice: {names}")
                return
            if not isinstance(name, str) or name not in names:
                wit.append(f"{label}: the returned name {name!r} has no "
                           f"assignment ({names})")
                return
            if name in taken:
                wit.append(f"{label}: a name already in use is reused: {name}")
                return
            if not set(names) <= st.cse_names:
                wit.append(f"{label}: an assigned name is not recorded as used")
                return
            if node.child in seen:
                if seen[node.child] != name:
                    wit.append(f"{label}: the same child gets {name} after "
                               f"{seen[node.child]}")
                    return
                if st.cse_name_list != before:
                    wit.append(f"{label}: a child seen before is assigned again")
                    return
            seen[node.child] = name
            # inner first
            pos = {n_: i for i, (n_, _) in enumerate(st.cse_name_list)}
            for i, (n_, text) in enumerate(st.cse_name_list):
                for other, j in pos.items():
                    if other != n_ and other in _names_in(text) and j > i:
                        wit.append(f"{label}: {n_} = {text} is assigned before "
                                   f"{other}, which it uses")
                        return
        # different texts, different names
        text_of = {}
        for n_, text in st.cse_name_list:
            text_of.setdefault(n_, text)
        if len(set(text_of.values())) != len(text_of):
            wit.append(f"{label}: two names for one text {st.cse_name_list}")

    def _names_in(text):
        import re
        return set(re.findall(r"_cse\w*", text))
    A, B, C = Tree("A"), Tree("B"), Tree("C")
    run_history("same prefix on three children, then the first again",
                [Cse(A, "p"), Cse(B, "p"), Cse(C, "p"), Cse(A, "p")])
    run_history("no prefix, three children, repeats",
                [Cse(A), Cse(B), Cse(A), Cse(C), Cse(B)])
    run_history("prefixed and unprefixed mixed",
                [Cse(A, "p"), Cse(B), Cse(C, "p"), Cse(B, "q")])
    run_history("names already in use",
                [Cse(A, "p"), Cse(B, "p"), Cse(C)],
                taken=("_cse_p", "_cse_p_2", "_cse0"))
    inner = Cse(A, "i")
    run_history("nested wrappers", [Cse(Tree("O", [inner, Cse(B)]), "o"),
                                    inner, Cse(Tree("P", [inner]), "o")])
    return wit


def _cse_bookkeeping(ctx, model):
    cm = model.cls(f"{CC}:CCodeMapper")
    loc = cm.loc()
    mem = effective_member(model, cm, "map_common_subexpression")
    if mem is None or mem.kind != "func" or mem.owner is not cm:
        raise AnalysisError("CCodeMapper.map_common_subexpression not found")
    try:
        wit = _judge_c_cse(model, cm, mem)
    except AnalysisError as e:
        ctx.extra["judge_unavailable:c-cse"] = str(e)
        _cse_handler_structural(ctx, model, cm, mem, loc)
        _cse_state_rules(ctx, model, cm, mem, loc)
        return
    ctx.ob("P0/c-cse/history-semantics", not wit, where_(mem),
           "map_common_subexpression interpreted on five call histories "
           "(repeated prefixes, no prefix, names in use, nested wrappers): one "
           "assignment per child, distinct names, inner before outer, names in "
           "use never reused" if not wit else
           "CCodeMapper.map_common_subexpression: " + "; ".join(wit[:3]))
    mark = len(ctx.obs)
    try:
        _cse_handler_structural(ctx, model, cm, mem, loc)
    except AnalysisError:
        if wit:
            raise
    if not wit:
        ctx.withdraw_failures_since(mark, "decided by interpreting the handler "
                                    "on call histories")
    _cse_state_rules(ctx, model, cm, mem, loc)


def where_(mem):
    return mem.owner.module.loc(mem.node)


def _cse_handler_structural(ctx, model, cm, mem, loc):
    n = model.nodes.get("CommonSubexpression")
    pss = handler_summaries(model, n, mem.node, loop_mode="1")
    hit = miss = 0
    for ps in pss:
        if ps.term != "return":
            continue
        is_miss = any(isinstance(v, tuple) and v[0] == "except"
                      and "KeyError" in v[1] for _, _, v in ps.conds)
        appends = [e for e in ps.events if e.kind == "selfattrcall"
                   and e.value == ("self", "cse_name_list") and e.name == "append"]
        adds = [e for e in ps.events if e.kind == "selfattrcall"
                and e.value == ("self", "cse_names") and e.name == "add"]
        writes = [e for e in ps.events if e.kind == "itemwrite"
                  and e.arg == ("self", "cse_to_name")]
        recs = [e for e in ps.events if e.kind == "rec"]
        where = mem.owner.module.loc(mem.node)
        if not is_miss:
            hit += 1
            ok = not appends and not adds and not writes and not recs and \
                ps.retval == ("index", ("self", "cse_to_name"), None,
                              ("field", "child"))
            ctx.ob("P/c-cse/hit", ok, where,
                   "a known wrapper returns its name and assigns nothing" if ok
                   else "on a hit, map_common_subexpression still assigns or does "
                   "not return the recorded name")
            continue
        miss += 1
        # the candidate name: loop variable of 'for n in generate(): if n not in
        # self.cse_names: break'
        fresh_tested = any(
            isinstance(v, tuple) and v[0] == "compare" and v[1] == ("NotIn",)
            and v[3][0] == ("self", "cse_names") for _, pol, v in ps.conds)
        ctx.ob("P/c-cse/fresh-name-tested", fresh_tested, where,
               "candidate names are tested against cse_names" if fresh_tested else
               "the fresh CSE name is not tested against the set of names in use")
        name_val = None
        for t_, pol, v in ps.conds:
            if isinstance(v, tuple) and v[0] == "compare" and v[1] == ("NotIn",):
                name_val = v[2]
        ok_roles = (len(appends) == 1 and len(adds) == 1 and len(writes) == 1)
        if ok_roles:
            ap = appends[0].args[0]
            ok_roles = (ap[0] == "lit" and len(ap[2]) == 2 and ap[2][0] == name_val
                        and ap[2][1][0] == "rec"
                        and ap[2][1][1] == ("field", "child")
                        and adds[0].args[0] == name_val
                        and writes[0].args[0] == ("field", "child")
                        and writes[0].value == name_val
                        and ps.retval == name_val)
        ctx.ob("S/c-cse/miss-roles", ok_roles, where,
               "miss: list gets (name, text), map gets child->name, set gets name, "
               "name returned" if ok_roles else
               "on a miss the three containers are not updated together with "
               "(name, text) / child-expression -> name / name")
        # inner wrappers first: the recursion on the child precedes the append
        order_ok = bool(recs) and bool(appends) and \
            ps.events.index(recs[0]) < ps.events.index(appends[0])
        ctx.ob("P/c-cse/inner-first", order_ok, where,
               "the child is generated before its assignment is appended, so "
               "inner wrappers come first" if order_ok else
               "the assignment is appended before the child is generated: inner "
               "common subexpressions would be assigned after their use")
    ctx.ob("P/c-cse/paths", hit >= 1 and miss >= 1, loc,
           f"{hit} hit and {miss} miss path(s)" if hit and miss else
           "map_common_subexpression lacks its hit or miss path")
    # name generators yield distinct names with the prefix
    # (the generator(s) the candidate loop draws from: local functions or
    # methods of the class; each must have an unbounded loop that yields a value
    # depending on a counter it advances)
    local_fns = {f.name: f for f in ast.walk(mem.node)
                 if isinstance(f, ast.FunctionDef) and f is not mem.node}
    methods = {}
    for k in reversed([x for x in model.mro(cm) if not isinstance(x, str)]):
        for nm_, mm_ in k.members.items():
            if mm_.kind == "func":
                methods[nm_] = mm_.node
    called = set()
    for lp in ast.walk(mem.node):
        if isinstance(lp, ast.For) and isinstance(lp.iter, ast.Call):
            f_ = lp.iter.func
            if isinstance(f_, ast.Name) and f_.id in local_fns:
                called.add(f_.id)
            elif isinstance(f_, ast.Attribute) and isinstance(
                    f_.value, ast.Name) and f_.value.id == "self" and \
                    f_.attr in methods:
                called.add("self." + f_.attr)
    gens = []
    for nm_ in called:
        if nm_.startswith("self."):
            gens.append(methods[nm_[5:]])
        else:
            # every local definition of that name (one per branch)
            gens.extend(f for f in ast.walk(mem.node)
                        if isinstance(f, ast.FunctionDef) and f.name == nm_)
    if not gens:
        raise AnalysisError("map_common_subexpression: the generator of candidate "
                            "names was not found")

    def unbounded(g):
        """every way through g reaches an unbounded loop -- `while True` with a
        counter it advances, or `for i in itertools.count(...)` -- that yields
        a value built from the counter"""
        def loop_ok(w):
            if isinstance(w, ast.While) and isinstance(
                    w.test, ast.Constant) and w.test.value is True:
                ctr = {a.target.id for a in ast.walk(w) if isinstance(
                    a, ast.AugAssign) and isinstance(a.target, ast.Name)}
            elif isinstance(w, ast.For) and isinstance(w.iter, ast.Call) and \
                    ast.unparse(w.iter.func) in ("count", "itertools.count") \
                    and isinstance(w.target, ast.Name):
                ctr = {w.target.id}
            else:
                return None
            ys = [y for y in ast.walk(w) if isinstance(y, ast.Yield)
                  and y.value is not None]
            return bool(ys) and any(isinstance(n_, ast.Name) and n_.id in ctr
                                    for y in ys for n_ in ast.walk(y.value))
        verdicts = [loop_ok(w) for w in ast.walk(g)
                    if isinstance(w, (ast.While, ast.For))]
        verdicts = [v for v in verdicts if v is not None]
        if not verdicts or not all(verdicts):
            return False
        # one unbounded loop per top-level branch of the generator
        tops = [st for st in g.body if isinstance(st, ast.If)]
        for st in tops:
            for branch in (st.body, st.orelse):
                if branch and not any(loop_ok(x) for b_ in branch
                                      for x in ast.walk(b_)
                                      if isinstance(x, (ast.While, ast.For))):
                    return False
        return True
    ok = all(unbounded(g) for g in gens)
    ctx.ob("P/c-cse/name-generators", ok, loc,
           "name generators enumerate an unbounded family of candidates" if ok else
           "the CSE name generators do not enumerate ever new candidates")



def _cse_state_rules(ctx, model, cm, mem, loc):
    # ---- constructor / copy: roles of what is stored -----------------------
    init = cm.members.get("__init__")
    if init is None:
        raise AnalysisError("CCodeMapper.__init__ not found")
    # the parameter is a list of (NAME, TEXT) pairs -- the role of
    # cse_name_list established above
    param = "cse_name_list"
    for ps in summarize(init.node, node_param=False):
        final = {}
        for e in ps.events:
            if e.kind == "attrwrite" and e.arg == ("selfobj",):
                final[e.name] = e.value
        where = cm.module.loc(init.node)
        # cse_names: must be built from component 0 (NAME)
        # `x = [] if x is None else list(x)` is the if/else statement in one
        # expression, and list(x) holds what x holds
        v = final.get("cse_names")
        ok = v is not None and all(_built_from_component(w, param, 0, "set")
                                   for w in case_split(content(v)))
        ctx.ob("S/c-cse/init/cse_names-role", ok, where,
               "cse_names is initialised with the names" if ok else
               "CCodeMapper.__init__ fills cse_names with something other than "
               "the names of cse_name_list (component 0 of each pair): copies "
               "then hand out names that are already taken")
        # cse_to_name: keys must be expressions; the pairs hold none, so the only
        # role-correct initial value is empty (or a mapping passed separately)
        v = final.get("cse_to_name")
        ok = v is not None and (v == ("litdict", (), ()) or (
            v[0] == "dict" and not _mentions_param(v[1], param)))
        ctx.ob("S/c-cse/init/cse_to_name-role", ok, where,
               "cse_to_name starts without text-keyed entries" if ok else
               "CCodeMapper.__init__ keys cse_to_name by the generated *text* of "
               "each pair; the map is looked up by child expression")
        v = final.get("cse_name_list")

        def fresh(w):
            return (w[0] == "slice" and w[2:] == (None, None)) or (
                w[0] == "call" and w[1] in ("list", f"{param}.copy")) \
                or w[0] == "copy" or (w[0] == "lit" and w[1] == "list")
        ok = v is not None and all(fresh(w) for w in case_split(v))
        ctx.ob("S/c-cse/init/cse_name_list-copied", ok, where,
               "cse_name_list is copied, not shared" if ok else
               "CCodeMapper.__init__ does not copy the list it is given: copies "
               "share and mutate one assignment list")
    # copy passes the list on
    cp = cm.members.get("copy")
    ok = False
    if cp is not None:
        for ps in summarize(cp.node, node_param=False):
            if ps.term == "return" and ps.retval[0] == "call" and \
                    ps.retval[1] == "CCodeMapper":
                args = ps.retval[2]
                ok = len(args) == 4 and args[0] == ("self", "reverse") and \
                    args[1] == ("self", "cse_prefix") and \
                    args[2] == ("self", "complex_constant_base_type")
    ctx.ob("S/c-cse/copy/passes-settings", ok, loc,
           "copy() passes reverse, prefix, complex type and the list" if ok else
           "CCodeMapper.copy does not pass its settings through in constructor "
           "order")
    # a copy that inherits the assignment list must also inherit the
    # expression->name map, else an already hoisted wrapper is assigned again
    carries = False
    shared = False
    if cp is not None:
        for ps in summarize(cp.node, node_param=False):
            for e in ps.events:
                if e.kind == "attrwrite" and e.name == "cse_to_name":
                    v = e.value
                    if v == ("self", "cse_to_name"):
                        shared = True        # alias of the original's dict
                    elif contains(v, lambda t: t == ("self", "cse_to_name")):
                        carries = True       # a new mapping built from it
            # or passed to the constructor
            if ps.term == "return" and contains(
                    ps.retval, lambda t: t == ("self", "cse_to_name")) and \
                    ps.retval[0] == "call":
                carries = True
    ctx.ob("S/c-cse/copy/carries-expression-map", carries and not shared, loc,
           "copy() carries the expression->name map (as a new mapping)"
           if carries and not shared else
           ("CCodeMapper.copy() makes the copy share the original's cse_to_name "
            "dict while each keeps its own assignment list: a wrapper hoisted by "
            "one of them is 'found' by the other, which then uses a name it never "
            "assigned" if shared else
            "CCodeMapper.copy() hands the assignment list to the copy but not the "
            "expression->name map, so a wrapper hoisted before the copy is "
            "assigned a second time under a new name when the copy meets it"))
    if cp is not None:
        _copy_map_restricted(ctx, cm, cp, loc)


def _copy_map_restricted(ctx, cm, cp, loc):
    """a copy that may be given another assignment list keeps only the
    expression->name entries whose name has an assignment in *its own* list
    (path rule: the entries that reach the copy's map pass a membership test
    against names of the copy, not of the original)"""
    fn = cp.node
    params = [a.arg for a in fn.args.args[1:]]
    if not params:
        return          # the list cannot be replaced: nothing to restrict
    OWN = ("self", "cse_to_name")
    n = 0
    ok = True
    for ps in summarize(fn, node_param=False, loop_mode="1"):
        for e in ps.events:
            if not (e.kind == "attrwrite" and e.name == "cse_to_name"):
                continue
            v = e.value
            if not contains(v, lambda t: t == OWN):
                continue         # (the path on which nothing is carried over)
            n += 1
            filters = [getattr(c, "val", None) for c in (v[4] if v[0] == "dict"
                                                         and len(v) > 4 else ())]
            filters += [c for _, pol, c in ps.conds if pol]
            good = False
            for f in filters:
                if isinstance(f, tuple) and f[0] == "compare" and \
                        f[1] == ("In",) and f[2] == ("val", OWN):
                    right = f[3][0]
                    from_self = contains(right, lambda t: t[0] == "self") and \
                        not contains(right, lambda t: t[0] == "call")
                    if not from_self and right != ("self", "cse_names"):
                        good = True
            ok = ok and good
    if n == 0:
        return          # carried some other way; judged by the rule above
    ctx.ob("S/c-cse/copy/map-restricted-to-own-list", ok, loc,
           "the copy keeps a name only if its own list assigns it" if ok else
           "CCodeMapper.copy(cse_name_list) carries expression->name entries "
           "without restricting them to the names assigned in the list the "
           "copy receives: given a shorter list, the copy uses a hoisted name "
           "that is never assigned")


def _mentions_param(v, param):
    return contains(v, lambda t: t == ("param", param)) or v == ("param", param)


def _built_from_component(v, param, idx, ctor):
    if v is None:
        return False
    if v[0] == "seq" and v[3] == ("lit", "list", ()) and not v[4]:
        return True      # the default: an empty list, nothing to store
    if v[0] == "seq" and v[3] == ("param", param) and not v[4]:
        return v[2] == ("index", ("elem", ("param", param)), idx)
    return False
