"""C18 -- geometric-algebra identities over spaces with a diagonal metric."""
from __future__ import annotations

import ast

from .. import AnalysisError
from ..summary import summarize

GA = "pymbolic.geometric_algebra"


def run(ctx):
    model = ctx.model
    ctx.decide("the geometric, outer, inner, scalar and contraction products, "
               "reverse, grade involution, dual, squared norm, inverse, powers "
               "and the constructor's index normalisation of "
               "pymbolic.geometric_algebra, interpreted abstractly "
               "(pv/absint.py) on multivectors with symbolic coefficients over "
               "spaces of dimension 1..3 (1..4 thorough) with a symbolic "
               "diagonal metric: every clause of the property is a polynomial "
               "identity between normal forms (bilinear, associative, e_i*e_i = "
               "g_i, e_i*e_j = -e_j*e_i, products of homogeneous multivectors = "
               "grade parts of the geometric product, rev/invol anti-/"
               "automorphisms, inverse of blades, vectors and pseudoscalars)")
    ctx.decide("equality, hashing and truth-testing read the coefficient table "
               "only")
    ctx.decline("dimensions above 3 (4), non-diagonal metrics (refused by the "
                "library), numeric tolerance helpers (zap_near_zeros, close_to), "
                "conversion to and from numpy vectors")
    ctx.assume("coefficients commute (a commutative ring); division by a "
               "squared norm that is not a monomial is exact (named inverse, "
               "resolved when the identity is compared)")

    from .. import ga
    deep = ctx.tier == "thorough"
    dims = (1, 2, 3, 4) if deep else (1, 2, 3)
    wit, n = ga.run_identities(model, dims=dims)
    mv = model.cls(f"{GA}:MultiVector")
    # group the witnesses by identity so that a report names the clause
    by_id = {}
    for w_ in wit:
        by_id.setdefault(w_.split(" (n=")[0], []).append(w_)
    for label, ws in sorted(by_id.items()):
        ctx.ob(f"P/ga/{label}", False, mv.loc(),
               f"the identity '{label}' fails on symbolic multivectors: " +
               "; ".join(x[:300] for x in ws[:2]))
    ctx.ob("P/ga/identities", not wit, mv.loc(),
           f"{n} identities hold as polynomial identities in the coefficients "
           f"and the metric entries, dimensions {list(dims)}" if not wit else
           f"{len(wit)} of {n} identities fail", {"identities": n,
                                                  "dimensions": list(dims)})
    ctx.floor("geometric-algebra identities", n, 230)

    # equality / truth / hash are functions of the coefficient table
    eq = mv.members.get("__eq__")
    bl = mv.members.get("__bool__")
    hs = mv.members.get("__hash__")
    if eq is None or bl is None or hs is None:
        raise AnalysisError("MultiVector.__eq__/__bool__/__hash__ not found")
    me = ("param", "self")
    ok = False
    for ps in summarize(eq.node, plain=True):
        if ps.term == "return" and isinstance(ps.retval, tuple) and \
                ps.retval[0] == "compare" and ps.retval[1] == ("Eq",):
            left, right = ps.retval[2], ps.retval[3][0]
            ok = left == ("attr", me, "data") and right[0] == "attr" and \
                right[2] == "data"
    ctx.ob("S/ga/eq-is-coefficientwise", ok, mv.loc(eq.node),
           "__eq__ compares the coefficient tables" if ok else
           "MultiVector.__eq__ does not return self.data == other.data")
    ok = all(ps.term == "return" and ps.retval == (
        "call", "bool", (("attr", me, "data"),), ())
        for ps in summarize(bl.node, plain=True))
    ctx.ob("S/ga/truth-is-nonempty-table", ok, mv.loc(bl.node),
           "a multivector is true iff it has a non-zero coefficient (zero "
           "coefficients are never stored)" if ok else
           "MultiVector.__bool__ is not bool(self.data)")
    reads = {x.attr for x in ast.walk(hs.node) if isinstance(x, ast.Attribute)
             and isinstance(x.value, ast.Name)
             and x.value.id == hs.node.args.args[0].arg}
    ok = reads <= {"data"} and not any(
        d in ("memoize_method", "cached_property") for d in hs.decorators)
    ctx.ob("S/ga/hash-reads-coefficients-only", ok, mv.loc(hs.node),
           "__hash__ depends on the coefficient table only" if ok else
           f"MultiVector.__hash__ reads {sorted(reads)} (or is memoized): equal "
           "multivectors (equal tables) may hash differently")
    ctx.ob("S/ga/hash-independent-of-table-order", *_hash_order(hs, mv))
    # no zero coefficient is ever stored: every site that fills a result table
    # tests is_zero first (the products, the sum, the constructor)
    n_sites = 0
    for name in ("__add__", "_generic_product", "__init__"):
        mem = mv.members.get(name)
        if mem is None or mem.kind != "func":
            raise AnalysisError(f"MultiVector.{name} not found")
        stores = [st for st in ast.walk(mem.node) if isinstance(st, ast.Assign)
                  and any(isinstance(t, ast.Subscript) and isinstance(
                      t.value, ast.Name) and t.value.id == "new_data"
                      for t in st.targets)]
        guarded = all(_under_is_zero_test(mem.node, st) for st in stores)
        n_sites += len(stores)
        ctx.ob(f"P/ga/{name}/no-zero-coefficients-stored", guarded and bool(stores),
               mv.loc(mem.node),
               "a coefficient is stored only after is_zero() has ruled zero out"
               if guarded and stores else
               f"MultiVector.{name} stores a coefficient without testing it for "
               "zero: truth-testing and equality (which compare the tables) "
               "then disagree with coefficient-wise comparison")
    ctx.floor("coefficient-table stores", n_sites, 3)
    # ... and the constructor, whatever form its argument has (a scalar, a
    # table keyed by bit patterns, a table keyed by index tuples, a vector):
    # the table it keeps has been through a zero test on every path
    init = mv.members["__init__"]
    unfiltered = []
    n_paths = 0
    for ps in summarize(init.node, plain=True, loop_mode="01"):
        if ps.term == "raise":
            continue
        for e in ps.events:
            if e.kind == "attrwrite" and e.name == "data":
                n_paths += 1
                v = e.value
                if v == ("litdict", (), ()):
                    continue
                tested = "is_zero" in repr(v) or any(
                    "is_zero" in repr(c) for _, _, c in ps.conds)
                if not tested:
                    unfiltered.append(v)
    ctx.floor("constructor paths that store the table", n_paths, 4)
    forms = sorted({"a scalar" if v[0] == "litdict" else
                    "the table as it was passed" if v[0] == "param" else
                    "a vector's entries" for v in unfiltered})
    ctx.ob("P/ga/__init__/no-zero-coefficients-kept", not unfiltered,
           mv.loc(init.node),
           "every form of the constructor's argument passes a zero test before "
           "it is kept" if not unfiltered else
           f"MultiVector.__init__ keeps {' / '.join(forms)} without dropping zero "
           "coefficients: MultiVector(0, space) holds {0: 0}, so it is true, "
           "differs from the empty multivector, and (a - a) == 0 is False")


def _hash_order(hs, mv):
    """__eq__ compares the coefficient tables as dicts, i.e. without regard to
    the order in which the entries were inserted; equal multivectors come out
    of different computations with different insertion orders.  The hash must
    therefore combine the entries with an operation that does not care about
    their order (xor / sum accumulated in a loop, reduce with such an operator,
    a frozenset, a sorted sequence) -- not a tuple or list of the items as they
    come."""
    fn = hs.node
    me = fn.args.args[0].arg
    loc = mv.loc(fn)

    def is_table(e):
        return isinstance(e, ast.Attribute) and e.attr == "data" and \
            isinstance(e.value, ast.Name) and e.value.id == me
    uses = [x for x in ast.walk(fn) if is_table(x)]
    if not uses:
        return (False, loc, "MultiVector.__hash__ does not read the coefficient "
                "table")
    parents = {}
    for p_ in ast.walk(fn):
        for c_ in ast.iter_child_nodes(p_):
            parents[c_] = p_
    COMM = (ast.BitXor, ast.Add, ast.BitOr, ast.BitAnd, ast.Mult)
    for u in uses:
        # climb to the construct that consumes the iteration
        x = u
        verdict = None
        while x in parents and verdict is None:
            par = parents[x]
            if isinstance(par, ast.For) and par.iter is x or (
                    isinstance(par, ast.For) and any(
                        y is x for y in ast.walk(par.iter))):
                # every statement of the body that carries state over is a
                # commutative update
                ok = True
                for st in ast.walk(par):
                    if isinstance(st, ast.AugAssign) and not isinstance(
                            st.op, COMM):
                        ok = False
                    if isinstance(st, ast.Call) and isinstance(
                            st.func, ast.Attribute) and st.func.attr in (
                            "append", "extend", "insert"):
                        ok = False
                verdict = ok
            elif isinstance(par, ast.Call):
                f = ast.unparse(par.func)
                if f in ("frozenset", "sorted", "set", "sum"):
                    verdict = True
                elif f.split(".")[-1] == "reduce" and par.args:
                    op = ast.unparse(par.args[0]).split(".")[-1]
                    verdict = op in ("xor", "add", "or_", "and_", "mul",
                                     "__xor__", "__add__")
                elif f in ("tuple", "list", "hash", "repr", "str"):
                    if f in ("tuple", "list", "repr", "str"):
                        verdict = False
                    # hash(<something>): keep climbing from the argument's
                    # own consumer (handled on the way up)
            elif isinstance(par, (ast.Tuple, ast.List)) or isinstance(
                    par, ast.Starred):
                if isinstance(par, ast.Starred) or any(
                        y is x for y in par.elts):
                    verdict = False if isinstance(par, ast.Starred) else None
            elif isinstance(par, (ast.GeneratorExp, ast.ListComp, ast.SetComp)):
                pass
            elif isinstance(par, ast.FunctionDef):
                break
            x = par
        if verdict is None:
            raise AnalysisError("MultiVector.__hash__: how the coefficient "
                                "table enters the hash is not a form the rule "
                                "reads")
        if not verdict:
            return (False, loc,
                    "MultiVector.__hash__ combines the entries of the "
                    "coefficient table in the order the table happens to hold "
                    "them: (A+B)*C and A*C + B*C are equal (their tables hold "
                    "the same entries) but were filled in different orders, so "
                    "they hash differently and miss each other in sets and "
                    "dicts")
    return (True, loc, "the entries are combined by a commutative operation")


def _under_is_zero_test(fn, store):
    """is the statement inside an if whose test mentions is_zero(...)"""
    for node in ast.walk(fn):
        if isinstance(node, ast.If) and any(
                isinstance(c, ast.Call) and ast.unparse(c.func) == "is_zero"
                for c in ast.walk(node.test)):
            for b in node.body + node.orelse:
                if any(x is store for x in ast.walk(b)):
                    return True
    return False
