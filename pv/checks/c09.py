"""C09 -- dependency, node-count and flop analyses are exact (structure)."""
from __future__ import annotations

import ast

from .. import AnalysisError
from ..model import CHILD, CHILD_MAP, CHILD_TUPLE
from ..rules import (effective_member, check_attr_existence, check_combine_handler,
                     check_forwarding, check_walk_handler, child_kinds, hname,
                     is_raising, mapper_node_pairs, node_fields, where,
                     handler_summaries, _covered_fields, _short)
from ..summary import NODE, base_field, contains, signature, summarize

DEP = "pymbolic.mapper.dependency"
M = "pymbolic.mapper"

FLAG_TABLE = {
    # handler -> (flag attribute, node class, has "descend_args" mode)
    "map_call": ("include_calls", "Call", True),
    "map_call_with_kwargs": ("include_calls", "CallWithKwargs", True),
    "map_lookup": ("include_lookups", "Lookup", False),
    "map_subscript": ("include_subscripts", "Subscript", False),
    "map_common_subexpression_uncached": ("include_cses", "CommonSubexpression",
                                          False),
}


def run(ctx):
    model = ctx.model
    ctx.decide("DependencyMapper flag decision table: singleton {expr} exactly "
               "on the branch of the handler's own flag, descend_args covers all "
               "arguments, otherwise the inherited covering handler; "
               "composite_leaves sets the three flags consistently")
    ctx.decide("coverage and extra-argument forwarding of every Collector/"
               "CombineMapper handler DependencyMapper resolves to; unhandled "
               "node classes raise")
    ctx.decide("NodeCountMapper = cached walk + one increment in post_visit; "
               "flop table (+1 per extra operand, +1 per quotient/floor-div/"
               "power, children summed); CSE-aware counter tests membership "
               "before adding and returns 0 when seen")
    ctx.decline("equality with an independent count on concrete inputs")
    ctx.decide("cached look-aside discipline of CachedMapper (C05's rule "
               "instances), which the node counter's 'distinct' relies on")

    dm = model.cls(f"{DEP}:DependencyMapper")
    cdm = model.cls(f"{DEP}:CachedDependencyMapper")
    _check_flag_table(ctx, model, dm)
    _check_init(ctx, model, dm)
    _check_dep_coverage(ctx, model, dm)
    _check_cached_dep(ctx, model, dm, cdm)
    _check_node_count(ctx, model)
    _check_flops(ctx, model)
    # the node counter and the cached dependency mapper count / collect each
    # distinct subexpression once *because* the look-aside memoizes every key:
    # C05's rule instances on CachedMapper.__call__ are part of this property
    from .c05 import check_lookaside
    check_lookaside(ctx, model)


# ---------------------------------------------------------------------------

def _flag_cond(val, pol, flag):
    """classify a branch condition on self.<flag>:
    'descend' (== "descend_args"), 'on' (truthy), with polarity"""
    if not isinstance(val, tuple):
        return None
    if val == ("self", flag):
        return ("on", pol)
    if val[0] == "unop" and val[1] == "Not":
        r = _flag_cond(val[2], not pol, flag)
        return r
    if val[0] == "compare" and len(val[1]) == 1 and val[2] == ("self", flag) \
            and val[3][0] == ("const", "descend_args"):
        if val[1][0] == "Eq":
            return ("descend", pol)
        if val[1][0] == "NotEq":
            return ("descend", not pol)
    return None


def _check_flag_table(ctx, model, dm):
    """the judge is the interpretive rule (pv/depjudge.py); the structural
    reading below it is kept for its diagnostics, its negative verdicts stand
    only when the judge agrees"""
    from .. import depjudge
    n_judged = 0
    verdict = {}
    for hname_, (flag, ncls, has_descend) in FLAG_TABLE.items():
        mem = model.lookup(dm, hname_)
        if mem is None or mem.kind != "func" or mem.owner is not dm:
            continue
        try:
            wit, n_ = depjudge.judge(hname_, mem.node, flag, ncls, dm.node)
        except AnalysisError as e:
            ctx.extra[f"judge_unavailable:{hname_}"] = str(e)
            continue
        n_judged += n_
        verdict[hname_] = not wit
        ctx.ob(f"T0/DependencyMapper/{hname_}/flag-semantics", not wit, where(mem),
               f"{hname_} interpreted for every value of {flag}: {{expr}} when "
               "selected, dependencies of all arguments (and of a computed head) "
               "under descend_args, the inherited handler with all extras when "
               "off" if not wit else
               f"DependencyMapper.{hname_} does not follow the flag table: " +
               "; ".join(w[:240] for w in wit[:2]), {"cases": n_})
    if len(verdict) == len(FLAG_TABLE):
        ctx.floor("DependencyMapper flag cases interpreted", n_judged, 30)
    mark = len(ctx.obs)
    try:
        _check_flag_table_structural(ctx, model, dm)
    except AnalysisError:
        if not all(verdict.values()) or len(verdict) < len(FLAG_TABLE):
            raise
    if verdict and all(verdict.values()) and len(verdict) == len(FLAG_TABLE):
        ctx.withdraw_failures_since(
            mark, "decided by interpreting the handler for every flag value")
    _check_flag_misc(ctx, model, dm)


def _check_flag_table_structural(ctx, model, dm):
    nt = model.nodes
    n_descend = 0
    for hname_, (flag, ncls, has_descend) in FLAG_TABLE.items():
        mem = model.lookup(dm, hname_)
        tag = f"T/DependencyMapper/{hname_}"
        if mem is None or mem.kind != "func" or mem.owner is not dm:
            ctx.ob(f"{tag}/present", False, dm.loc(),
                   f"DependencyMapper no longer defines {hname_}: the "
                   f"{flag} flag has no effect")
            continue
        n = nt.get(ncls)
        kinds = child_kinds(n)
        pss = handler_summaries(model, n, mem.node)
        seen = set()
        for ps in pss:
            loc = where(mem, ps.items[-1][1]) if ps.items[-1][1] is not None \
                else where(mem)
            if ps.term != "return":
                ctx.ob(f"{tag}/exit", False, loc, f"{hname_}: non-returning path")
                continue
            state = {}
            foreign = False
            for test, pol, val in ps.conds:
                c = _flag_cond(val, pol, flag)
                if c is None:
                    foreign = True
                else:
                    state[c[0]] = c[1]
            rv = ps.retval
            if foreign:
                ctx.ob(f"{tag}/foreign-condition", False, loc,
                       f"DependencyMapper.{hname_} branches on something other "
                       f"than self.{flag}")
                continue
            if rv == ("lit", "set", (NODE,)):
                ok = state.get("on") is True and state.get("descend") is not True
                seen.add("singleton")
                ctx.ob(f"{tag}/singleton", ok, loc,
                       f"{{expr}} exactly when self.{flag} is set" if ok else
                       f"DependencyMapper.{hname_} returns {{expr}} on a branch "
                       f"that is not 'self.{flag} is truthy (and not "
                       f"descend_args)': state {state}", {"branch": state})
            elif rv[0] == "call" and rv[1] == "self.combine":
                got = _covered_fields(rv, kinds)
                # the *name* of the called function is not a dependency; a head
                # that is not a plain variable (f(x)(y), fs[i](y)) is an
                # expression with variables of its own
                from ..summary import facts_of
                head_is_name = any(
                    pol and v[0] == "call" and v[1] == "isinstance"
                    and v[2][0] == ("field", "function")
                    and "Variable" in str(v[2][1])
                    for _, pol0, v0 in ps.conds if isinstance(v0, tuple)
                    for v, pol in facts_of(v0, pol0))
                want = set(kinds) - ({"function"} if head_is_name else set())
                ok = state.get("descend") is True and want <= got and has_descend
                seen.add("descend")
                n_descend = n_descend + 1
                ctx.ob(f"{tag}/descend-args" + (
                    "" if head_is_name else "/computed-head"), ok, loc,
                       f"descend_args covers {sorted(want)}" if ok else
                       f"DependencyMapper.{hname_}: the combine(...) exit must be "
                       f"the descend_args branch and cover {sorted(want)}; covers "
                       f"{sorted(got)} under {state}" + (
                           "" if head_is_name or "function" in got else
                           ": the call head is never visited, so for a head that "
                           "is not a plain function name the variables in it are "
                           "missing (f(x)(y) -> {y}, fs[i](x) -> {x})"),
                       {"covered": sorted(got)})
            elif rv[0] == "call" and (rv[1] == f"super.{hname_}" or (
                    rv[1].endswith(".map_common_subexpression")
                    and hname_ == "map_common_subexpression_uncached")):
                args = rv[2]
                ok = (args == (NODE,) or args == (("selfobj",), NODE)) \
                    and state.get("on") is False \
                    and state.get("descend") is not True
                fwd = all(e.fwd_args and e.fwd_kwargs for e in ps.events
                          if e.kind in ("supercall", "basecall"))
                seen.add("inherited")
                ctx.ob(f"{tag}/inherited", ok and fwd, loc,
                       "flag off: inherited covering handler, extras forwarded"
                       if ok and fwd else
                       f"DependencyMapper.{hname_}: inherited-handler exit is "
                       f"taken under {state} or drops extras")
            else:
                ctx.ob(f"{tag}/exit:{_short(rv)}", False, loc,
                       f"DependencyMapper.{hname_}: unrecognised result "
                       f"{ast.unparse(ps.items[-1][1])}")
        need = {"singleton", "inherited"} | ({"descend"} if has_descend else set())
        ctx.ob(f"{tag}/exits", need <= seen, where(mem),
               f"exits {sorted(seen)}" if need <= seen else
               f"DependencyMapper.{hname_} lacks exit(s) {sorted(need - seen)}")


def _check_flag_misc(ctx, model, dm):
    # map_variable
    mem = model.lookup(dm, "map_variable")
    ok = False
    if mem is not None and mem.kind == "func":
        pss = summarize(mem.node)
        ok = all(ps.term == "return" and ps.retval == ("lit", "set", (NODE,))
                 for ps in pss) and bool(pss)
    ctx.ob("T/DependencyMapper/map_variable", ok,
           where(mem) if mem else dm.loc(),
           "map_variable returns {expr}" if ok else
           "DependencyMapper.map_variable does not return exactly {expr}")
    # the mixin must win for map_common_subexpression
    mem = effective_member(model, dm, "map_common_subexpression")
    ok = mem is not None and mem.owner.name == "CSECachingMapperMixin"
    ctx.ob("S/DependencyMapper/cse-mixin-first", ok, dm.loc(),
           "map_common_subexpression resolves to the caching mix-in" if ok else
           "map_common_subexpression does not resolve to CSECachingMapperMixin: "
           "include_cses is bypassed")


def _judge_init(model, dm, fn):
    """the constructor interpreted for composite_leaves in (None, True,
    False): with a bool every include_* flag but include_cses becomes that
    bool, otherwise every flag is what was passed.  -> witnesses"""
    from ..absint import Interp, Obj, Opaque, Raised, StepBound, module_env
    glob = module_env(dm.module.tree, {})
    wit = []
    given = {"include_subscripts": "<S>", "include_lookups": "<L>",
             "include_calls": "descend_args", "include_cses": "<E>"}
    for cl in (None, True, False):
        me = Obj("DependencyMapper", {})
        noop = lambda it_, n_, a, k: None      # noqa: E731
        calls = {"super().__init__": noop}
        for b in dm.bases_src if hasattr(dm, "bases_src") else ():
            calls[f"{b}.__init__"] = noop
        for b in ("Collector", "CSECachingMapperMixin", "CombineMapper",
                  "Mapper", "CachedMapper"):
            calls[f"{b}.__init__"] = noop
        it = Interp(calls=calls, globals_=glob, max_steps=5000,
                    attrs=lambda it_, n_, b, at: Opaque(ast.unparse(n_)))
        try:
            it.call_function(fn, [me], dict(
                glob, __kwargs__=dict(given, composite_leaves=cl)))
        except Raised as r:
            wit.append(f"composite_leaves={cl!r}: raises at line "
                       f"{getattr(r.node, 'lineno', '?')}")
            continue
        except StepBound:
            wit.append(f"composite_leaves={cl!r}: does not terminate")
            continue
        for f, v in given.items():
            want = v if cl is None or f == "include_cses" else cl
            got = me.fields.get(f, "<unset>")
            if got != want or type(got) is not type(want):
                wit.append(f"composite_leaves={cl!r}: self.{f} ends up as "
                           f"{got!r}, expected {want!r}")
    return wit


def _check_init(ctx, model, dm):
    init = dm.members.get("__init__")
    if init is None or init.kind != "func":
        raise AnalysisError("DependencyMapper.__init__ not found")
    wit = None
    try:
        wit = _judge_init(model, dm, init.node)
    except AnalysisError as e:
        ctx.extra["judge_unavailable:DependencyMapper.__init__"] = str(e)
    if wit is not None:
        ctx.ob("T0/DependencyMapper/__init__/flag-semantics", not wit,
               where(init),
               "the constructor interpreted for composite_leaves None / True / "
               "False: a bool sets the three include_* flags, anything else "
               "leaves what was passed; include_cses is never touched"
               if not wit else "DependencyMapper.__init__: " + "; ".join(wit[:2]))
    mark = len(ctx.obs)
    try:
        _check_init_structural(ctx, model, dm, init)
    except AnalysisError:
        if wit is None or wit:
            raise
    if wit is not None and not wit:
        ctx.withdraw_failures_since(
            mark, "decided by interpreting the constructor",
            prefix="T/DependencyMapper/__init__/")


def _check_init_structural(ctx, model, dm, init):
    fn = init.node
    flags = ["include_subscripts", "include_lookups", "include_calls"]
    # the constructor is evaluated once for each value the switch can take
    # (the value is substituted for the parameter, so every spelling of the
    # tests on it -- is / ==, one if or two, or-ed -- is decided the same way)
    for case, val in (("False", ("const", False)), ("True", ("const", True)),
                      ("None", ("const", None))):
        n_paths = 0
        for ps in summarize(fn, loop_mode="1", node_param=False,
                            assume={"composite_leaves": val}):
            if ps.term == "raise":
                continue
            n_paths += 1
            final = {}
            for e in ps.events:
                if e.kind == "attrwrite" and e.arg == ("selfobj",):
                    final[e.name] = e.value
            for f in flags:
                got = final.get(f)
                exp = val if case != "None" else ("param", f)
                ctx.ob(f"T/DependencyMapper/__init__/composite={case}/{f}",
                       got == exp, where(init),
                       f"self.{f} = {_short(exp)}" if got == exp else
                       f"with composite_leaves={case}, self.{f} ends up as "
                       f"{_short(got)} instead of {_short(exp)}")
            got = final.get("include_cses")
            ctx.ob(f"T/DependencyMapper/__init__/composite={case}/include_cses",
                   got == ("param", "include_cses"), where(init),
                   "self.include_cses = include_cses")
        ctx.ob(f"T/DependencyMapper/__init__/case-{case}", n_paths > 0,
               where(init),
               f"constructor handles composite_leaves={case}" if n_paths else
               f"constructor has no path for composite_leaves={case}")


def _check_dep_coverage(ctx, model, dm):
    pairs = 0
    dedupe = set()
    fwd_done = set()
    for n, res, chain, mem in mapper_node_pairs(model, dm):
        tag = f"D4/DependencyMapper/{n.name}"
        if mem is None or mem.kind != "func":
            continue
        if res.via in ("unsupported", "foreign"):
            ok = is_raising(mem)
            ctx.ob(tag + "/unsupported", ok, where(mem),
                   "raises" if ok else
                   f"DependencyMapper silently skips {n.name}", nontrivial=False)
            continue
        if is_raising(mem):
            ctx.ob(tag + "/raises", True, where(mem), "raises", nontrivial=False)
            continue
        pairs += 1
        check_attr_existence(ctx, "X1", model, dm, n, mem, dedupe)
        if id(mem.node) not in fwd_done:
            fwd_done.add(id(mem.node))
            check_forwarding(ctx, "A", dm, mem, n)
        if mem.owner is dm and mem.node.name in FLAG_TABLE:
            continue
        if mem.owner.name == "CSECachingMapperMixin":
            continue
        kinds = child_kinds(n)
        if not kinds:
            # leaf: empty set or {expr}
            pss = summarize(mem.node)
            ok = all(ps.term == "return" and (
                ps.retval in (("call", "set", (), ()), ("lit", "set", ()),
                              ("lit", "set", (NODE,))))
                for ps in pss)
            ctx.ob(f"K/DependencyMapper/{mem.node.name}/{n.name}/leaf", ok,
                   where(mem), "leaf returns set() or {expr}" if ok else
                   f"{hname(mem)} on leaf {n.name} returns something else")
            continue
        check_combine_handler(ctx, "K", model, dm, n, mem)
    ctx.floor("DependencyMapper (mapper, node) pairs", pairs, 30)
    # map_slice filter is exactly "is not None"
    mem = model.lookup(dm, "map_slice")
    if mem is not None and mem.kind == "func":
        comps = [c for c in ast.walk(mem.node) if isinstance(c, ast.comprehension)]
        ok = all(len(c.ifs) <= 1 and all(
            isinstance(t, ast.Compare) and isinstance(t.ops[0], ast.IsNot)
            and isinstance(t.comparators[0], ast.Constant)
            and t.comparators[0].value is None for t in c.ifs) for c in comps)
        ctx.ob("K/DependencyMapper/map_slice/filter", ok and bool(comps),
               where(mem), "skips only None entries" if ok else
               "DependencyMapper.map_slice filters more than the None entries")
    # Collector.combine is a set union starting from an empty set
    coll = model.cls(f"{M}:Collector")
    mem = model.lookup(dm, "combine")
    ok = False
    if mem is not None and mem.kind == "func":
        alias = combine_result_is_fresh(ctx, model, dm)
        verdict = _is_union_of_all(mem.node) if alias is None else False
        if verdict is None:
            raise AnalysisError("Collector.combine: the way the child results "
                                "are joined is not one the checker can read")
        ok = verdict
    ctx.ob("K/DependencyMapper/combine", ok, where(mem) if mem else dm.loc(),
           "combine = union of all child results" if ok else
           "combine is not reduce(operator.or_, values, set())")


def combine_result_is_fresh(ctx, model, dm):
    """shared with C05: a memoizing collector hands out the stored set itself"""
    mem = model.lookup(dm, "combine")
    if mem is None or mem.kind != "func":
        raise AnalysisError("DependencyMapper.combine not found")
    alias = _grows_a_child_result(mem.node)
    ctx.ob("O/DependencyMapper/combine/result-is-fresh", alias is None,
           where(mem), "the union is built in a set of its own" if alias is
           None else
           f"combine updates '{alias}' in place, and '{alias}' is one of the "
           "child results it was handed: that set may be stored (the "
           "look-aside cache of the cached variant, the wrapper cache of "
           "the CSE mix-in), so a later query of the same sub-expression "
           "reports its siblings' variables too: m(x + y); m(x) -> {x, y}")
    return alias


def _grows_a_child_result(fn):
    """name of a local that (may) alias an element of the values handed in and
    is updated in place, or None"""
    params = [a.arg for a in fn.args.args]
    if len(params) < 2:
        return None
    derived = {params[1]}
    fresh_calls = ("set", "frozenset", "list", "dict", "copy", "sorted")
    for _ in range(4):
        for st in ast.walk(fn):
            tg = None
            if isinstance(st, ast.Assign) and len(st.targets) == 1:
                tg, val = st.targets[0], st.value
            elif isinstance(st, ast.For):
                tg, val = st.target, st.iter
            if tg is None:
                continue
            if isinstance(val, ast.Call) and ast.unparse(val.func).split(".")[-1] \
                    in fresh_calls:
                continue        # a copy is a new object
            if isinstance(val, ast.BinOp):
                continue        # a | b builds a new set
            if any(isinstance(x, ast.Name) and x.id in derived
                   for x in ast.walk(val)):
                for x in ast.walk(tg):
                    if isinstance(x, ast.Name):
                        derived.add(x.id)
    # reduce(<in-place operator>, values[, start]): the accumulator is the
    # first value handed in unless a fresh start is given
    for st in ast.walk(fn):
        if isinstance(st, ast.Call) and ast.unparse(st.func).split(".")[-1] == \
                "reduce" and len(st.args) >= 2:
            op = ast.unparse(st.args[0]).split(".")[-1]
            if op in ("ior", "__ior__", "iand", "__iand__", "iadd", "__iadd__"):
                start = st.args[2] if len(st.args) > 2 else None
                fresh = isinstance(start, ast.Call) and ast.unparse(
                    start.func).split(".")[-1] in fresh_calls or isinstance(
                    start, (ast.Set, ast.List, ast.Dict))
                if not fresh and any(isinstance(x, ast.Name) and x.id in derived
                                     for x in ast.walk(st.args[1])):
                    return f"the first of {ast.unparse(st.args[1])}"
    for st in ast.walk(fn):
        if isinstance(st, ast.AugAssign) and isinstance(st.target, ast.Name) \
                and st.target.id in derived and st.target.id != params[1]:
            return st.target.id
        if isinstance(st, ast.Call) and isinstance(st.func, ast.Attribute) and \
                st.func.attr in ("update", "add", "intersection_update",
                                 "difference_update") and isinstance(
                                     st.func.value, ast.Name) and \
                st.func.value.id in derived:
            return st.func.value.id
    return None


def _is_union_of_all(fn):
    """does fn(self, values) return the union of all of values, starting from an
    empty set?  True / False (recognised but something else) / None (unknown)"""
    params = [a.arg for a in fn.args.args]
    if len(params) < 2:
        return None
    vals = params[1]
    U = lambda n: ast.unparse(n).replace(" ", "")     # noqa: E731
    empty = ("set()", "frozenset()")
    rets = [st for st in ast.walk(fn) if isinstance(st, ast.Return)]
    if len(rets) != 1 or rets[0].value is None:
        return None
    rv = rets[0].value
    if isinstance(rv, ast.Call) and U(rv.func) in ("reduce", "functools.reduce"):
        a = rv.args
        if len(a) < 2 or U(a[1]) != vals:
            return None
        op = U(a[0])
        union_ops = ("operator.or_", "or_", "set.union", "frozenset.union",
                     "lambdaa,b:a|b", "lambdax,y:x|y")
        if op in ("operator.and_", "and_", "set.intersection",
                  "operator.sub", "operator.xor", "set.difference"):
            return False
        if op not in union_ops:
            return None
        if len(a) < 3:
            return False        # no start value: fails on a node without children
        return U(a[2]) in empty
    if isinstance(rv, ast.Call) and isinstance(rv.func, ast.Attribute) and \
            rv.func.attr == "union" and U(rv.func.value) in empty and \
            len(rv.args) == 1 and isinstance(rv.args[0], ast.Starred) and \
            U(rv.args[0].value) == vals:
        return True
    if isinstance(rv, ast.Name):
        acc = rv.id
        init = [st for st in fn.body if isinstance(st, ast.Assign)
                and U(st.targets[0]) == acc]
        loops = [st for st in fn.body if isinstance(st, ast.For)
                 and U(st.iter) == vals and isinstance(st.target, ast.Name)]
        if len(init) == 1 and U(init[0].value) in empty and len(loops) == 1 \
                and len(loops[0].body) == 1:
            x = loops[0].target.id
            b = U(loops[0].body[0])
            if b in (f"{acc}|={x}", f"{acc}.update({x})", f"{acc}={acc}|{x}",
                     f"{acc}={acc}.union({x})"):
                return True
            if b in (f"{acc}&={x}", f"{acc}={x}"):
                return False
    return None


def _check_cached_dep(ctx, model, dm, cdm):
    own = [m for m in cdm.members if m.startswith("map_") or m in
           ("rec", "__call__", "get_cache_key", "combine")]
    ctx.ob("S/CachedDependencyMapper/no-own-handlers", not own, cdm.loc(),
           "adds no handlers" if not own else
           f"CachedDependencyMapper defines {own}")
    diffs = [s for s, mem in model.slots(dm).items()
             if (model.lookup(cdm, s) is None) or
             model.lookup(cdm, s).node is not mem.node]
    ctx.ob("S/CachedDependencyMapper/same-handlers", not diffs, cdm.loc(),
           "handlers identical to DependencyMapper" if not diffs else
           f"handlers {diffs} resolve differently")
    callm = model.lookup(cdm, "__call__")
    ok = callm is not None and callm.owner.name == "CachedMapper"
    ctx.ob("S/CachedDependencyMapper/dispatch", ok, cdm.loc(),
           "dispatch through CachedMapper")
    init = cdm.members.get("__init__")
    ok = False
    if init is not None and init.kind == "func":
        names = ["include_subscripts", "include_lookups", "include_calls",
                 "include_cses", "composite_leaves"]
        for c in ast.walk(init.node):
            if isinstance(c, ast.Call) and ast.unparse(c.func) == \
                    "DependencyMapper.__init__":
                kws = {k.arg: ast.unparse(k.value) for k in c.keywords}
                # positional arguments bind in the order of the base
                # constructor's own parameter list (after self)
                binit = dm.members.get("__init__")
                bparams = [a.arg for a in binit.node.args.args][1:] \
                    if binit is not None and binit.kind == "func" else []
                for prm, a_ in zip(bparams, c.args[1:]):
                    if not isinstance(a_, ast.Starred):
                        kws.setdefault(prm, ast.unparse(a_))
                ok = all(kws.get(nm) == nm for nm in names)
    ctx.ob("S/CachedDependencyMapper/init-passes-flags", ok, cdm.loc(),
           "constructor passes every flag through unchanged" if ok else
           "CachedDependencyMapper.__init__ does not pass every flag through "
           "to DependencyMapper.__init__ under its own name")


# ---------------------------------------------------------------------------

def _check_node_count(ctx, model):
    ncm = model.cls("pymbolic.mapper.analysis:NodeCountMapper")
    cw = model.cls(f"{M}:CachedWalkMapper")
    ok = model.is_subclass(ncm, cw)
    ctx.ob("S/NodeCountMapper/base", ok, ncm.loc(),
           "is a CachedWalkMapper" if ok else
           "NodeCountMapper is no longer a cached walk: shared nodes are counted "
           "once per occurrence")
    # members that could change what is visited or memoized (a __call__ that
    # merely wraps the inherited entry point does not)
    from ..rules import call_wrapper_result
    own = sorted(m for m in ncm.members if not m.startswith("__doc"))
    extra = [m for m in own if m.startswith("map_") or m in (
        "visit", "rec", "rec_fallback", "get_cache_key", "map_foreign")]
    wrapper_returns = None
    if "__call__" in ncm.members:
        wrapper_returns = call_wrapper_result(ncm.members["__call__"])
        if wrapper_returns is None:
            extra.append("__call__")
    ctx.ob("S/NodeCountMapper/members", not extra, ncm.loc(),
           "does not override the traversal" if not extra else
           f"NodeCountMapper overrides {extra}")
    pv = ncm.members.get("post_visit")
    ok = False
    if pv is not None and pv.kind == "func":
        pss = summarize(pv.node)
        ok = bool(pss)
        for ps in pss:
            ws = [e for e in ps.events if e.kind == "attrwrite"]
            ok = ok and len(ws) == 1 and ws[0].name == "count" and \
                ws[0].value[0] == "binop" and ws[0].value[1] == "Add" and \
                ("const", 1) in (ws[0].value[2], ws[0].value[3]) and \
                not ps.conds
    ctx.ob("P/NodeCountMapper/post_visit", ok, ncm.loc(),
           "post_visit adds exactly 1, unconditionally" if ok else
           "NodeCountMapper.post_visit is not an unconditional 'count += 1'")
    init = ncm.members.get("__init__")
    ok = False
    if init is not None and init.kind == "func":
        for ps in summarize(init.node, node_param=False):
            ws = {e.name: e.value for e in ps.events if e.kind == "attrwrite"}
            base_init = any(e.kind in ("supercall", "call", "basecall")
                            and e.name.endswith("__init__") for e in ps.events)
            ok = ws.get("count") == ("const", 0) and base_init
    ctx.ob("P/NodeCountMapper/init", ok, ncm.loc(),
           "starts at 0 and initialises the cache" if ok else
           "NodeCountMapper.__init__ does not start at 0 / initialise the cache")
    # walk coverage of the handlers it inherits
    walk = model.cls(f"{M}:WalkMapper")
    pairs = 0
    for n, res, chain, mem in mapper_node_pairs(model, ncm):
        if mem is None or mem.kind != "func" or is_raising(mem) \
                or res.via in ("unsupported", "foreign"):
            continue
        pairs += 1
        check_walk_handler(ctx, "W", model, ncm, n, mem)
    ctx.floor("NodeCountMapper (mapper, node) pairs", pairs, 30)
    # get_num_nodes
    m, fn = model.func("pymbolic.mapper.analysis:get_num_nodes")
    gwit = None
    try:
        gwit = _judge_get_num_nodes(m, fn)
    except AnalysisError as e:
        ctx.extra["judge_unavailable:get_num_nodes"] = str(e)
    if gwit is not None:
        ctx.ob("P0/get_num_nodes/fresh-counter", not gwit, m.loc(fn),
               "get_num_nodes interpreted: one counter is made in the call, "
               "applied to the expression, and its count read afterwards is "
               "the answer" if not gwit else "get_num_nodes: " + "; ".join(gwit))
    if gwit is not None and not gwit:
        return
    ok = False
    for ps in summarize(fn, plain=True):
        if ps.term != "return":
            continue
        fresh = ("call", "NodeCountMapper", (), ())
        applied = any(e.kind == "call" and e.value == fresh
                      and e.args == (("param", fn.args.args[0].arg),)
                      for e in ps.events)
        ok = ps.retval == ("attr", fresh, "count") and applied
        # ... or the mapper's own entry point returns its count
        if not ok and wrapper_returns == {("self", "count")}:
            rv = ps.retval
            ok = isinstance(rv, tuple) and rv[0] == "call" and len(rv) >= 5 \
                and rv[4] == fresh and rv[2] == (("param", fn.args.args[0].arg),)
    ctx.ob("P/get_num_nodes", ok, m.loc(fn), "fresh mapper, returns its count"
           if ok else "get_num_nodes does not return a fresh mapper's count after "
           "applying it to the expression")


# ---------------------------------------------------------------------------

def _add_terms(v):
    """flatten a tree of binop Add into its terms"""
    if isinstance(v, tuple) and v and v[0] == "binop" and v[1] == "Add":
        return _add_terms(v[2]) + _add_terms(v[3])
    return [v]


def _judge_get_num_nodes(m, fn):
    from ..absint import Interp, Opaque, Raised, StepBound, module_env
    glob = module_env(m.tree, {})
    made = []

    class Counter:
        def __init__(self):
            self.applied = []

        def __call__(self, *a, **k):
            self.applied.append((a, k))
            return ("count-of", self, len(self.applied))

        rec = __call__

    def make(it, nd, a, k):
        if a or k:
            raise AnalysisError("NodeCountMapper(...) with arguments")
        made.append(Counter())
        return made[-1]

    def attrs(it, nd, base, attr):
        if isinstance(base, Counter) and attr == "count":
            return ("count-of", base, len(base.applied))
        if isinstance(base, Counter) and attr in ("rec", "__call__"):
            return base
        return Opaque(ast.unparse(nd))
    it = Interp(calls={"NodeCountMapper": make}, attrs=attrs, globals_=glob,
                max_steps=2000)
    try:
        got = it.call_function(fn, ["EXPR"], dict(glob))
    except Raised as r:
        return [f"raises at line {getattr(r.node, 'lineno', '?')}"]
    except StepBound:
        return ["does not terminate"]
    if len(made) != 1:
        return [f"{len(made)} counters are made in one call"]
    c = made[0]
    if c.applied != [(("EXPR",), {})]:
        return [f"the counter is applied to {c.applied!r}, not once to the "
                "expression"]
    if got != ("count-of", c, 1):
        return [f"answers {got!r}, not the counter's count after the walk"]
    return []


def _judge_cse_aware(model, cse, mem):
    from ..absint import Interp, Obj, Opaque, Poly, Raised, StepBound, module_env
    glob = module_env(cse.module.tree, {})

    class W:
        """a wrapper node: hashable, equal to itself only"""

        def __init__(self, name):
            self.name = name
            self.child = ("child-of", name)

        def __repr__(self):
            return f"<cse {self.name}>"
    wit = []
    for hist in (["a", "a"], ["a", "b", "a", "b"], ["a", "a", "a"]):
        ws = {nm: W(nm) for nm in set(hist)}
        recs = []

        def rec(*a, _r=recs, **k):
            _r.append(a[0])
            return Poly.sym(f"c_{a[0][1]}")
        me = Obj("__cse_counter__", {"cse_seen_set": set(), "rec": rec})
        it = Interp(calls={"self.rec": lambda it_, n_, a, k: rec(*a, **k)},
                    globals_=glob, max_steps=5000,
                    attrs=lambda it_, n_, b, at: (
                        getattr(b, at) if isinstance(b, W) and at in (
                            "child",) else Opaque(ast.unparse(n_))))
        seen = set()
        for i, nm in enumerate(hist):
            before = len(recs)
            try:
                got = it.call_function(mem.node, [me, ws[nm]], dict(glob))
            except Raised as r:
                wit.append(f"history {hist}, request {i + 1}: raises at line "
                           f"{getattr(r.node, 'lineno', '?')}")
                break
            except StepBound:
                wit.append(f"history {hist}: does not terminate")
                break
            if nm in seen:
                if got != 0 or len(recs) != before:
                    wit.append(f"history {hist}, request {i + 1} (seen "
                               f"before): costs {got!r}"
                               + (", child recounted" if len(recs) != before
                                  else ""))
                    break
            else:
                want = Poly.sym(f"c_{nm}")
                if not isinstance(got, Poly) or got != want or \
                        recs[before:] != [("child-of", nm)]:
                    wit.append(f"history {hist}, request {i + 1} (first "
                               f"sight): costs {got!r}, expected the child's")
                    break
            seen.add(nm)
    return wit


def _judge_flops(model, base):
    """the arithmetic handlers of the flop counter interpreted with symbolic
    child costs: a sum / product of n operands costs max(n - 1, 0) plus its
    operands, a quotient / floor division / power 1 plus its two operands.
    -> witnesses"""
    from ..absint import Interp, Obj, Opaque, Poly, Raised, StepBound, module_env
    glob = module_env(base.module.tree, {})
    wit = []

    def resolve(cls, nm):
        if cls == "__counter__" and nm not in ("rec", "__call__",
                                                "rec_fallback"):
            m_ = model.lookup(base, nm)
            if m_ is not None and m_.kind == "func":
                return ("func", m_.node)
        return None

    class Kid:
        def __init__(self, name):
            self.name = name

    def rec(it, nd, a, k):
        if not isinstance(a[0], Kid):
            raise AnalysisError("flop judge: rec of something that is not a "
                                "child")
        return Poly.sym(f"c_{a[0].name}")
    cases = []
    for slot, cls in (("map_sum", "Sum"), ("map_product", "Product")):
        for n in range(0, 4):
            kids = tuple(Kid(f"k{i}") for i in range(n))
            want = Poly.const(max(n - 1, 0))
            for kd in kids:
                want = want + Poly.sym(f"c_{kd.name}")
            cases.append((slot, f"{n} operands",
                          Obj(cls, {"children": kids}), want))
    for slot, cls, fa, fb in (("map_quotient", "Quotient", "numerator",
                               "denominator"),
                              ("map_floor_div", "FloorDiv", "numerator",
                               "denominator"),
                              ("map_power", "Power", "base", "exponent")):
        a, b = Kid("a"), Kid("b")
        cases.append((slot, "", Obj(cls, {fa: a, fb: b}),
                      Poly.const(1) + Poly.sym("c_a") + Poly.sym("c_b")))
    for slot, label, node, want in cases:
        mem = model.lookup(base, slot)
        if mem is None or mem.kind != "func":
            raise AnalysisError(f"FlopCounterBase.{slot} not found")
        me = Obj("__counter__", {
            "rec": lambda *a_, **k_: rec(None, None, list(a_), k_)})
        it = Interp(calls={"self.rec": rec, "self": rec}, resolve=resolve,
                    globals_=glob, max_steps=20000,
                    attrs=lambda it_, n_, b, at: (
                        (lambda *a_, **k_: rec(it_, n_, list(a_), k_))
                        if isinstance(b, Obj) and b.cls == "__counter__"
                        and at == "rec" else Opaque(ast.unparse(n_))))
        try:
            got = it.call_function(mem.node, [me, node], dict(glob))
        except Raised as r:
            wit.append(f"{slot} {label}: raises at line "
                       f"{getattr(r.node, 'lineno', '?')}")
            continue
        except StepBound:
            wit.append(f"{slot} {label}: does not terminate")
            continue
        if not isinstance(got, (Poly, int)) or isinstance(got, bool) or \
                Poly.lift(got) != want:
            wit.append(f"{slot} {label}: costs {got!r}, expected {want!r}")
    return wit


def _check_flops(ctx, model):
    FC = "pymbolic.mapper.flop_counter"
    base = model.cls(f"{FC}:FlopCounterBase")
    fwit = None
    try:
        fwit = _judge_flops(model, base)
    except AnalysisError as e:
        ctx.extra["judge_unavailable:FlopCounterBase"] = str(e)
    if fwit is not None:
        ctx.ob("E0/FlopCounterBase/cost-semantics", not fwit, base.loc(),
               "sum / product (0..3 operands), quotient, floor division and "
               "power interpreted with symbolic operand costs: n-1 (or 1) "
               "operations plus the operands'" if not fwit else
               "FlopCounterBase: " + "; ".join(fwit[:2]))
    mark = len(ctx.obs)
    try:
        _check_flops_structural(ctx, model)
    except AnalysisError:
        if fwit is None or fwit:
            raise
    if fwit is not None and not fwit:
        ctx.withdraw_failures_since(
            mark, "decided by interpreting the handlers with symbolic costs",
            prefix="E/FlopCounterBase/map_")


def _check_flops_structural(ctx, model):
    FC = "pymbolic.mapper.flop_counter"
    base = model.cls(f"{FC}:FlopCounterBase")
    nt = model.nodes

    def handler(name):
        mem = model.lookup(base, name)
        if mem is None or mem.kind != "func":
            raise AnalysisError(f"FlopCounterBase.{name} not found")
        return mem

    # combine = sum
    mem = handler("combine")
    from ..rules import sole_result
    ok = sole_result(mem.node, node_param=False) == (
        "call", "sum", (("param", mem.node.args.args[1].arg),), ())
    ctx.ob("E/FlopCounterBase/combine", ok, where(mem),
           "combine sums the children" if ok else
           "FlopCounterBase.combine is not sum(values)")
    for leaf in ("map_constant", "map_variable"):
        mem = handler(leaf)
        pss = summarize(mem.node)
        ok = all(ps.retval == ("const", 0) for ps in pss)
        ctx.ob(f"E/FlopCounterBase/{leaf}", ok, where(mem),
               "leaf costs 0" if ok else f"{leaf} does not return 0")
    # n-ary: len(children) - 1 + sum(rec(ch) for ch in children)
    for slot, ncls in (("map_sum", "Sum"), ("map_product", "Product")):
        mem = handler(slot)
        n = nt.get(ncls)
        pss = handler_summaries(model, n, mem.node)
        good_nonempty = good_empty = False
        for ps in pss:
            if ps.term != "return":
                continue
            rv = ps.retval
            nonempty = any(val == ("field", "children") and pol
                           for _, pol, val in ps.conds)
            terms = _add_terms(rv)
            if rv == ("const", 0) and not nonempty:
                good_empty = True
                continue
            has_count = ("binop", "Sub", ("len", ("field", "children")),
                         ("const", 1)) in terms
            has_sum = any(
                t[0] == "call" and t[1] == "sum" and t[2] and t[2][0][0] == "seq"
                and t[2][0][2][0] == "rec"
                and t[2][0][2][1] == ("elem", ("field", "children"))
                and t[2][0][3] == ("field", "children") and not t[2][0][4]
                for t in terms)
            if has_count and has_sum and len(terms) == 2:
                good_nonempty = True
            else:
                ctx.ob(f"E/FlopCounterBase/{slot}/formula", False,
                       where(mem, ps.items[-1][1]),
                       f"{slot}: cost is not len(children) - 1 + sum of the "
                       f"children's costs: {ast.unparse(ps.items[-1][1])}")
        ctx.ob(f"E/FlopCounterBase/{slot}/formula", good_nonempty, where(mem),
               "n-1 operations plus the children's" if good_nonempty else
               f"{slot} lacks the n-1 + children formula")
    # binary: 1 + rec(a) + rec(b)
    for slot, ncls, fa, fb in (("map_quotient", "Quotient", "numerator",
                                "denominator"),
                               ("map_floor_div", "FloorDiv", "numerator",
                                "denominator"),
                               ("map_power", "Power", "base", "exponent")):
        mem = handler(slot)
        n = nt.get(ncls)
        pss = handler_summaries(model, n, mem.node)
        ok = bool(pss)
        for ps in pss:
            terms = _add_terms(ps.retval) if ps.term == "return" else []
            want = sorted([("const", 1), ("rec", ("field", fa)),
                           ("rec", ("field", fb))], key=str)
            got = sorted([t[:2] if t[0] == "rec" else t for t in terms], key=str)
            if got != want:
                ok = False
        ctx.ob(f"E/FlopCounterBase/{slot}/formula", ok, where(mem),
               f"1 + cost({fa}) + cost({fb})" if ok else
               f"FlopCounterBase.{slot} is not 1 + cost({fa}) + cost({fb})")
    # everything else: children summed through CombineMapper handlers
    pairs = 0
    for n, res, chain, mem in mapper_node_pairs(model, base):
        if mem is None or mem.kind != "func" or is_raising(mem) \
                or res.via in ("unsupported", "foreign") or mem.owner is base:
            continue
        if not child_kinds(n):
            continue
        pairs += 1
        check_combine_handler(ctx, "K", model, base, n, mem)
    ctx.floor("FlopCounterBase inherited pairs", pairs, 12)
    # cached variant
    fc = model.cls(f"{FC}:FlopCounter")
    callm = model.lookup(fc, "__call__")
    own = [m for m in fc.members if m.startswith("map_")]
    ok = callm is not None and callm.owner.name == "CachedMapper" and not own
    ctx.ob("S/FlopCounter/mro", ok, fc.loc(),
           "FlopCounter = CachedMapper dispatch + FlopCounterBase handlers"
           if ok else "FlopCounter does not dispatch through CachedMapper or adds "
           "handlers")
    # CSE-aware
    cse = model.cls(f"{FC}:CSEAwareFlopCounter")
    mem = effective_member(model, cse, "map_common_subexpression")
    ok_all = mem is not None and mem.kind == "func" and mem.owner is cse
    cwit = None
    if ok_all:
        try:
            cwit = _judge_cse_aware(model, cse, mem)
        except AnalysisError as e:
            ctx.extra["judge_unavailable:CSEAwareFlopCounter"] = str(e)
        if cwit is not None:
            ctx.ob("P0/CSEAwareFlopCounter/history-semantics", not cwit,
                   where(mem),
                   "map_common_subexpression interpreted over request "
                   "histories on one counter: the first sight of a wrapper "
                   "costs its child, every later one 0 without recounting, "
                   "another wrapper is counted on its own" if not cwit else
                   "CSEAwareFlopCounter.map_common_subexpression: "
                   + "; ".join(cwit[:2]))
    mark_cse = len(ctx.obs)
    if ok_all:
        n = nt.get("CommonSubexpression")
        pss = handler_summaries(model, n, mem.node)
        seen_branch = new_branch = False
        for ps in pss:
            member = None
            for test, pol, val in ps.conds:
                if isinstance(val, tuple) and val[0] == "compare" \
                        and val[2] == NODE and val[3][0] == ("self", "cse_seen_set"):
                    if val[1] == ("In",):
                        member = pol
                    elif val[1] == ("NotIn",):
                        member = not pol
            adds = [e for e in ps.events if e.kind == "selfattrcall"
                    and e.name == "add" and e.value == ("self", "cse_seen_set")
                    and e.arg == NODE]
            if member is True:
                ok = ps.retval == ("const", 0) and not adds and not any(
                    e.kind == "rec" for e in ps.events)
                seen_branch = True
                ctx.ob("P/CSEAwareFlopCounter/seen", ok, where(mem),
                       "already seen: costs 0, nothing recounted" if ok else
                       "a CSE that was already seen is counted again")
            elif member is False:
                ok = len(adds) == 1 and ps.retval[0] == "rec" \
                    and ps.retval[1] == ("field", "child")
                new_branch = True
                ctx.ob("P/CSEAwareFlopCounter/new", ok, where(mem),
                       "first sight: recorded, child counted" if ok else
                       "a new CSE is not recorded in cse_seen_set or its child "
                       "is not counted")
            else:
                ctx.ob("P/CSEAwareFlopCounter/untested", False, where(mem),
                       "a path through map_common_subexpression does not test "
                       "membership in cse_seen_set first")
        ok_all = seen_branch and new_branch
    ctx.ob("P/CSEAwareFlopCounter/branches", ok_all, cse.loc(),
           "membership test with both branches" if ok_all else
           "CSEAwareFlopCounter.map_common_subexpression lacks the "
           "seen/new branches")
    if cwit is not None and not cwit:
        ctx.withdraw_failures_since(
            mark_cse, "decided by interpreting the handler over request "
            "histories", prefix="P/CSEAwareFlopCounter/")
