"""C08 -- substitution commutes with evaluation (structural half)."""
from __future__ import annotations

import ast

from .. import AnalysisError
from .. import cfg
from ..rules import (check_attr_existence, check_forwarding,
                     check_identity_handler, hname, is_raising,
                     mapper_node_pairs, where)
from ..summary import NODE, Evaluator, contains, signature, summarize

SUB = "pymbolic.mapper.substitutor"


def run(ctx):
    model = ctx.model
    ctx.decide("interceptors (Variable, Subscript, Lookup) return the "
               "replacement without re-substituting it; no-replacement path "
               "returns the node / the inherited identity traversal")
    ctx.decide("every other node class is rebuilt by an identity handler that "
               "covers all children and returns the same object when nothing "
               "changed (rule F on SubstitutionMapper's resolved handlers)")
    ctx.decide("make_subst_func looks up the node, then the name only for "
               "Variables, else None; substitute() copies the caller's mapping "
               "before mutating it; cached variant adds no handlers")
    ctx.decline("the value equation itself (follows with C02 by induction)")
    ctx.assume("the user-supplied subst_func is a pure function of the node")

    sm = model.cls(f"{SUB}:SubstitutionMapper")
    csm = model.cls(f"{SUB}:CachedSubstitutionMapper")

    # 1. interceptors ------------------------------------------------------
    own = sorted(model.own_slots(sm))
    want = ["map_lookup", "map_subscript", "map_variable"]
    # (further interceptors are fine as long as each has the interceptor shape,
    # judged below: for maps whose keys are variables, subscripts and look-ups
    # the substitution function answers None for every other node)
    missing = sorted(set(want) - set(own))
    ctx.ob("O/SubstitutionMapper/interceptors", not missing, sm.loc(),
           f"intercepts {own}" if not missing else
           f"SubstitutionMapper no longer intercepts {missing}: keys of that "
           "kind are silently ignored", {"own": own})
    for name in own:
        mem = model.lookup(sm, name)
        if mem is None or mem.kind != "func":
            ctx.ob(f"F/SubstitutionMapper/{name}/is-function", False, sm.loc(),
                   f"{name} is not a function")
            continue
        _check_interceptor(ctx, model, sm, name, mem)

    # 2. all other nodes: identity handlers ---------------------------------
    pairs = 0
    for n, res, chain, mem in mapper_node_pairs(model, sm):
        if mem is None or mem.kind != "func":
            continue
        if mem.owner is sm:
            # the interceptor falls back to the inherited identity handler of
            # the same name: that one must cover the node
            ident = model.cls("pymbolic.mapper:IdentityMapper")
            imem = model.lookup(ident, mem.node.name)
            if imem is not None and imem.kind == "func" and not is_raising(imem) \
                    and n.name != "Variable":
                pairs += 1
                check_identity_handler(ctx, "F", model, sm, n, imem)
            continue
        if res.via in ("unsupported", "foreign") or is_raising(mem):
            continue
        pairs += 1
        check_identity_handler(ctx, "F", model, sm, n, mem)
    ctx.floor("SubstitutionMapper inherited (mapper, node) pairs", pairs, 30)

    # 3. make_subst_func -------------------------------------------------------
    _check_make_subst_func(ctx, model)

    # 4. substitute ------------------------------------------------------------
    _check_substitute(ctx, model)

    # 5. cached variant ----------------------------------------------------------
    own_c = [m for m in csm.members if m.startswith("map_") or m in (
        "rec", "__call__", "get_cache_key")]
    ctx.ob("S/CachedSubstitutionMapper/no-own-handlers", not own_c, csm.loc(),
           "adds no handlers" if not own_c else
           f"CachedSubstitutionMapper defines {own_c} of its own")
    diffs = []
    for slot, mem in model.slots(sm).items():
        mem2 = model.lookup(csm, slot)
        if mem2 is None or mem is None or mem2.node is not mem.node:
            diffs.append(slot)
    ctx.ob("S/CachedSubstitutionMapper/same-handlers", not diffs, csm.loc(),
           "every handler resolves to the one SubstitutionMapper uses"
           if not diffs else
           f"handlers {diffs} resolve differently in the cached variant (MRO "
           "puts another base first)", {"differs": diffs})
    callm = model.lookup(csm, "__call__")
    recm = model.lookup(csm, "rec")
    ok = callm is not None and callm.owner.name == "CachedMapper" \
        and recm is not None and recm.owner.name == "CachedMapper"
    ctx.ob("S/CachedSubstitutionMapper/dispatch", ok, csm.loc(),
           "dispatch is CachedMapper's" if ok else
           "CachedSubstitutionMapper does not dispatch through CachedMapper")
    # ... so "the plain and the memoizing mapper give equal results" rests on
    # the rule instances about CachedMapper's key (C05)
    from .c05 import _cache_key
    _cache_key(ctx, model, scope=[csm])
    # its __init__ initialises both bases
    from ..rules import init_effects
    eff = init_effects(model, csm)
    sm_eff = init_effects(model, model.cls(
        "pymbolic.mapper.substitutor:SubstitutionMapper"))
    need = [a for a, v in sm_eff.items() if v[0] == "param"]
    ok = "_cache" in eff and bool(need) and all(
        eff.get(a, ("", ""))[0] == "param" for a in need)
    ctx.ob("S/CachedSubstitutionMapper/init", ok, csm.loc(),
           "initialises the cache and the substitution function" if ok else
           "CachedSubstitutionMapper.__init__ does not initialise both bases "
           "with the same subst_func")


def _lookup_wrappers(model, sm):
    """private methods that only pass the node on to subst_func: every
    returning path gives subst_func(<its parameter>) or None"""
    out = set()
    for k in model.mro(sm):
        if not hasattr(k, "members"):
            continue
        for nm, mem in k.members.items():
            if mem.kind != "func" or not nm.startswith("_") or \
                    nm.startswith("__") or len(mem.node.args.args) != 2:
                continue
            p = ("param", mem.node.args.args[1].arg)
            rets = [ps.retval for ps in summarize(mem.node, plain=True)
                    if ps.term == "return"]
            others = [ps for ps in summarize(mem.node, plain=True)
                      if ps.term != "return"]
            if rets and not others and all(
                    r == ("const", None) or (
                        isinstance(r, tuple) and r[0] == "call"
                        and r[1] == "self.subst_func" and r[2] == (p,))
                    for r in rets) and any(r != ("const", None) for r in rets):
                out.add(nm)
    return out


def _check_interceptor(ctx, model, sm, name, mem):
    """the interpretive judge (pv/idjudge.py) for every node class the
    handler serves, then the structural reading of its paths"""
    from .. import idjudge
    from ..rules import child_kinds
    jwit = []
    judged = 0
    try:
        for n in model.nodes.all():
            if n.mapper_method != name or n.legacy:
                continue
            w_, _ = idjudge.judge_interceptor(model, sm, n, model.inlined(
                mem.node), child_kinds(n))
            jwit += w_
            judged += 1
    except AnalysisError as e:
        jwit = None
        ctx.extra.setdefault("judge_unavailable:interceptors", []).append(
            f"{name}: {str(e)[:90]}")
    if jwit is not None and judged:
        ctx.ob(f"F0/SubstitutionMapper/{name}/interceptor-semantics", not jwit,
               where(mem),
               f"SubstitutionMapper.{name} interpreted: a replacement comes back "
               "as it is and is not substituted again; without one the node is "
               "traversed like the identity mapper does" if not jwit else
               f"SubstitutionMapper.{name}: " + "; ".join(jwit[:2]))
    mark = len(ctx.obs)
    try:
        _check_interceptor_structural(ctx, model, sm, name, mem)
    except AnalysisError:
        if jwit is None or jwit or not judged:
            raise
    if jwit is not None and not jwit and judged:
        ctx.withdraw_failures_since(
            mark, "decided by interpreting the handler",
            f"F/SubstitutionMapper/{name}/")


def _check_interceptor_structural(ctx, model, sm, name, mem):
    fn = mem.node
    tag = f"F/SubstitutionMapper/{name}"
    pss = summarize(fn, loop_mode="1")
    saw_repl = saw_fallback = False
    lookups = {"self.subst_func"} | {f"self.{w}"
                                     for w in _lookup_wrappers(model, sm)}
    for ps in pss:
        loc = where(mem, ps.items[-1][1]) if ps.items[-1][1] is not None \
            else where(mem)
        if ps.term != "return":
            ctx.ob(f"{tag}/exit", False, loc,
                   f"SubstitutionMapper.{name} has a path that does not return "
                   "an expression")
            continue
        rv = ps.retval
        is_subst_call = rv[0] == "call" and rv[1] in lookups \
            and rv[2] == (NODE,)
        if is_subst_call:
            # must be on the "is not None" side
            guarded = any(_is_not_none_test(v, pol, rv) for _, pol, v in ps.conds)
            saw_repl = True
            ctx.ob(f"{tag}/replacement", guarded, loc,
                   "replacement returned as is, under 'is not None'" if guarded
                   else f"SubstitutionMapper.{name} returns subst_func's result "
                   "without testing it against None")
            continue
        if contains(rv, lambda t: t[0] == "call" and t[1] in lookups):
            ctx.ob(f"{tag}/replacement", False, loc,
                   f"SubstitutionMapper.{name}: the replacement passes through "
                   f"further processing ({ast.unparse(ps.items[-1][1])}) -- "
                   "inserted replacements must not be substituted again")
            saw_repl = True
            continue
        # fallback path
        none_side = any(_is_none_side(v, pol, lookups) for _, pol, v in ps.conds)
        # (the look-up failed -- an unhashable node cannot have been a key --
        # and the handler took that for "no replacement")
        failed_lookup = any(pol and isinstance(v, tuple) and v[:1] == ("except",)
                            for _, pol, v in ps.conds) and any(
            isinstance(v, tuple) and v[0] == "compare" and v[2] == ("const", None)
            and v[3] == (("const", None),) and (
                (v[1] == ("IsNot",) and not pol) or (v[1] == ("Is",) and pol))
            for _, pol, v in ps.conds)
        none_side = none_side or failed_lookup
        if rv == NODE and name == "map_variable":
            saw_fallback = True
            ctx.ob(f"{tag}/fallback", none_side, loc,
                   "no replacement: the variable itself" if none_side else
                   "returns the variable without consulting subst_func")
            continue
        if rv[0] == "call" and rv[1] in (f"IdentityMapper.{name}",
                                         f"super.{name}"):
            args = rv[2]
            ok = (args == (("selfobj",), NODE) or args == (NODE,)) and none_side
            saw_fallback = True
            ctx.ob(f"{tag}/fallback", ok, loc,
                   "no replacement: inherited identity traversal" if ok else
                   f"SubstitutionMapper.{name}: fallback is not the inherited "
                   "identity handler applied to the same node")
            continue
        ctx.ob(f"{tag}/exit:{ast.unparse(ps.items[-1][1])}", False, loc,
               f"SubstitutionMapper.{name}: unrecognised exit "
               f"{ast.unparse(ps.items[-1][1])} (neither the replacement, the "
               "node, nor the inherited identity handler)")
    ctx.ob(f"{tag}/has-both-exits", saw_repl and saw_fallback, where(mem),
           "replacement and fallback exits present" if saw_repl and saw_fallback
           else f"SubstitutionMapper.{name} lacks its "
           f"{'replacement' if not saw_repl else 'fallback'} exit")


def _is_not_none_test(v, pol, target):
    if not isinstance(v, tuple) or v[0] != "compare" or len(v[1]) != 1:
        return False
    op, left, right = v[1][0], v[2], v[3][0]
    if left == target and right == ("const", None):
        return (op == "IsNot" and pol) or (op == "Is" and not pol)
    return False


def _is_none_side(v, pol, lookups=("self.subst_func",)):
    if not isinstance(v, tuple) or v[0] != "compare" or len(v[1]) != 1:
        return False
    op, left, right = v[1][0], v[2], v[3][0]
    if left[0] == "call" and left[1] in lookups and \
            left[2] == (NODE,) and right == ("const", None):
        return (op == "IsNot" and not pol) or (op == "Is" and pol)
    return False


def _judge_make_subst_func(model, fn, module):
    """interpretive judge: make_subst_func(table) is interpreted, then the
    function it returns, on every combination of (node kind, table entries):
    the entry for the node itself wins, else -- for a Variable only -- the
    entry for its name, else None.  -> witnesses"""
    from ..absint import Closure, Interp, Opaque, Raised

    class Tok:
        def __init__(self, kind, name):
            self.kind, self.name = kind, name

        def __repr__(self):
            return f"<{self.kind} {self.name}>"
    wit = []
    named_kinds = {n_.name for n_ in model.nodes.all()
                   if "name" in n_.field_names}
    if "Variable" not in named_kinds:
        raise AnalysisError("Variable has no field 'name'")
    from ..absint import module_env
    glob = module_env(module.tree, {"primitives": Opaque("module primitives")})
    for kind in ("Variable", "Subscript", "Lookup"):
      for r_node, r_name in (("R-node", "R-name"), (0, "R-name"),
                             ("R-node", 0), (0.0, False)):
        for by_node in (False, True):
            for by_name in (False, True):
                node = Tok(kind, "x")
                table = {}
                if by_node:
                    table[node] = r_node       # (falsy replacements count)
                if by_name:
                    table["x"] = r_name
                table[Tok("Variable", "other")] = "R-other"

                def attrs(it, n_, base, attr):
                    if isinstance(base, Tok) and attr == "name":
                        # (a Lookup node has a `name` field too: its attribute)
                        if base.kind in named_kinds:
                            return base.name
                        raise Raised(n_)
                    return Opaque(ast.unparse(n_))

                def isinst(it, n_, a, k):
                    what = getattr(a[1], "what", "")
                    if what.endswith("Variable"):
                        return isinstance(a[0], Tok) and a[0].kind == "Variable"
                    _r = __import__("pv.absint", fromlist=["x"]).default_isinstance(a[0], a[1])
                    if _r is not None:
                        return _r
                    raise AnalysisError(f"isinstance(..., {a[1]!r})")
                it = Interp(calls={"isinstance": isinst}, attrs=attrs,
                            globals_=glob, max_steps=5000)
                want = r_node if by_node else (
                    r_name if by_name and kind == "Variable" else None)
                label = (f"{kind} node, table has "
                         f"{'the node' if by_node else ''}"
                         f"{' and ' if by_node and by_name else ''}"
                         f"{'its name' if by_name else ''}"
                         f"{'neither' if not (by_node or by_name) else ''}")
                try:
                    f = it.call_function(fn, [table], dict(glob))
                    from ..absint import Partial
                    if not isinstance(f, (Closure, Partial)):
                        wit.append(f"{label}: make_subst_func returns {f!r}")
                        continue
                    got = it.apply(f, [node])
                except Raised as r:
                    wit.append(f"{label}: raises at line {r.node.lineno}")
                    continue
                if got != want or type(got) is not type(want):
                    wit.append(f"{label} (entries {r_node!r} / {r_name!r}): "
                               f"gives {got!r}, expected {want!r}")
    return wit


def _check_make_subst_func(ctx, model):
    m, fn = model.func(f"{SUB}:make_subst_func")
    try:
        wit = _judge_make_subst_func(model, fn, m)
    except AnalysisError as e:
        wit = None              # the judge cannot read this tree: the
        ctx.extra["judge_unavailable:make_subst_func"] = str(e)   # rules decide
    if wit is not None:
      ctx.ob("P0/make_subst_func/lookup-semantics", not wit, m.loc(fn),
           "interpreted on 12 (node kind, table) combinations: the node's own "
           "entry, else a Variable's name entry, else None" if not wit else
           "make_subst_func's lookup: " + "; ".join(wit[:3]))
    mark = len(ctx.obs)
    try:
        _check_make_subst_func_structural(ctx, model)
    except AnalysisError:
        if wit is None or wit:
            raise
    if wit is not None and not wit:
        ctx.withdraw_failures_since(
            mark, "decided by interpreting the lookup on every table shape")


def _check_make_subst_func_structural(ctx, model):
    m, fn = model.func(f"{SUB}:make_subst_func")
    inner = [s for s in fn.body if isinstance(s, ast.FunctionDef)]
    loc = m.loc(fn)
    if len(inner) != 1:
        raise AnalysisError("make_subst_func: expected one inner function")
    inner = inner[0]
    ret = [s for s in fn.body if isinstance(s, ast.Return)]
    ok = len(ret) == 1 and isinstance(ret[0].value, ast.Name) \
        and ret[0].value.id == inner.name
    ctx.ob("P/make_subst_func/returns-inner", ok, loc,
           "returns the lookup closure" if ok else
           "make_subst_func does not return its lookup closure")
    table = fn.args.args[0].arg
    var = inner.args.args[0].arg
    pss = summarize(inner, loop_mode="1", node_param=var)
    kinds = set()
    for ps in pss:
        l2 = m.loc(ps.items[-1][1]) if ps.items[-1][1] is not None else loc
        if ps.term != "return":
            ctx.ob("P/make_subst_func/exit", False, l2,
                   "lookup closure has a non-returning path")
            continue
        rv = ps.retval
        if rv == ("index", ("global", table), None, NODE):
            kinds.add("by-node")
            ctx.ob("P/make_subst_func/by-node", True, l2, "table[node]")
        elif rv == ("index", ("global", table), None, ("attr", NODE, "name")):
            guarded = any(
                pol and isinstance(v, tuple) and v[0] == "call"
                and v[1] == "isinstance" and v[2] and v[2][0] == NODE
                and "Variable" in str(v[2][1]) for _, pol, v in ps.conds)
            after_miss = any(isinstance(v, tuple) and v[0] == "except"
                             and "KeyError" in v[1] for _, _, v in ps.conds)
            kinds.add("by-name")
            ctx.ob("P/make_subst_func/by-name", guarded and after_miss, l2,
                   "table[node.name] only for Variables, after the node lookup "
                   "missed" if guarded and after_miss else
                   "name lookup is not restricted to Variable nodes after a "
                   "missed node lookup")
        elif rv == ("const", None):
            kinds.add("none")
            ctx.ob("P/make_subst_func/none", True, l2, "no replacement -> None")
        else:
            ctx.ob(f"P/make_subst_func/exit:{ast.unparse(ps.items[-1][1])}",
                   False, l2,
                   f"lookup closure returns {ast.unparse(ps.items[-1][1])}: not "
                   "the table entry for the node, for a Variable's name, or None")
    need = {"by-node", "by-name", "none"}
    ctx.ob("P/make_subst_func/exits", need <= kinds, loc,
           f"exits {sorted(kinds)}" if need <= kinds else
           f"lookup closure lacks exits {sorted(need - kinds)}")


MUTATORS = {"update", "pop", "popitem", "clear", "setdefault", "__setitem__",
            "__delitem__"}


def _judge_substitute(model, fn, module):
    """interpretive judge: substitute() is interpreted with the lookup factory
    and the mapper class as hooks.  Whatever it is written like, the table the
    lookup is made from holds exactly the caller's entries -- keys as given: a
    name stays a name, a node stays that node -- with the keyword assignments
    over them; the caller's mapping is left as it was; the result is
    mapper_cls(make_subst_func(table))(expression).  -> witnesses"""
    from ..absint import Interp, Obj, Opaque, Raised, StepBound, module_env

    class Node:
        def __init__(self, name):
            self.name = name

        def __repr__(self):
            return f"<node {self.name}>"
    wit = []
    glob = module_env(module.tree, {})
    params = [a.arg for a in fn.args.args]
    kx = Node("kx")
    class IM:
        """a mapping that cannot be changed in place (immutabledict, the
        library's own choice for keyword arguments): update() / copy() hand
        back mappings, they do not alter this one"""

        def __init__(self, d):
            self._d = dict(d)

        def keys(self):
            return list(self._d.keys())

        def items(self):
            return list(self._d.items())

        def values(self):
            return list(self._d.values())

        def __iter__(self):
            return iter(self._d)

        def __len__(self):
            return len(self._d)

        def __getitem__(self, k):
            return self._d[k]

        def __contains__(self, k):
            return k in self._d

        def get(self, k, dflt=None):
            return self._d.get(k, dflt)

        def copy(self):
            return IM(self._d)

        def update(self, *a, **k):
            d = dict(self._d)
            d.update(*a, **k)
            return IM(d)

        def __eq__(self, o):
            return isinstance(o, IM) and o._d == self._d

        def __hash__(self):
            return 0
    scenarios = [
        ("an immutable mapping and keyword assignments",
         IM({kx: "R1", "y": "R2"}), {"z": "R5"}),
        ("a mapping with a node key and a name key, no keywords",
         {kx: "R1", "y": "R2"}, {}),
        ("a mapping and keyword assignments, one of them for a name of the "
         "mapping", {kx: "R1", "y": "R2"}, {"y": "R3", "z": 0}),
        ("keyword assignments only", None, {"z": "R4"}),
        ("neither", None, {}),
        ("an empty mapping and a falsy keyword value", {}, {"z": 0}),
    ]
    for label, table, kw in scenarios:
        seen = []
        orig = None if table is None else dict(
            table._d if isinstance(table, IM) else table)

        def make(it, nd, a, k, seen=seen):
            if len(a) != 1 or k or not isinstance(a[0], (dict, IM)):
                raise AnalysisError("make_subst_func(...) call shape")
            seen.append(dict(a[0]._d if isinstance(a[0], IM) else a[0]))
            return ("lookup", len(seen) - 1)

        def mvar(it, nd, a, k):
            return Obj("Variable", {"name": a[0] if a else k.get("name")})
        calls = {"make_subst_func": make}
        for nm in ("Variable", "make_variable", "var"):
            for pre in ("", "primitives.", "p.", "prim.", "pymbolic.",
                        "pymbolic.primitives."):
                calls[pre + nm] = mvar
        it = Interp(calls=calls, attrs=lambda it_, n_, b, a: (
            getattr(b, a) if isinstance(b, IM) and hasattr(b, a) else Opaque(
                ast.unparse(n_))), globals_=glob, max_steps=8000)
        mapper_cls = lambda f: (lambda e: ("applied", f, e))   # noqa: E731
        try:
            got = it.call_function(
                fn, ["EXPR", table],
                dict(glob, __kwargs__=dict(kw, mapper_cls=mapper_cls)))
        except Raised as r:
            wit.append(f"{label}: raises at line "
                       f"{getattr(r.node, 'lineno', '?')}")
            continue
        except StepBound:
            wit.append(f"{label}: does not terminate")
            continue
        if table is not None and (
                table._d if isinstance(table, IM) else table) != orig:
            wit.append(f"{label}: the caller's mapping is changed")
            continue
        want = dict(orig or {})
        want.update(kw)
        if got == "EXPR" and not want:
            continue                     # nothing to substitute
        if not (isinstance(got, tuple) and len(got) == 3 and
                got[0] == "applied" and got[2] == "EXPR" and
                isinstance(got[1], tuple) and got[1][0] == "lookup"):
            wit.append(f"{label}: the result is {got!r}, not "
                       "mapper_cls(make_subst_func(table))(expression)")
            continue
        tab = seen[got[1][1]]
        bad = [k_ for k_ in want if k_ not in tab or tab[k_] != want[k_]
               or type(tab[k_]) is not type(want[k_])]
        if bad or len(tab) != len(want):
            wit.append(f"{label}: the lookup is made from {tab!r}, the "
                       f"caller's entries are {want!r}")
    return wit


def _check_substitute(ctx, model):
    m0, fn0 = model.func(f"{SUB}:substitute")
    wit = None
    try:
        wit = _judge_substitute(model, fn0, m0)
    except AnalysisError as e:
        ctx.extra["judge_unavailable:substitute"] = str(e)   # rules decide
    if wit is not None:
        ctx.ob("P0/substitute/table-semantics", not wit, m0.loc(fn0),
               "interpreted on 6 combinations of mapping and keyword "
               "assignments: the lookup is made from the caller's entries, "
               "keys as given, keywords over them; the caller's mapping is "
               "untouched" if not wit else
               "substitute(): " + "; ".join(wit[:3]))
    mark = len(ctx.obs)
    _check_substitute_structural(ctx, model)
    if wit is not None and not wit:
        ctx.withdraw_failures_since(
            mark, "the interpreted substitute() has the required table "
            "semantics", prefix="P/substitute/")


def _check_substitute_structural(ctx, model):
    """path rules on substitute(): the caller's mapping is never written to;
    the table handed to make_subst_func holds the keyword assignments; the
    result is mapper_cls(make_subst_func(table))(expression)"""
    m, fn = model.func(f"{SUB}:substitute")
    loc = m.loc(fn)
    params = [a.arg for a in fn.args.args]
    if len(params) < 2 or fn.args.kwarg is None:
        raise AnalysisError("substitute(): signature changed")
    TABLE = ("param", params[1])
    EXPR = ("param", params[0])
    KW = ("kwargs",)
    mutated = []
    applies = merged = True
    n_ret = n_shortcut = 0
    for ps in summarize(fn, plain=True):
        upd_receivers = []
        for e in ps.events:
            if e.kind == "call" and "." in e.name and \
                    e.name.rsplit(".", 1)[1] in MUTATORS:
                if e.value == TABLE:
                    mutated.append(e.name)
                if e.name.endswith(".update") and e.args == (KW,):
                    upd_receivers.append(e.value)
            if e.kind == "itemwrite" and e.value is not None and \
                    getattr(e, "recv", None) == TABLE:
                mutated.append(e.name)
        if ps.term != "return":
            continue
        rv = ps.retval
        # nothing to substitute (no mapping entries, no keyword assignments):
        # the expression itself is the identical-objects answer
        if rv == EXPR:
            from ..summary import facts_of
            facts = [f for _, pol0, v0 in ps.conds if isinstance(v0, tuple)
                     for f in facts_of(v0, pol0)]
            empty = lambda x: any(  # noqa: E731
                (v == x and not pol) or
                (v[0] == "compare" and v[1] == ("Is",) and v[2] == x
                 and v[3] == (("const", None),) and pol) for v, pol in facts)
            if empty(TABLE) and empty(KW):
                n_shortcut += 1
                continue
        n_ret += 1
        callee = rv[4] if isinstance(rv, tuple) and len(rv) >= 5 else None
        good = isinstance(rv, tuple) and rv[0] == "call" and rv[2] == (EXPR,) \
            and isinstance(callee, tuple) and callee[0] == "call" and (
                callee[4] == ("param", "mapper_cls") if len(callee) >= 5
                else callee[1] == "mapper_cls") and len(callee[2]) == 1 \
            and callee[2][0][0] == "call" and \
            callee[2][0][1] == "make_subst_func" and len(callee[2][0][2]) == 1
        if not good:
            applies = False
            continue
        table = callee[2][0][2][0]
        # the keyword assignments are in the table: it *is* (a copy of) them,
        # or they were merged into it by update()
        has_kw = table == KW or table in upd_receivers or contains(
            table, lambda t: t == KW)
        if not has_kw:
            merged = False
    ok = not mutated
    ctx.ob("P/substitute/copy-before-mutation", ok, loc,
           "the caller's mapping is copied before it is updated" if ok else
           "substitute() mutates the caller's variable_assignments mapping "
           f"({sorted(set(mutated))} is applied to the parameter itself)")
    applies = applies and n_ret >= 1
    ctx.ob("P/substitute/applies-mapper", applies, loc,
           "returns mapper_cls(make_subst_func(table))(expression)" if applies
           else "substitute() does not apply mapper_cls(make_subst_func(<table>)) "
           "to the expression")
    ctx.ob("P/substitute/merges-kwargs", merged and applies, loc,
           "keyword assignments are merged" if merged else
           "keyword assignments are not merged into the table")
