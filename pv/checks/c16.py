"""C16 -- pattern matching results are sound (structural part)."""
from __future__ import annotations

import ast

from .. import AnalysisError
from ..model import CHILD, CHILD_TUPLE, ClassInfo, DATA
from ..rules import child_kinds, handler_summaries, is_raising, mapper_node_pairs, where
from ..summary import NODE, base_field, contains, mentioned_fields, summarize

UNI = "pymbolic.mapper.unifier"
MP = "pymbolic.interop.matchpy"
TF = "pymbolic.interop.matchpy.tofrom"

OTHER = ("param", "other")
URECS = ("param", "urecs")

# data fields that take part in node equality and therefore must be compared
# by the pairwise descent
DATA_COMPARED = {"Lookup": ["name"], "Comparison": ["operator"]}


def run(ctx):
    model = ctx.model
    ctx.decide("pairwise field coverage in UnifierBase: the class of the target "
               "is tested before any of its fields is read, every child field is "
               "recursed pairwise (same field on both sides) with the records "
               "threaded through, data fields that take part in equality are "
               "compared")
    ctx.decide("records with equations are created only by "
               "unification_record_from_equation (which applies the candidate "
               "filters); merging goes through unify_map, which rejects "
               "conflicting bindings")
    ctx.decide("matchpy bridge: to- and from- mappers are inverse tables over "
               "the op dataclasses (field by field), every op's _mapper_method "
               "names a from-handler")
    ctx.decline("completeness of unification and the AC search")
    ctx.assume("matchpy's own matching is correct (external library)")

    _unifier_handlers(ctx, model)
    _records(ctx, model)
    _matchpy(ctx, model)


# ---------------------------------------------------------------------------

def _guard_on_other(ps):
    """has the path established isinstance(other, type(expr))?"""
    for _, pol, v in ps.conds:
        if not isinstance(v, tuple):
            continue
        for sub, p_ in _disjuncts(v, pol):
            if sub[0] == "unop" and sub[1] == "Not" and _is_inst(sub[2]) and not p_:
                return True
            if _is_inst(sub) and p_:
                return True
    return False


def _is_inst(v):
    return isinstance(v, tuple) and v[0] == "call" and v[1] == "isinstance" and \
        v[2][0] == OTHER and v[2][1] == ("typeof", NODE)


def _disjuncts(v, pol):
    """(a or b) with polarity False means both a and b are False"""
    if v[0] == "boolop" and v[1] == "Or" and not pol:
        for x in v[2]:
            yield from _disjuncts(x, False)
    elif v[0] == "boolop" and v[1] == "And" and pol:
        for x in v[2]:
            yield from _disjuncts(x, True)
    else:
        yield v, pol


def _unifier_handlers(ctx, model):
    ub = model.cls(f"{UNI}:UnifierBase")
    ctx.floor("UnifierBase slots", len(model.own_slots(ub)), 27)
    nt = model.nodes
    pairs = 0
    for n, res, chain, mem in mapper_node_pairs(model, ub):
        if mem is None or mem.kind != "func" or mem.owner is not ub:
            continue
        if res.via in ("unsupported", "foreign") or is_raising(mem):
            continue
        if n.name in ("Variable",) or not child_kinds(n):
            continue
        pairs += 1
        _check_pairwise(ctx, model, ub, n, mem)
    ctx.floor("UnifierBase (mapper, node) pairs", pairs, 20)
    # map_constant: equal constants keep the records, others kill them
    mc = model.lookup(ub, "map_constant")
    saw = set()
    for ps in summarize(mc.node):
        eq = None
        for _, pol, v in ps.conds:
            if isinstance(v, tuple) and v[0] == "compare" and v[1] == ("Eq",) \
                    and {v[2], v[3][0]} == {NODE, OTHER}:
                eq = pol
        if eq is True:
            saw.add("eq")
            ctx.ob("P/UnifierBase/map_constant/equal", ps.retval == URECS,
                   where(mc), "equal constants: records unchanged")
        elif eq is False:
            saw.add("ne")
            ctx.ob("P/UnifierBase/map_constant/different",
                   ps.retval == ("lit", "list", ()), where(mc),
                   "different constants: no record survives" if
                   ps.retval == ("lit", "list", ()) else
                   "map_constant lets records survive although the constants "
                   "differ")
    ctx.ob("P/UnifierBase/map_constant/paths", saw == {"eq", "ne"}, where(mc),
           f"paths {sorted(saw)}")


def _check_pairwise(ctx, model, ub, n, mem):
    tag = f"F/UnifierBase/{mem.node.name}/{n.name}"
    kinds = child_kinds(n)
    pss = handler_summaries(model, n, mem.node, loop_mode="1")
    covered = set()
    # properties of the node class that alias a stored attribute
    from ..rules import make_props
    from ..summary import Evaluator
    alias = {}
    for pname, expand in make_props(model, n).items():
        try:
            v = expand(Evaluator(mem.node))
            b = base_field(v)
            if b:
                alias[pname] = b
        except Exception:
            pass
    for ps in pss:
        reads_other = [e for e in ps.events if False]
        # any use of other.<attr> on this path?
        uses_other = any(
            e.kind == "rec" and contains(e.args, lambda t: t[0] == "attr"
                                         and t[1] == OTHER) for e in ps.events)
        if uses_other:
            ok = _guard_on_other(ps)
            ctx.ob(f"{tag}/class-tested-first", ok, where(mem),
                   "fields of the target are read only after "
                   "isinstance(other, type(expr))" if ok else
                   f"UnifierBase.{mem.node.name} reads fields of the target "
                   "without having established isinstance(other, type(expr))")
        recs = [e for e in ps.events if e.kind == "rec"]
        for e in recs:
            if len(e.args) < 3:
                continue
            f = base_field(e.args[0])
            g = _other_field(e.args[1])
            g = alias.get(g, g)
            if f is None and g is None:
                continue
            ok = f == g
            if ok:
                covered.add(f)
            ctx.ob(f"{tag}/pairs-same-field:{f}", ok, where(mem, e.node),
                   f"expr.{f} is matched against other.{f}" if ok else
                   f"UnifierBase.{mem.node.name} matches expr.{f} against "
                   f"other.{g}")
        # threading: every recursion's third argument is urecs or a previous
        # recursion result / accumulator
        if recs and ps.term == "return":
            used = set()
            chain_ok = True
            for e in recs:
                third = e.args[2] if len(e.args) > 2 else None
                if third is None:
                    chain_ok = False
                elif third == URECS or third[0] == "rec" or third[0] in (
                        "param", "anyof", "other") or third == ("global",
                                                                "it_assignments"):
                    pass
            rv = ps.retval
            if kinds and all(k == CHILD for k in kinds.values()) and \
                    rv[0] == "rec":
                # nested form: count nesting depth
                depth = 0
                v = rv
                seen_fields = set()
                while isinstance(v, tuple) and v and v[0] == "rec":
                    depth += 1
                    seen_fields.add(base_field(v[1]))
                    v = v[3][1] if len(v[3]) > 1 else None
                ok = v == URECS and seen_fields >= set(kinds)
                ctx.ob(f"{tag}/records-threaded", ok, where(mem),
                       "the records are threaded through the match of every "
                       f"child {sorted(kinds)}" if ok else
                       f"UnifierBase.{mem.node.name}: the chain of recursive "
                       f"matches covers {sorted(x for x in seen_fields if x)} and "
                       f"ends in {v}; every child of {sorted(kinds)} must be "
                       "matched and the chain must start from urecs")
    missing = sorted(set(kinds) - covered)
    ctx.ob(f"{tag}/all-children-matched", not missing, where(mem),
           f"all child fields {sorted(kinds)} are matched pairwise" if not missing
           else f"UnifierBase.{mem.node.name} never matches child field(s) "
           f"{missing} of {n.name}: targets that differ there unify")
    # data fields
    for f in DATA_COMPARED.get(n.name, []):
        ok = False
        for ps in pss:
            for _, pol, v in ps.conds:
                if not isinstance(v, tuple):
                    continue
                for sub, p_ in _disjuncts(v, pol):
                    if sub[0] == "compare" and sub[1] in (("NotEq",), ("Eq",)) and \
                            {sub[2], sub[3][0]} == {("field", f),
                                                    ("attr", OTHER, f)}:
                        ok = True
        ctx.ob(f"{tag}/data-field-compared:{f}", ok, where(mem),
               f"{n.name}.{f} is compared" if ok else
               f"UnifierBase.{mem.node.name} does not compare {n.name}.{f}: "
               f"nodes that differ only in '{f}' unify")


def _other_field(v):
    if not isinstance(v, tuple):
        return None
    if v[0] == "attr" and v[1] == OTHER:
        return v[2]
    if v[0] in ("elem", "index", "val", "sorted"):
        return _other_field(v[1])
    if v[0] == "seq":
        return _other_field(v[2]) or _other_field(v[3])
    return None


# ---------------------------------------------------------------------------

def _records(ctx, model):
    m = model.repo.module(UNI)
    allowed = {"unification_record_from_equation", "unify", "__call__"}
    sites = []
    for c in model.classes.values():
        if c.module is not m:
            continue
        for name, mem in c.members.items():
            if mem.kind != "func":
                continue
            for call in ast.walk(mem.node):
                if isinstance(call, ast.Call) and ast.unparse(call.func) == \
                        "UnificationRecord":
                    sites.append((c.name, name, call))
    for key, (mm, fn) in model.functions.items():
        if mm is m:
            for call in ast.walk(fn):
                if isinstance(call, ast.Call) and ast.unparse(call.func) == \
                        "UnificationRecord":
                    sites.append(("<module>", fn.name, call))
    for cname, fname, call in sites:
        ok = fname in allowed
        if call.args and ast.unparse(call.args[0]) == "[]":
            ok = True        # the empty record carries no equation
        ctx.ob(f"O/UnificationRecord/site:{cname}.{fname}", ok, m.loc(call),
               "records are created only by the equation filter, the merge and "
               "the empty start record" if ok else
               f"{cname}.{fname} creates a UnificationRecord directly: its "
               "equation bypasses the candidate filters")
    ctx.floor("UnificationRecord construction sites", len(sites), 3)
    # the filter
    ub = model.cls(f"{UNI}:UnifierBase")
    mem = ub.members.get("unification_record_from_equation")
    L, R = ("param", "lhs"), ("param", "rhs")
    saw = set()
    for ps in summarize(mem.node, node_param=False):
        if ps.term != "return":
            continue
        rv = ps.retval
        if rv == ("const", None):
            saw.add("rejected")
            continue
        saw.add("record")
        ok_rv = rv[0] == "call" and rv[1] == "UnificationRecord" and \
            rv[2] == (("lit", "list", (("lit", "tuple", (L, R)),)),)
        # on the record path every filter has been passed
        passed = set()
        for _, pol, v in ps.conds:
            if not isinstance(v, tuple):
                continue
            s = str(v)
            if "isinstance" in s and "tuple" in s and not pol:
                passed.add("containers")
            if "force_var_match" in s and not pol:
                passed.add("force-var")
            if "lhs_mapping_candidates" in s and not pol:
                passed.add("lhs-candidates")
            if "rhs_mapping_candidates" in s and not pol:
                passed.add("rhs-candidates")
        need = {"containers", "force-var", "lhs-candidates", "rhs-candidates"}
        ctx.ob("P/unification_record_from_equation/filters", ok_rv and
               need <= passed, where(mem),
               "a record [(lhs, rhs)] is created only after the container, "
               "force-variable and both candidate filters" if ok_rv and
               need <= passed else
               f"a record is created without passing filter(s) "
               f"{sorted(need - passed)} (or is not [(lhs, rhs)])")
    ctx.ob("P/unification_record_from_equation/paths",
           saw == {"rejected", "record"}, where(mem), f"paths {sorted(saw)}")
    # candidate filters test membership of the *name*
    src = ast.unparse(mem.node).replace(" ", "")
    ok = "lhs.namenotinself.lhs_mapping_candidates" in src and \
        "rhs.namenotinself.rhs_mapping_candidates" in src
    ctx.ob("P/unification_record_from_equation/candidates-by-name", ok,
           where(mem), "only declared pattern variables may be bound" if ok else
           "the candidate filters no longer test 'name not in candidates'")
    # unify_map
    mm, fn = model.func(f"{UNI}:unify_map")
    saw = set()
    for ps in summarize(fn, plain=True, loop_mode="01"):
        if ps.term != "return":
            continue
        if ps.retval == ("const", None):
            conflict = any(pol and isinstance(v, tuple) and v[0] == "compare"
                           and v[1] == ("NotEq",) for _, pol, v in ps.conds)
            saw.add("conflict")
            ctx.ob("P/unify_map/conflict-rejects", conflict, mm.loc(fn),
                   "a name bound to two different values rejects the merge")
        else:
            saw.add("merged")
    ctx.ob("P/unify_map/paths", saw == {"conflict", "merged"}, mm.loc(fn),
           "conflict and merged exits" if saw == {"conflict", "merged"} else
           "unify_map no longer rejects conflicting bindings")
    src = ast.unparse(fn).replace(" ", "")
    ok = "result=map1.copy()" in src and "result[name]=value" in src
    ctx.ob("P/unify_map/copy", ok, mm.loc(fn),
           "the merge works on a copy and adds the new bindings")
    # UnificationRecord.unify uses unify_map for both maps
    ur = model.cls(f"{UNI}:UnificationRecord")
    un = ur.members.get("unify")
    src = ast.unparse(un.node).replace(" ", "")
    ok = "new_lmap=unify_map(self.lmap,other.lmap)" in src and \
        "new_rmap=unify_map(self.rmap,other.rmap)" in src and \
        src.count("returnNone") == 2
    ctx.ob("P/UnificationRecord.unify/both-maps", ok, ur.loc(),
           "both binding maps are merged through unify_map, a conflict in either "
           "rejects" if ok else
           "UnificationRecord.unify does not merge both maps through unify_map "
           "with rejection")
    # unify_many keeps only successful merges
    mm, fn = model.func(f"{UNI}:unify_many")
    src = ast.unparse(fn).replace(" ", "")
    ok = "ifunif_resultisnotNone:result.append(unif_result)" in src.replace("\n", "")
    ctx.ob("P/unify_many/filters-none", ok, mm.loc(fn),
           "rejected merges are dropped")


# ---------------------------------------------------------------------------

def _op_fields(model, c: ClassInfo):
    """positional constructor fields of a matchpy op dataclass"""
    out = []
    for k in reversed(model.mro(c)):
        if not isinstance(k, ClassInfo):
            continue
        for st in k.node.body:
            if isinstance(st, ast.AnnAssign) and isinstance(st.target, ast.Name):
                ann = ast.unparse(st.annotation)
                if ann.startswith("ClassVar"):
                    continue
                if st.target.id == "variable_name":
                    continue
                if st.target.id not in out:
                    out.append(st.target.id)
    return out


def _matchpy(ctx, model):
    to = model.cls(f"{TF}:ToMatchpyExpressionMapper")
    frm = model.cls(f"{TF}:FromMatchpyExpressionMapper")
    nt = model.nodes
    # op classes
    ops = {c.name: c for c in model.classes.values()
           if c.module.name == MP}
    n_ops = 0
    for name, c in sorted(ops.items()):
        mmv = None
        own = c.members.get("_mapper_method")
        if own is not None and own.kind in ("ann", "value"):
            node = own.node.value if own.kind == "ann" else own.node
            if isinstance(node, ast.Constant):
                mmv = node.value
        if mmv is None:
            continue
        n_ops += 1
        if name in ("TupleOp",):
            continue
        h = model.lookup(frm, mmv)
        ok = h is not None and h.kind == "func"
        ctx.ob(f"T/matchpy/{name}/from-handler", ok, c.loc(),
               f"{name}._mapper_method = {mmv} is implemented by the "
               "from-mapper" if ok else
               f"op class {name} names the handler {mmv}, which "
               "FromMatchpyExpressionMapper does not define")
    ctx.floor("matchpy op classes with a handler name", n_ops, 20)

    # inverse tables
    pairs = 0
    for slot in sorted(model.own_slots(to)):
        tmem = to.members[slot]
        if tmem.kind != "func" or slot in ("map_constant", "map_dot_wildcard",
                                           "map_star_wildcard"):
            continue
        nodes = nt.by_mapper_method(slot)
        nodes = [x for x in nodes if x.cls.module.name == "pymbolic.primitives"]
        if len(nodes) != 1:
            continue
        n = nodes[0]
        tps = [ps for ps in handler_summaries(model, n, tmem.node)
               if ps.term == "return"]
        if len(tps) != 1:
            raise AnalysisError(f"ToMatchpy.{slot}: several paths")
        rv = tps[0].retval
        if not (rv[0] == "call" and rv[1].startswith("m.")):
            raise AnalysisError(f"ToMatchpy.{slot}: result is not an op")
        opname = rv[1][2:]
        op = ops.get(opname)
        if op is None:
            raise AnalysisError(f"op class {opname} not found")
        opfields = _op_fields(model, op)
        # which node field goes into which op field
        fwd = {}
        for i, a in enumerate(rv[2]):
            mf = sorted(mentioned_fields(a) | _prop_fields(a))
            src = mf[0] if len(mf) == 1 else None
            if a[0] == "star":
                dst = opfields[0] if opfields else None
            else:
                dst = opfields[i] if i < len(opfields) else None
            fwd[src] = dst
        # the from-handler for that op
        mm = None
        own = None
        for k in model.mro(op):
            if isinstance(k, ClassInfo) and "_mapper_method" in k.members:
                own = k.members["_mapper_method"]
                break
        node = own.node.value if own.kind == "ann" else own.node
        mm = node.value
        fmem = model.lookup(frm, mm)
        if fmem is None or fmem.kind != "func":
            pairs += 1      # reported by the from-handler rule above
            continue
        fps = [ps for ps in summarize(fmem.node) if ps.term == "return"]
        frv = fps[0].retval
        ok_cls = frv[0] == "call" and frv[1] == f"p.{n.name}"
        back = {}
        if ok_cls:
            for i, a in enumerate(frv[2]):
                attrs = sorted(_node_attrs(a))
                src = attrs[0] if attrs else None
                if src == "operands":
                    src = "children"
                dst = n.field_names[i] if i < len(n.field_names) else None
                back[src] = dst
        pairs += 1
        problems = []
        if not ok_cls:
            problems.append(f"from-handler {mm} builds {frv[1]} instead of "
                            f"p.{n.name}")
        for f in n.field_names:
            f_src = f
            if f == "index" and "index_tuple" in fwd:
                f_src = "index_tuple"
            g = fwd.get(f_src)
            if g is None:
                problems.append(f"{n.name}.{f} is not converted")
            elif back.get(g) != f:
                problems.append(f"{n.name}.{f} goes into {opname}.{g}, which comes "
                                f"back as {n.name}.{back.get(g)}")
        ctx.ob(f"T/matchpy/roundtrip/{n.name}", not problems, where(tmem),
               f"{n.name} <-> {opname}: fields {fwd}" if not problems else
               "; ".join(problems), {"to": fwd, "from": back})
    ctx.floor("matchpy to/from pairs", pairs, 20)


def _prop_fields(a):
    out = set()

    def walk(x, depth=0):
        if not isinstance(x, tuple) or depth > 30:
            return
        if x and x[0] == "attr" and x[1] == NODE:
            out.add(x[2])
        for y in x:
            if isinstance(y, tuple):
                walk(y, depth + 1)
    walk(a)
    return out


def _node_attrs(a):
    out = set()

    def walk(x, depth=0):
        if not isinstance(x, tuple) or depth > 30:
            return
        if x and x[0] == "attr" and x[1] == NODE:
            out.add(x[2])
        for y in x:
            if isinstance(y, tuple):
                walk(y, depth + 1)
    walk(a)
    return out
